# Build of the verification framework. Everything is compiled from $(REPO)'s *working tree*
# with -MMD dependencies, so every invocation reflects the sources as they are now.
#
#   make setup                     build all library variants and all harnesses (MANIFEST.setup_cmd)
#   make V=<variant> lib           library objects + archive of one variant
#   make V=<variant> H=<harness>   one harness binary: build/<variant>/bin/<harness>
#
REPO ?= /repo
V    ?= asan
# builds of another tree (VERIF_REPO=/some/copy, used to try mutants) live in their own directory
ifeq ($(REPO),/repo)
BROOT := build
else
BROOT := build/alt/$(shell echo $(REPO) | md5sum | cut -c1-10)
endif
B    := $(BROOT)/$(V)
CXX  := g++

INCS := -I$(REPO)/SparseGrids -I$(BROOT)/config -I$(REPO)/InterfaceTPL -I$(REPO)/DREAM \
        -I$(REPO)/DREAM/Optimization -I$(REPO)/Addons -I$(REPO)/Config -I$(REPO)/Tasgrid -Iengines/common

# the guard is defined for completeness: no source hook exists in the repository (MANIFEST.hooks)
COMMON := -std=c++11 -g -fno-omit-frame-pointer -DTASMANIAN_VERIF -w

FLAGS_asan  := -O1 -fsanitize=address,undefined -fno-sanitize=null -fno-sanitize-recover=undefined
FLAGS_plain := -O2
FLAGS_omp   := -O1 -fopenmp -fsanitize=address,undefined -fno-sanitize=null -fno-sanitize-recover=undefined
FLAGS_ompt  := -O1 -fopenmp -fsanitize=thread -DVS_NO_INTERPOSE
FLAGS_tsan  := -O1 -fsanitize=thread -DVS_NO_INTERPOSE
FLAGS_inst  := -O1 -fsanitize=address,undefined -fno-sanitize=null -fno-sanitize-recover=undefined -finstrument-functions \
               -finstrument-functions-exclude-file-list=/usr/include,/usr/lib,engines/
LDFLAGS_asan  := -fsanitize=address,undefined
LDFLAGS_plain :=
LDFLAGS_omp   := -fsanitize=address,undefined
LDFLAGS_ompt  := -fsanitize=thread
LDFLAGS_tsan  := -fsanitize=thread
LDFLAGS_inst  := -fsanitize=address,undefined

CXXFLAGS := $(COMMON) $(FLAGS_$(V)) $(INCS)
LDFLAGS  := $(LDFLAGS_$(V)) -pthread -ldl

LIBSRC := $(filter-out $(REPO)/SparseGrids/gridtest% $(REPO)/SparseGrids/tsgDpcpp% $(REPO)/SparseGrids/tsgHip%, \
             $(wildcard $(REPO)/SparseGrids/*.cpp)) \
          $(REPO)/InterfaceTPL/tsgGpuNull.cpp \
          $(REPO)/DREAM/tsgDreamState.cpp $(REPO)/DREAM/tsgDreamLikelyGaussian.cpp $(REPO)/DREAM/tsgDreamSampleWrapC.cpp \
          $(REPO)/DREAM/Optimization/tsgGradientDescent.cpp $(REPO)/DREAM/Optimization/tsgParticleSwarm.cpp $(REPO)/DREAM/Optimization/TasmanianOptimizationWrapC.cpp \
          $(REPO)/Tasgrid/tasgridWrapper.cpp
LIBOBJ := $(patsubst %.cpp,$(B)/lib/%.o,$(notdir $(LIBSRC)))
vpath %.cpp $(sort $(dir $(LIBSRC)))

.PHONY: setup lib all-harness config clean
.SECONDARY:

config: $(BROOT)/config/TasmanianConfig.hpp $(BROOT)/config/tasgridLogs.hpp

$(BROOT)/config/TasmanianConfig.hpp: $(REPO)/Config/TasmanianConfig.in.hpp
	@mkdir -p $(BROOT)/config
	sed -e 's/@Tasmanian_VERSION_MAJOR@/8/g' -e 's/@Tasmanian_VERSION_MINOR@/2/g' \
	    -e 's/@Tasmanian_version_comment@/ (development)/' -e 's/@Tasmanian_license@/BSD 3-Clause with UT-Battelle disclaimer/' \
	    -e 's/@Tasmanian_git_hash@/verif/' -e 's/@Tasmanian_cxx_flags@/verif/' \
	    -e 's,^#cmakedefine \(.*\),/* #undef \1 */,' $< > $@

$(BROOT)/config/tasgridLogs.hpp: $(REPO)/Tasgrid/tasgridLogs.in.hpp
	@mkdir -p $(BROOT)/config
	sed -e 's/@[A-Za-z_]*@/verif/g' $< > $@

$(B)/lib/%.o: %.cpp $(BROOT)/config/TasmanianConfig.hpp $(BROOT)/config/tasgridLogs.hpp
	@mkdir -p $(B)/lib
	$(CXX) $(CXXFLAGS) -MMD -MP -c $< -o $@

$(B)/libtsg.a: $(LIBOBJ)
	@rm -f $@
	ar rcs $@ $(LIBOBJ)

lib: $(B)/libtsg.a

# tasgrid executable (C16) -------------------------------------------------------------------
TGSRC := $(REPO)/Tasgrid/tasgrid_main.cpp $(REPO)/SparseGrids/gridtestExternalTests.cpp $(REPO)/SparseGrids/gridtestTestFunctions.cpp
TGOBJ := $(patsubst %.cpp,$(B)/tg/%.o,$(notdir $(TGSRC)))
vpath %.cpp $(REPO)/Tasgrid
$(B)/tg/%.o: %.cpp $(BROOT)/config/TasmanianConfig.hpp $(BROOT)/config/tasgridLogs.hpp
	@mkdir -p $(B)/tg
	$(CXX) $(CXXFLAGS) -MMD -MP -c $< -o $@
$(B)/bin/tasgrid: $(TGOBJ) $(B)/libtsg.a
	@mkdir -p $(B)/bin
	$(CXX) $(CXXFLAGS) $(TGOBJ) $(B)/libtsg.a $(LDFLAGS) -o $@

# harnesses: engines/<dir>/<name>.cpp (+ optional engines/<dir>/<name>.flags with extra flags/sources) -----
HSRC = $(firstword $(wildcard engines/*/$(1).cpp))
define HARNESS_RULE
$(B)/bin/$(1): $(call HSRC,$(1)) $(B)/libtsg.a $(wildcard engines/common/*) $(wildcard $(dir $(call HSRC,$(1)))*.hpp) $(wildcard $(dir $(call HSRC,$(1)))*.inc)
	@mkdir -p $(B)/bin $(B)/h
	$(CXX) $(CXXFLAGS) -I$(dir $(call HSRC,$(1))) -MMD -MP -MF $(B)/h/$(1).d -MT $$@ $(call HSRC,$(1)) \
	   `cat $(basename $(call HSRC,$(1))).flags 2>/dev/null` $(B)/libtsg.a $(LDFLAGS) `cat $(basename $(call HSRC,$(1))).libs 2>/dev/null` -o $$@
endef
ALLH := $(basename $(notdir $(wildcard engines/*/*.cpp)))
$(foreach h,$(filter-out %_aux,$(ALLH)),$(eval $(call HARNESS_RULE,$(h))))

ifneq ($(H),)
harness: config $(B)/bin/$(H)
endif

-include $(wildcard $(B)/lib/*.d) $(wildcard $(B)/h/*.d) $(wildcard $(B)/tg/*.d)

# setup: pre-build what the quick checks need (each check rebuilds incrementally anyway)
setup:
	python3 bin/check --setup

clean:
	rm -rf build out
