#!/usr/bin/env python3
"""Regenerates /verif/MANIFEST.json from the registry (bin/registry.d) and the not-applicable list (bin/not_applicable.json)."""
import json, os, sys
ROOT = os.path.dirname(os.path.dirname(os.path.abspath(__file__)))
sys.path.insert(0, os.path.join(ROOT, "bin"))
from registry import CHECKS
META = json.load(open(os.path.join(ROOT, "bin", "manifest_meta.json")))
checks = []
READY = set(META.get("ready", []))
CHECKS = {k: v for k, v in CHECKS.items() if k in READY}
for pid in sorted(CHECKS):
    m = META["checks"].get(pid, {})
    spec = CHECKS[pid]
    checks.append({
        "property_id": pid,
        "quick_cmd": "bin/check %s --tier quick" % pid,
        "thorough_cmd": "bin/check %s --tier thorough" % pid,
        "evidence_file": "/verif/evidence/%s.json" % pid,
        "replay_cmd_template": "bin/check %s --replay {path}" % pid,
        "engine": m.get("engine", spec["jobs"][0]["harness"]),
        "level_claimed": {"category": spec.get("level", "model_checking"), "text": m.get("level_text", spec.get("rule", "")), "design_ref": m.get("design_ref", "DESIGN.md section 3 (%s)" % pid)},
        "level_note": m.get("level_note", "; ".join(spec.get("assumptions", []))),
        "technique": m.get("technique", "explicit-state exhaustive enumeration on the real code"),
    })
na = [e for e in META.get("not_applicable", []) if e["property_id"] not in CHECKS]
all_ids = ["C%02d" % i for i in range(1, 21)]
for pid in all_ids:
    if pid not in CHECKS and pid not in [e["property_id"] for e in na]:
        na.append({"property_id": pid, "reason": "check not built yet (work in progress); planned engine in DESIGN.md section 3"})
man = {"version": 1, "setup_cmd": "make -C /verif setup",
       "hooks": META["hooks"], "engines": META["engines"], "checks": checks, "notes": META.get("notes", ""), "not_applicable": na}
json.dump(man, open(os.path.join(ROOT, "MANIFEST.json"), "w"), indent=1)
print("MANIFEST.json: %d checks, %d not applicable" % (len(checks), len(na)))
