CHECKS["C02"] = dict(
    level="model_checking",
    rule="every configuration of the lattice (rule x type x dims x depth x weights x limits x transform x alpha/beta) is a state; "
         "transitions update/load/merge; in every state every monomial of getGlobalPolynomialSpace(false) (every Fourier mode) is integrated and compared with float128 closed-form moments; "
         "the same oracle with values loaded and a refinement pending; exotic quadrature rules (shift 0, positive, negative); "
         "distinct = distinct (rule, point set) pairs",
    assumptions=COMMON_ASSUME + ["monomials with an exponent above 36 are skipped (counted in 'skipped')"],
    jobs=[dict(harness="scan_exact", variant="asan", args=["--prop", "C02"], quick=["--tier", "quick"], thorough=["--tier", "thorough"],
               deadline_quick=240, deadline_thorough=1200)],
)
CHECKS["C03"] = dict(
    level="model_checking",
    rule="same lattice as C02 plus local-polynomial and wavelet grids; in every state every member of the declared interpolation space is reproduced by the "
         "interpolation weights and by evaluate() after loading nodal values (as an overwriting reload), at interior probes, domain corners, a node and points next to nodes "
         "(node + {1e-11, -1e-9, 1e-7} x width); transforms: canonical, a wide box, a narrow box far from the origin, boxes whose corner maps to 1 + 2e-16; tolerance scaled by the conditioning "
         "of the state (sum |w v|, Lebesgue sum x degree x round-off of the domain map); deep 1-D units (Fourier 3^10 points, local polynomial 2^15 points) for the O(N) weight routines",
    assumptions=COMMON_ASSUME + ["clenshaw-curtis-zero: a listed degree k stands for the zero-boundary polynomial (1-x^2)x^(k-2); degrees < 2 skipped"],
    jobs=[dict(harness="scan_exact", variant="asan", args=["--prop", "C03"], quick=["--tier", "quick"], thorough=["--tier", "thorough"],
               deadline_quick=240, deadline_thorough=1200)],
)
