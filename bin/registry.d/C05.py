CHECKS["C05"] = dict(
    level="model_checking",
    rule="states = (configuration, history) pairs: 5 grid families x rules x local orders {-1,0,1,2,3,4,5} / wavelet orders {1,3} x dims x depth x selection type x "
         "anisotropic weights x alpha/beta x {canonical, linear domain transform}, histories load(member of the reproduced space) | load(generic) refine load reload(member) "
         "[second refinement round in the thorough tier]; transitions = load / surplus or anisotropic refinement / update / reload applied to the real objects "
         "(transformed grid and canonical twin in lock-step); in every state, at 4 interior probes kept away from every kink of the finest level: "
         "differentiate == getDifferentiationWeights . values; == 4th-order central differences of evaluate(); == analytic gradient for members of the C03 space; "
         "== gradient of the canonical twin at the pulled-back point x documented Jacobian; distinct = digests of (rule, order, point set, transform, alpha/beta)",
    assumptions=COMMON_ASSUME + [
        "probes of piecewise rules are placed at (k + 0.37) 2^-13 (3^-9 grid for the piecewise-constant rule): at least 1.8e-5 from every kink candidate of levels <= 8, finite-difference stencil +-2e-5",
        "tolerances: 1e-6 relative to max(1, conditioning of evaluate, |gradient|) for finite differences; 1e-9 (wavelets 1e-6) relative to the conditioning sum |w_i v_i| for the exact identities",
        "every configuration runs in a child process under a watchdog of 90 s of CPU time (slowest configuration, the 59049-point 1-D Fourier grid: ~19 s); an expiry counts as a hang only when the configuration, re-run alone with 360 s of CPU time, expires again",
        "clenshaw-curtis-zero is not used for the analytic oracle (its declared space is the subject of C03/F15); monomials above degree 40 are left out of the loaded member",
    ],
    jobs=[dict(harness="scan_deriv", variant="asan", args=[], quick=["--tier", "quick"], thorough=["--tier", "thorough"],
               deadline_quick=240, deadline_thorough=1200)],
)
