CHECKS["C09"] = dict(
    level="model_checking",
    rule="for every configuration (family x rule x order x dims x outputs x limits x transform x host grid smaller/equal/larger than the target set, optional never-admissible "
         "samples + completion batch) EVERY arrival order (n!) x EVERY batch partition (2^(n-1) compositions) x EVERY query mode is one execution on a fresh real grid "
         "(beginConstruction, loadConstructedPoints per batch, getCandidateConstructionPoints, finishConstruction; thorough: every write/read position x {binary, ascii}); "
         "after every delivery the loaded set is compared with a reference model of admissibility (lower-complete tensors / lower index sets / connected hierarchies, "
         "closed formulas on coordinates), values bitwise by coordinates, candidates vs loaded points; after the last delivery the surrogate is compared with the one-batch load "
         "and with loadNeededValues on the target grid; parked samples must be promoted by a completion batch; finishConstruction must not change the state. "
         "states = distinct (loaded set, parked count) observations, transitions = deliveries + finish, execs = delivery sequences, "
         "distinct = distinct (final loaded set, bitwise surrogate) outcomes summed over configurations",
    assumptions=COMMON_ASSUME + [
        "target sets have at most 5 (quick) / 6 (thorough, selected 7) samples; dimensions 1 and 2; one value function (smooth, non-symmetric)",
        "for sets that are not hierarchy-complete (prefixes of a local-polynomial / wavelet delivery) every loaded set between the hierarchy-complete part and the connected part is accepted",
        "1-D levels of Global/Sequence/Fourier nodes are read from 1-D grids made by the library (makeGlobalGrid/makeSequenceGrid/makeFourierGrid), not from the construction code",
        "wavelet order 3 and 2-D wavelets only as 1-D depth 0 (5 points): larger grids exceed the n! x 2^(n-1) bound",
    ],
    jobs=[dict(harness="perm_construct", variant="asan", args=[], quick=["--tier", "quick"], thorough=["--tier", "thorough"],
               deadline_quick=240, deadline_thorough=1080)],
)
