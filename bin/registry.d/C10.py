CHECKS["C10"] = dict(
    level="model_checking",
    rule="states = (configuration, history) pairs: rules of every canonical-domain class ([-1,1]: global nested / non-nested, sequence, local polynomial, wavelet; Fourier [0,1]; "
         "Gauss-Laguerre; Gauss-Hermite; Gauss-Chebyshev 1/2; Gauss-Gegenbauer; Gauss-Jacobi) x dims x depth x alpha/beta x (a,b) alphabet {none, 3 vectors} x conformal truncation "
         "{none, 3 vectors; unweighted [-1,1] rules}; transitions = setDomainTransform / setConformalTransformASIN after make, load, change of transform, clearDomainTransform, "
         "set / clear conformal, setDomainTransform again, write/read (ascii, binary), applied to the real object next to a canonical twin holding the same values; after every "
         "transition: points == own implementation of the documented map (incl. truncated asin series) of the twin's points; quadrature weights and basis integrals == twin x documented "
         "factor and exact on the mapped monomials w.r.t. the documented weight (__float128 moments); supports scale; getDomainInside accepts grid points / corners / probes and rejects "
         "a - eps, b + eps; interpolation weights, evaluate, evaluateBatch == twin at the pulled-back point (bisection inverse of the conformal map); delta property and nodal reproduction "
         "at mapped nodes; gradient and differentiation weights == twin x Jacobian; histories reaching the same transform observe bitwise the same; distinct = digests of (rule, point set, transform)",
    assumptions=COMMON_ASSUME + [
        "supports of Global/Sequence/Fourier grids are read as 'covers the transformed domain' on bounded domains and literally (canonical length x dx/dt) on the unbounded Laguerre/Hermite domains",
        "a grid node rejected by getDomainInside() only because its computed coordinate exceeds the bound by <= 4 ulp is excused (statement: 'up to rounding at the boundary itself') and counted as an outcome",
        "the conformal truncation p is read as in the implementation comments: terms k = 0..p of the asin series (p + 1 terms)",
        "under a conformal map the Newton inverse is additionally guarded by a 5 s wall-clock watchdog per state (60 s when the state is replayed alone; a normal evaluation phase takes milliseconds); every configuration runs under a watchdog of 90 s of CPU time (360 s when replayed alone); evaluation oracles of a state are skipped once its pull-back test failed",
    ],
    jobs=[dict(harness="scan_transform", variant="asan", args=[], quick=["--tier", "quick"], thorough=["--tier", "thorough"],
               deadline_quick=240, deadline_thorough=1200)],
)
