CHECKS["C12"] = dict(
    level="model_checking",
    rule="two managed threads each run one const operation on the same real grid; the library is compiled with -finstrument-functions and every entry of a (low call count) Tasmanian function is a "
         "scheduler choice point; all schedules with <= k deviations are run for every ordered pair of operations on every state; oracle: each call returns bitwise what it returns alone, ASan clean, "
         "no deadlock; plus a free-running ThreadSanitizer pass over every pair (the race detector proper); distinct = distinct (status, result-agreement) outcomes per pair summed",
    assumptions=COMMON_ASSUME + ["preemption only at function entries of functions entered at most 4 (quick) / 8 (thorough) times per operation (explicit reduction); sequential consistency",
                                 "plain-memory races are decided by ThreadSanitizer on free-running threads, the scheduler decides their effects"],
    jobs=[dict(name="sched", harness="sched_const", variant="inst", quick=["--tier", "quick", "--bound", "1"], thorough=["--tier", "thorough", "--bound", "2"], deadline_quick=240, deadline_thorough=1500),
          dict(name="tsan", harness="sched_const", variant="tsan", quick=["--tier", "quick"], thorough=["--tier", "thorough"], deadline_quick=240, deadline_thorough=600)],
)
