CHECKS["C13"] = dict(
    level="model_checking",
    rule="the library is compiled with g++ -fopenmp and linked against a substitute of the OpenMP runtime (engines/omp/gomp_shim.hpp: the 12 GOMP/omp entry points the objects import) whose team threads are "
         "managed threads of the cooperative scheduler of engines/sched/sched.hpp; scripted operation histories (E-A alphabet: make, load, surplus refinement with all 5 strategies incl. fds/stable and scale correction, "
         "anisotropic refinement, updateGrid incl. curved weights with negative sum, dynamic construction candidates/deliveries, merge, removal, copies; observers: evaluateBatch, dense and sparse hierarchical functions, "
         "quadrature/interpolation/differentiation weights, integrate, differentiate; PSO iterations; node optimiser) run on all 5 grid families in 2-D and 3-D; "
         "a spine process runs each history under the default schedule and, on entry of every outermost parallel region in turn, forks one execution per schedule of that region with <= k deviations from the default "
         "(deviation-bounded DFS over the choice points: region start, critical entry/exit, before every dynamic chunk acquisition and between obtaining a chunk and executing it, barrier release, loop-end-nowait, thread end/join); "
         "quick: k = 1, team sizes 1,2,3 on 40 core histories; thorough: k = 1, team sizes 1,2,3,4 on all 137 histories plus k = 2, team sizes 2,3 on the 2-D core histories (choice points before every visible operation only); "
         "oracle on every execution: the observation after the step (binary write() bytes, structure through the public getters, numeric outputs) equals that of the serial (no -fopenmp) build of the same harness: "
         "bitwise, or else integers/words of the ASCII write and getters identical and floating values within 1e-13 of the magnitude; AddressSanitizer/UBSan clean; no deadlock/livelock/time-out; "
         "states = choice points visited, transitions = scheduling steps, execs = schedules executed on the real code, distinct = distinct (history, region, thread-order/chunk-assignment/critical-order trace) classes; "
         "second job: the same histories free-running on the shim's real pthread team under ThreadSanitizer (plain-memory races inside regions)",
    assumptions=[
        "small-scope hypothesis: grids, argument values and histories outside the scripted alphabet are not covered; schedules with more deviations than the bound are not covered",
        "trusted base: the OpenMP runtime is replaced by the shim (libgomp itself is not linked); what is decided is the OpenMP code as compiled by g++ (-O1 -fopenmp -fsanitize=address,undefined) under any admissible runtime schedule within the deviation bound; the serial reference is the pinned configuration (pragmas ignored)",
        "sequential consistency: one team thread runs at a time and code between two choice points is atomic; hardware memory orderings are not modelled; plain-memory data races are delegated to the ThreadSanitizer job; '#pragma omp atomic' (tsgHierarchyManipulator.cpp, integer add) is compiled inline and executes atomically without a choice point",
        "constructs covered: parallel, parallel for / for with static (computed inline by gcc from omp_get_num_threads/omp_get_thread_num) and dynamic schedules (chunk 1), critical (named and unnamed), barrier, implicit barriers, nowait; nested regions are serialised (team of one, as libgomp does by default) and not explored; no other construct is imported by the objects (nm -u)",
        "schedules of different regions are independent (fork-join): deviations are enumerated inside one outermost region execution at a time; an execution whose state after the current step is bitwise identical to the serial build is merged with the default run (identical state, identical future)",
        "regions not executed by any history are listed in the 'region coverage' note of the evidence (BLAS/GPU-only paths, compile-time dead template branches)",
    ],
    jobs=[dict(name="sched", harness="sched_omp", variant="omp", also_build=[["asan", "sched_omp"]], quick=["--tier", "quick"], thorough=["--tier", "thorough"], deadline_quick=240, deadline_thorough=1200),
          dict(name="tsan", harness="sched_omp", variant="ompt", also_build=[["asan", "sched_omp"]], quick=["--tier", "quick"], thorough=["--tier", "thorough"], deadline_quick=180, deadline_thorough=600)],
)
