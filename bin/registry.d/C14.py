def _opseq_c14(qdepth=2, tdepth=3, qdl=600, tdl=1500):
    return dict(
        level="model_checking",
        rule="BFS over histories of {load, refine, update, merge, clear, setcoef, begin, deliver, finish} from every configuration of the lattice (5 families, zero-output grids); "
             "in every reached state - and once per configuration on the empty grid - every applicable entry of a catalogue of documented misuses (transcribed from every \\throws clause and "
             "the error-handling contract of TasmanianSparseGrid.hpp: make*/factory functions, read of missing/foreign/future/truncated files, domain transforms, update*, weights/evaluate/load "
             "with wrong sizes, acceleration selectors, refinement and construction entry points out of order / out of range / on the wrong grid type, hierarchical coefficients, point removal) "
             "is issued on a forked copy of the live object; oracle per (state, entry): exception type is std::invalid_argument or std::runtime_error (no other type, no normal return, no signal, "
             "no sanitizer report, no hang), afterwards the object is empty (make/read only) or observes bitwise as before (points, values, coefficients, level limits, transforms, surrogate at probes, "
             "binary write image), then binary+ASCII write/read-back, evaluation and one legal mutation must behave exactly as on the untouched state",
        assumptions=COMMON_ASSUME + [
            "states are deduplicated by a digest of the public observation vector plus the binary write() image; merged states have equal observable and serialised state",
            "only documented exceptions are in scope: raw-pointer overloads documented as 'does not check the size (will segfault)' are not issued; finishConstruction()/beginConstruction() out of order "
            "and copyGrid() have no documented exception and are not in the catalogue",
            "the complete catalogue is issued in every state of depth <= depth-1 and on the empty grid; at the deepest level only the entries whose validation depends on the grid state "
            "(refinement, construction, update, load/evaluate, hierarchical, domain; ~half of the catalogue) are issued - make*/read/factory/acceleration entries validate before touching the object",
            "level limits, transforms and the binary image are compared in addition to points/values/surrogate (a failed call that silently replaces the limits changes every later refinement)",
            "after 3 sanitizer crashes of the same (entry, configuration) further experiments of that pair are skipped and counted (outcome 'skipped-after-repeated-crash')",
            "build without CUDA/HIP/DPC++: the acceleration entries exercise the 'not enabled at compile time' clauses",
        ],
        jobs=[dict(harness="opseq", variant="asan", args=["--prop", "C14", "--watchdog", "300"], quick=["--tier", "quick", "--depth", str(qdepth)],
                   thorough=["--tier", "thorough", "--depth", str(tdepth)], deadline_quick=qdl, deadline_thorough=tdl)])


CHECKS["C14"] = _opseq_c14()
