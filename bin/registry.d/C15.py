CHECKS["C15"] = dict(
    level="model_checking",
    rule="environment enumeration (E-E): get_random01, the domain test, the probability function and the user update are scripted/logging callbacks; "
         "a state = (configuration, consumed answer prefix) at which chain state / history were observed; a transition = one callback answer consumed; "
         "every answer string over {0,.25,.5,.75,1} within the bound is executed on the real SampleDREAM (forked, ASan+UBSan) and a reference DE-proposal + Metropolis step "
         "written in the harness is replayed on the logged values; split runs are compared bitwise with the single run; distinct = digests of (configuration, final chains, history, pdf history)",
    assumptions=COMMON_ASSUME + [
        "the reference assumes the documented order of draws per chain (j, k, update draws) followed by one acceptance draw per in-domain proposal whose probability does not exceed the current one",
        "an answer that is established as crashing for one configuration (role of the draw + symbol, e.g. k-draw = 1.0) is not re-executed for that configuration; such cases are counted in 'skipped'",
        "answer strings longer than the enumerated length continue with the default answer 0.5",
        "state edits between two runs use every user-level public mutator of TasmanianDREAM (setState vector/callable, clearPDFvalues, clearHistory, setPDFvalues callable/vector, expandHistory); saveStateHistory/getIJKdelta are documented as sampler-internal and not called; setPDFvalues(vector) is given the true pdf values of the current state",
        "reference for the edits: setState replaces the chains, keeps the history and leaves the pdf values not ready (the next SampleDREAM must evaluate the probability function on the current state first); clearPDFvalues keeps the state, values not ready; clearHistory drops records and the acceptance counter only",
        "pdf 'posterior' is the library's own posterior(model, LikelihoodGaussIsotropic, uniform_prior) composition used as the environment's probability function (its numerics are not judged, only that recorded values equal it)",
        "a violation stops the checking of its case (later symptoms of the same execution would be consequences)",
    ],
    jobs=[dict(harness="env_dream", variant="asan", args=[], quick=["--tier", "quick"], thorough=["--tier", "thorough"], deadline_quick=300, deadline_thorough=1140)],
)
