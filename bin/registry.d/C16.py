CHECKS["C16"] = dict(
    level="model_checking",
    rule="explicit-state breadth-first search over tasgrid command scripts: a state is the grid file produced so far (key = sha1 of its binary write() + sha1 of its ASCII write(), "
         "x the format of the stored file), initial states = make* over a configuration lattice in both grid-file formats, a transition = one invocation of the real ASan+UBSan "
         "tasgrid binary with one command of the alphabet (tiny argument domains, deterministically generated input matrices in both matrix formats); for every transition the "
         "API mirror performs the documented equivalent C++ calls on the same file: grid-file bytes, result matrix, exit status <-> exception, read-only commands leave the file "
         "untouched, no crash/sanitizer report/hang. Depth-0 units: -makequadrature lattice, every documented command word / shorthand, every documented option shorthand. "
         "distinct = distinct (command variant, outcome digest) pairs",
    assumptions=COMMON_ASSUME + [
        "the documented mapping (Doxygen/InterfaceCLI.md, `tasgrid <command> help`, InterfaceMATLAB/*.m headers, Doxygen comments of TasmanianSparseGrid.hpp) is the specification",
        "API calls whose documented precondition does not hold (e.g. evaluate without loaded values) only require that tasgrid does not crash",
        "an uncaught C++ exception in tasgrid (SIGABRT from std::terminate) counts as 'exit status non-zero'",
        "2 inputs, <= 2 outputs, depth <= 4; -makeexoquad, -customfile, -gpuid, -test, -log are not explored",
    ],
    jobs=[dict(harness="cli_mirror", variant="asan", python="engines/cli/cli_explore.py", also_build=[["asan", "tasgrid"], ["asan", "cli_mirror"]],
               quick=["--tier", "quick"], thorough=["--tier", "thorough"], deadline_quick=240, deadline_thorough=1080)],
)
