CHECKS["C17"] = dict(
    level="fault_enumeration",
    rule="the harness executable interposes fopen64/fopen/write/writev/fclose/close/rename/unlink, so every file-system operation issued by "
         "constructSurrogate on <name> and <name>_old is a numbered event; run 0 records the event history, the model calls and a copy of both files after "
         "every checkpoint; then for EVERY event k a fresh process repeats the construction and _exit()s just before event k, and inside every write of n bytes "
         "after b bytes of it (torn write; stream buffers lost, bytes handed to write() kept); after each death a fresh process calls constructSurrogate again "
         "with the same file name. Oracle per kill point: (disk) once a checkpoint has completed one of the two files is byte-equal to a completed checkpoint "
         "that is at least as new; (restart) returns normally (no exception, sanitizer report, signal, hang or memory runaway), the state it continues from (its first "
         "checkpoint image) is byte-equal to a checkpoint of run 0 not older than the last completed one, it calls the model only for samples that are not in the last "
         "completed checkpoint, recovered + new samples <= budget, every loaded value equals the model and the surrogate is nodal (1e-9, wavelet 1e-7). "
         "states = kill points (event, offset); transitions = file-system events of the recorded histories; executions = crash + recovery pairs on the real code; "
         "distinct = distinct recovery outcomes (digest of start state, model-call sequence, re-computed set, exception)",
    assumptions=COMMON_ASSUME + [
        "process death, not power loss: bytes handed to write() survive, user-space stream buffers are lost; no reordering of writes by the file system",
        "a single crash per history (the restart itself is not killed)",
        "the acknowledged work of a checkpoint is the set of samples the model had returned before the checkpoint began (the sequential loop and the one-worker parallel loop "
        "checkpoint after every job); this is validated at every kill point between two checkpoints, where the restart must not re-compute any of them",
        "2-dimensional problems with one output, budgets {6,12}, batch sizes {1,2}; families: local polynomial, global (quick) + wavelet, sequence, Fourier (thorough); parallel mode only with one worker thread (its event history is deterministic; "
        "more workers belong to C18)",
        "sanitizer reports of restarts are not symbolised while exploring (replay prints full reports); the harness re-executes itself with a fixed address-space layout so that "
        "what a restart makes of uninitialised words is reproducible; a single allocation above 64 MB or a resident growth of 32 MB during a restart (whose grids need a few MB at most) "
        "counts as allocation failure / runaway",
        "thorough tier: checkpoints above 4 KiB (grid preloaded with 1537 points, the only way to get a non-empty sample store into a checkpoint) are torn at "
        "{1, n-1, field boundaries -1/0/+1, every 512th byte, every byte of the last 320 bytes} instead of every byte",
    ],
    jobs=[dict(harness="crash_ckpt", variant="asan", args=[], quick=["--tier", "quick"], thorough=["--tier", "thorough"],
               deadline_quick=200, deadline_thorough=1100)],
)
