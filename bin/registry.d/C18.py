CHECKS["C18"] = dict(
    level="model_checking",
    rule="stateless exploration of the real Addons code under a cooperative scheduler that owns pthread_create/join, mutex lock/unlock, condition wait/signal/broadcast (link-time interposition) "
         "plus explicit choice points inside the model callback; every schedule with <= k deviations from the default schedule runs to completion (k = 2 quick, 3 thorough) for 13 scenarios "
         "(workers 1-3, budgets below/above the pool and below the number of workers, batches, tolerance reached early, threaded loadNeededValues); oracle on every execution: termination, "
         "exactly-once, exclusive thread ids, budget, values at their coordinates, nodal surrogate; distinct = distinct (outcome, assignment trace) classes. "
         "Model latencies: 7 further scenarios (2-D local polynomial grid with f = 1 + max(0,-x_0), 2-4 workers; wavelet grids in 1-D and 2-D, 4-6 workers) run in virtual time: a model call on point x is busy for L(x) ticks and the clock only advances when no "
         "thread can run; every latency assignment of the families 'non-initial points take u', 'initial point p takes t_p', 'initial points p, q take 1 and 2 ticks' (p, q over all 13 initial points, "
         "t_p in {1,2,3}, u in {0,1,2,4}), 'the k coarsest initial points take t_k ticks' (k = 1..all, t_k in {1,2}); 680 assignments per local polynomial scenario, 3 wavelet scenarios (1-D and 2-D: fine samples are parked while the coarse ones are slow) with 44-108 assignments each is executed under the default schedule (quick: 2 scenarios; thorough: 4 scenarios) and, in the thorough tier, with every single deviation on top for the first 2 scenarios. "
         "Protocol model: models/surrogate_protocol.pml (Promela; one model step = one scheduling block of the scheduler, labelled thread:operation) is verified by Spin over ALL interleavings "
         "(no deviation bound; deadlock = invalid end state, budget, exactly-once, nobody left running) for 8 (quick) / 13 (thorough) configurations of workers x budget x pool up to 4 workers, and is bound to the code "
         "in both directions: every complete trace of the model is replayed on the real code in follow mode and must produce exactly the model's operations (all 391 + 190 traces of the 2-worker budget-1 "
         "configurations; there the trace sets of code and model are equal), and every execution of the code explored for the binding scenarios (all schedules, or all within 2-3 deviations) "
         "is accepted by the model's trace acceptor; a disagreement between model and code is reported as MODEL-NOT-BOUND (unit incomplete), not as a violation, "
         "and a Spin counterexample is a violation only after the real code followed it and failed",
    assumptions=COMMON_ASSUME + ["threads are serialised (sequential consistency); code between two synchronisation operations runs atomically; plain-memory races are delegated to the free-running ThreadSanitizer pass of the same bodies",
                                 "condition variables wake in FIFO order in the quick tier; the thorough tier also enumerates which waiter notify_one wakes; no spurious wake-ups"],
    jobs=[dict(name="sched", harness="sched_surrogate", variant="asan", quick=["--tier", "quick", "--bound", "2"], thorough=["--tier", "thorough", "--bound", "3"], deadline_quick=240, deadline_thorough=2700),
          dict(name="spin", harness="sched_conform", variant="asan", python="engines/sched/conform.py", quick=["--tier", "quick"], thorough=["--tier", "thorough"], deadline_quick=240, deadline_thorough=1500),
          dict(name="tsan", harness="sched_surrogate", variant="tsan", quick=["--tier", "quick"], thorough=["--tier", "thorough"], deadline_quick=120, deadline_thorough=300)],
)
