CHECKS["C18"] = dict(
    level="model_checking",
    rule="stateless exploration of the real Addons code under a cooperative scheduler that owns pthread_create/join, mutex lock/unlock, condition wait/signal/broadcast (link-time interposition) "
         "plus explicit choice points inside the model callback; every schedule with <= k deviations from the default schedule runs to completion (k = 2 quick, 3 thorough) for 13 scenarios "
         "(workers 1-3, budgets below/above the pool and below the number of workers, batches, tolerance reached early, threaded loadNeededValues); oracle on every execution: termination, "
         "exactly-once, exclusive thread ids, budget, values at their coordinates, nodal surrogate; distinct = distinct (outcome, assignment trace) classes",
    assumptions=COMMON_ASSUME + ["threads are serialised (sequential consistency); code between two synchronisation operations runs atomically; plain-memory races are delegated to the free-running ThreadSanitizer pass of the same bodies",
                                 "condition variables wake in FIFO order in the quick tier; the thorough tier also enumerates which waiter notify_one wakes; no spurious wake-ups"],
    jobs=[dict(name="sched", harness="sched_surrogate", variant="asan", quick=["--tier", "quick", "--bound", "2"], thorough=["--tier", "thorough", "--bound", "3"], deadline_quick=240, deadline_thorough=1500),
          dict(name="tsan", harness="sched_surrogate", variant="tsan", quick=["--tier", "quick"], thorough=["--tier", "thorough"], deadline_quick=120, deadline_thorough=300)],
)
