CHECKS["C19"] = dict(
    level="model_checking",
    rule="environment enumeration (E-E): objective, gradient and projection are logging callbacks and the iteration cap is enumerated exhaustively (every cap 0..N for every set-up of the lattice); "
         "a state = (set-up, number of callback answers consumed) at which GradientDescentState was observed; a transition = one callback answer; every execution is replayed by a reference "
         "model of the documented descent test on the logged values (last accepted point, trial count), results of all caps of a set-up are compared with each other; distinct = digests of (set-up, returned point, step size)",
    assumptions=COMMON_ASSUME + [
        "objective-value oracles (not worse than the start, monotone in the cap) are applied to feasible starting points only; slack = 1e-12 per trial plus rounding of the objective values",
        "the reference uses the tolerance 1e-12 (TasGrid::Maths::num_tol) in the descent test",
    ],
    jobs=[dict(harness="env_gd", variant="asan", args=[], quick=["--tier", "quick"], thorough=["--tier", "thorough"], deadline_quick=300, deadline_thorough=1140)],
)
