CHECKS["C20"] = dict(
    level="model_checking",
    rule="environment enumeration (E-E): get_random01, the domain test and the batched objective are scripted/logging callbacks; a state = (configuration, program prefix, consumed answer prefix) at which "
         "ParticleSwarmState was observed through its getters; a transition = one callback answer; every answer string within the bound x every splitting of the iteration count x every state edit is executed "
         "on the real ParticleSwarm (forked, ASan+UBSan); best positions are judged against the set of logged in-domain visits, a reference model of the bookkeeping and of the classic velocity update is stepped on the logged values, "
         "split calls are compared bitwise with the single call; every one-iteration answer string and every run;edit;run program is executed again through the raw-array overloads of the setters/getters and through the C interface (tsgParticleSwarmState_*, tsgParticleSwarm) and must be the identical execution; distinct = digests of (configuration, final positions, velocities, best positions)",
    assumptions=COMMON_ASSUME + [
        "cached objective values are private: their coherence is judged through the best positions they produce in later calls",
        "a best position is 'visited' if it was a particle position passed to the domain test inside the domain since the bests were last reset by the user, or a user-supplied best that the library evaluated",
        "the velocity formula is only checked for particles that have a personal best while a swarm best exists (the classic algorithm is undefined otherwise)",
        "setBestParticlePositions is only enumerated together with clearCache (without it the cached values are stale by construction)",
    ],
    jobs=[dict(harness="env_pso", variant="asan", args=[], quick=["--tier", "quick"], thorough=["--tier", "thorough"], deadline_quick=300, deadline_thorough=1140)],
)
