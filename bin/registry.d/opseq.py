def _opseq(prop, rule, qdepth=3, tdepth=4, extra_assume=(), qdl=300, tdl=1500):
    return dict(
        level="model_checking", rule=rule,
        assumptions=COMMON_ASSUME + ["states are deduplicated by a digest of the public observation vector plus the binary write() image; "
                                     "merged states have equal observable and serialised state"] + list(extra_assume),
        jobs=[dict(harness="opseq", variant="asan", args=["--prop", prop], quick=["--tier", "quick", "--depth", str(qdepth)],
                   thorough=["--tier", "thorough", "--depth", str(tdepth)], deadline_quick=qdl, deadline_thorough=tdl)])

CHECKS["C01"] = _opseq("C01", "BFS over histories of {load, refine*, update, merge, clear, setcoef, begin, deliver, finish} from every configuration of the lattice; "
                       "in every state evaluate/evaluateBatch/evaluateFast at every loaded point are compared with the reference map of supplied values "
                       "(local polynomial grids only when the reference hierarchy says every loaded point has all parents); the macro transition 'round' (refine + load) reaches multi-round adaptive histories; lattice: every family in 1-D, 2-D and 3-D, 1-2 outputs, local orders -1..4, a 12 033-point wavelet grid", qdepth=4, tdepth=5)
CHECKS["C04"] = _opseq("C04", "BFS over histories incl. pending refinement, merge, partial construction, coefficient overwrite; in every state all documented routes "
                       "(evaluate, weights.values, coefficients.basis, batch rows, sparse vs dense, support radius, integrate routes, differentiate routes) are compared; plus, for 3-D local polynomial configurations, "
                       "every pair of user-chosen samples of the depth-3 grid delivered as one batch to a depth-1 grid under construction (2346 pairs per configuration); sparse vs dense matrices and the GetNZ count for batches of 32, 64 and 33 points; "
                       "weight buffers handed in by the caller are overwritten completely; swap experiment (affine values, k zero-coefficient leaves removed, k new nodes delivered one at a time: anything cached per grid and validated by a count is stale)", qdepth=3, tdepth=4)
CHECKS["C07"] = _opseq("C07", "BFS over interleavings of refinement (all strategies, tolerances, outputs, scale corrections through both overloads), update, load/reload, merge, clear; "
                       "invariants (duplicate-free, disjoint, value attachment by coordinate) in every state, step relations on every transition, reference selection of the classic criterion for local polynomial and wavelet grids (coordinate-based reference hierarchies) incl. level limits and tolerance 0; depth-1 grids in 2-D driven by rounds that refine exactly one loaded point (every choice of the point in every round)", qdepth=4, tdepth=5)
CHECKS["C08"] = _opseq("C08", "BFS over histories that introduce, keep, replace and clear level limits through make, update, every refinement entry point and candidate requests; "
                       "every loaded/needed/candidate point is checked against the 1-D level limit; -1 entries are compared with a large limit; every call runs under a watchdog; grids that fill the whole box of their limits; a refinement call is bound by the loaded and delivered points only (it replaces a pending refinement); candidates of the tensor-based constructions are bounded by max(limit, highest completely loaded level) even under tightened limits (partly delivered tensors: macro transition begin + partial delivery)",
                       extra_assume=["a limit vector is only trusted when it dominates the levels already present (DESIGN C08 scope decision)"])
CHECKS["C06"] = _opseq("C06", "BFS over histories (incl. empty-values grids, zero outputs, pending refinement, active construction with parked samples, merge, setcoef, update without growth); "
                       "in every state: write/read through stream and file, binary and ASCII, observation and bytes compared; bisimulation: every alphabet op applied to the original and to the restored grid; the observation includes the basis functions at probes; lattice incl. zero-output grids of every table layout, custom-tabulated rule objects with ordinary / empty / blank-led descriptions, unbounded rules with b <= a, 3-D grids",
                       qdepth=2, tdepth=3)
CHECKS["C11"] = _opseq("C11", "BFS over histories; in every state: copy constructor, assignment, copyGrid (both overloads), self-assignment, every output sub-range incl. the documented out-of-range end; "
                       "every alphabet op applied to copy and source in turn: the other side (observation and binary image) must not change and both must end equal; copies onto used destinations; range copies followed by loading the needed values; range copies under construction (deliveries, candidate sets)",
                       qdepth=2, tdepth=3)
