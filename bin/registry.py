"""Registry of checks: property id -> jobs (harness, variant, arguments per tier) + evidence meta-data."""

COMMON_ASSUME = [
    "small-scope hypothesis: values outside the enumerated alphabets/lattice are not covered",
    "library compiled from /repo's working tree with g++ -O1 -fsanitize=address,undefined (no OpenMP/BLAS/GPU)",
]

CHECKS = {}


import glob, os
_here = os.path.dirname(os.path.abspath(__file__))
for _f in sorted(glob.glob(os.path.join(_here, "registry.d", "*.py"))):
    exec(compile(open(_f).read(), _f, "exec"), {"CHECKS": CHECKS, "COMMON_ASSUME": COMMON_ASSUME})
