// scan_deriv - C05: differentiate() returns the gradient of the surrogate.   E-A at depth 0/1(/2):
//   state      = (configuration, history); configurations: 5 families x rules x orders x dims x depth x type x weights x alpha/beta x
//                {canonical, linear domain transform}; histories: make load(member of the reproduced space) | make load(generic smooth)
//                | ... refine(surplus / anisotropic / update) load | ... reload(member) | (thorough) a second refinement round
//   transitions = load / refine / update / reload, applied to the real objects (transformed grid and its canonical twin in lock-step)
//   oracle in every state, at 4 interior probes kept away from all kinks of piecewise rules:
//     (1) differentiate(x) == getDifferentiationWeights(x) . values           (layout documented in TasmanianSparseGrid.hpp)
//     (2) differentiate(x) == 4th-order central differences of evaluate()      (h = 1e-5 in canonical units)
//     (3) differentiate(x) == analytic gradient, when a member of the reproduced space of C03 is loaded
//     (4) chain rule: gradient of the transformed grid == gradient of the canonical twin at the pulled-back point x documented Jacobian
//   All expected values come from this file / scan_deriv.hpp (own maps, own Jacobians, own model functions).
#include "scan_deriv.hpp"
using namespace sd;

static std::string g_tier = "quick";
static const int MAXDEG = 40;
static const char *HIST_ALL = "make; load(member); | make; load(generic); refine; load; reload(member); [refine; load]";

// ---------------------------------------------------------------- loaded functions (canonical variable t), with analytic gradients for members
struct Fn {
    bool member = false; int fam = 0; int d = 1; int gkind = 0;
    std::vector<std::vector<int>> ex; std::vector<double> co; std::vector<double> sig; // polynomial / trigonometric members
    std::string name;
    static double ipow(double x, int k){ double r = 1.0; for(int i=0;i<k;i++) r *= x; return r; }
    double val(const double *t, int k) const{
        if (!member) return model(gkind, t, d, k);
        if (fam == F_LOCALP || fam == F_WAVELET) return model(1, t, d, k);
        if (fam == F_FOURIER){
            double s = 0; size_t lo = (k == 0) ? 0 : ex.size() - 1, hi = (k == 0) ? ex.size() : ex.size();
            for(size_t p=lo;p<hi;p++){ double ph = 0; for(int j=0;j<d;j++) ph += 2.0 * M_PI * ex[p][j] * t[j]; s += co[p] * std::cos(ph) + (0.5 - co[p]) * std::sin(ph); }
            return s;
        }
        double s = 0; size_t lo = (k == 0) ? 0 : ex.size() - 1;
        for(size_t p=lo;p<ex.size();p++){ double m = co[p]; for(int j=0;j<d;j++) m *= ipow(t[j] / sig[j], ex[p][j]); s += m; }
        return s;
    }
    double grad(const double *t, int k, int j) const{ // d/dt_j, members only
        if (fam == F_LOCALP || fam == F_WAVELET) return (0.7 + 0.3 * j + 0.1 * k);
        if (fam == F_FOURIER){
            double s = 0; size_t lo = (k == 0) ? 0 : ex.size() - 1;
            for(size_t p=lo;p<ex.size();p++){ double ph = 0; for(int q=0;q<d;q++) ph += 2.0 * M_PI * ex[p][q] * t[q]; double w = 2.0 * M_PI * ex[p][j]; s += w * (-co[p] * std::sin(ph) + (0.5 - co[p]) * std::cos(ph)); }
            return s;
        }
        double s = 0; size_t lo = (k == 0) ? 0 : ex.size() - 1;
        for(size_t p=lo;p<ex.size();p++){
            if (ex[p][j] == 0) continue;
            double m = co[p] * ex[p][j] / sig[j];
            for(int q=0;q<d;q++) m *= ipow(t[q] / sig[q], ex[p][q] - (q == j ? 1 : 0));
            s += m;
        }
        return s;
    }
};

// member of the reproduced space of C03 for the *current* point set of the canonical grid g (no transform)
static bool build_member(const Cfg &cfg, const TasmanianSparseGrid &g, Fn &f){
    int d = cfg.dims; f = Fn(); f.member = true; f.fam = cfg.fam; f.d = d;
    if (cfg.fam == F_LOCALP || cfg.fam == F_WAVELET){
        // affine functions: wavelets; local polynomials of order != 0 with boundary-including rules and depth >= 1
        if (cfg.fam == F_LOCALP && (g.getOrder() == 0 || cfg.rule == rule_localp0 || cfg.depth < 1)) return false;
        f.name = "affine"; return true;
    }
    if (cfg.fam == F_FOURIER){
        const int *idx = g.getPointsIndexes(); int n = g.getNumPoints();
        std::vector<std::vector<int>> all; for(int p=0;p<n;p++){ std::vector<int> e(d); for(int j=0;j<d;j++){ int ip = idx[p*d+j]; e[j] = (ip % 2 == 0) ? ip / 2 : -(ip + 1) / 2; } all.push_back(e); }
        size_t cap = 16; if (all.size() <= cap) f.ex = all; else for(size_t i=0;i<cap;i++) f.ex.push_back(all[i * (all.size() - 1) / (cap - 1)]);
        for(size_t p=0;p<f.ex.size();p++) f.co.push_back(0.15 + 0.1 * (double)(p % 5));
        f.name = "trig"; return true;
    }
    if (cfg.rule == rule_clenshawcurtis0) return false; // declared space is a zero-boundary space whose top degree is the subject of C03/F15: not used as an oracle here
    auto is = g.getGlobalPolynomialSpace(true); std::vector<std::vector<int>> all;
    for(size_t s=0;s<is.size()/d;s++){ std::vector<int> e(is.begin()+s*d, is.begin()+(s+1)*d); if (*std::max_element(e.begin(), e.end()) > MAXDEG) continue; all.push_back(e); }
    if (all.empty()) return false;
    // order by total degree so that the last one is a top-degree member
    std::stable_sort(all.begin(), all.end(), [](const std::vector<int> &a, const std::vector<int> &b){ int sa = 0, sb = 0; for(int v : a) sa += v; for(int v : b) sb += v; return sa < sb; });
    size_t cap = 24; if (all.size() <= cap) f.ex = all; else for(size_t i=0;i<cap;i++) f.ex.push_back(all[i * (all.size() - 1) / (cap - 1)]);
    for(size_t p=0;p<f.ex.size();p++) f.co.push_back(((p % 3) == 1 ? -1.0 : 1.0) * (0.4 + 0.2 * (double)(p % 4)));
    // scale of the canonical variable (unbounded rules have nodes far from the origin)
    f.sig.assign(d, 1.0); auto x = g.getPoints(); for(size_t i=0;i<x.size();i++) f.sig[i % d] = std::max(f.sig[i % d], std::abs(x[i]));
    f.name = "poly"; return true;
}

static std::vector<double> fn_values(const Fn &f, const std::vector<double> &t, int d, int outs){
    size_t n = t.size() / d; std::vector<double> v(n * outs);
    for(size_t i=0;i<n;i++) for(int k=0;k<outs;k++) v[i*outs+k] = f.val(&t[i*d], k);
    return v;
}

// ---------------------------------------------------------------- the oracles in one state
static void check_state(Ctx &c, const Cfg &cfg, const TasmanianSparseGrid &gt, const TasmanianSparseGrid *gc, const Fn &fn, const std::string &hist){
    int d = gt.getNumDimensions(), outs = gt.getNumOutputs(), n = gt.getNumLoaded(); if (n == 0 || outs == 0) return;
    c.states++; c.execs++; add_distinct(c, gt, cfg);
    bool tr = !cfg.ta.empty(); std::string tag = rtag(gt); std::string fam = famname(cfg.fam);
    const double *v = gt.getLoadedValues();
    bool pwc = gt.isLocalPolynomial() && gt.getOrder() == 0;
    bool wav = gt.isWavelet();
    double tolW = wav ? 1e-6 : 1e-9, tolA = wav ? 1e-6 : 1e-9, tolC = wav ? 1e-8 : 1e-9;
    std::vector<LinMap> M; for(int j=0;j<d;j++) M.push_back(linmap(cfg, j));
    auto P = canonical_probes(cfg, pwc);
    bool f1 = false, f2 = false, f3 = false, f4 = false; // one record per oracle and state
    for(size_t pi=0; pi<P.size(); pi++){
        const std::vector<double> &t = P[pi]; std::vector<double> x(d); for(int j=0;j<d;j++) x[j] = M[j].fwd(t[j]);
        std::vector<double> D; gt.differentiate(x, D);
        auto iw = gt.getInterpolationWeights(x); auto dw = gt.getDifferentiationWeights(x);
        if ((int) D.size() != outs * d || (int) dw.size() != n * d){ report(c, "C05:sizes:" + tag, cfg, hist, "differentiate()/getDifferentiationWeights() returned vectors of size " + std::to_string(D.size()) + "/" + std::to_string(dw.size())); return; }
        std::vector<double> S(outs, 0.0); for(int k=0;k<outs;k++) for(int i=0;i<n;i++) S[k] += std::abs(iw[i] * v[(size_t) i*outs+k]);
        for(int k=0;k<outs;k++) for(int j=0;j<d;j++){
            double L = M[j].dxdt(); double Dt = D[k*d+j] * L; // derivative with respect to the canonical variable
            // (1) weights . values
            double sw = 0, sa = 0; for(int i=0;i<n;i++){ double p = dw[(size_t) i*d+j] * v[(size_t) i*outs+k]; sw += p; sa += std::abs(p); }
            c.evals++; c.outcomes["diff-weights:" + fam]++;
            if (!(std::abs(D[k*d+j] - sw) <= tolW * std::max(1.0 / L, sa)) && !f1){ f1 = true; std::ostringstream o; o.precision(15); o << "output " << k << " direction " << j << " at probe " << pi << ": differentiate = " << D[k*d+j] << ", weights.values = " << sw << " (sum |w v| = " << sa << ", " << n << " points)"; report(c, "C05:diff-weights:" + tag, cfg, hist, o.str()); }
            double Sd = sa * L;
            // (2) finite differences of evaluate() in the canonical variable
            {
                double h = 1e-5; double fv[4]; const double off[4] = {-2, -1, 1, 2};
                for(int q=0;q<4;q++){ std::vector<double> xx = x; xx[j] = M[j].fwd(t[j] + off[q] * h); std::vector<double> y; gt.evaluate(xx, y); fv[q] = y[k]; }
                double fd = (fv[0] - 8.0 * fv[1] + 8.0 * fv[2] - fv[3]) / (12.0 * h);
                c.evals++; c.outcomes["gradient-vs-fd:" + fam]++;
                if (!(std::abs(Dt - fd) <= 1e-6 * std::max(1.0, std::max(S[k], std::max(std::abs(fd), Sd * 1e-3)))) && !f2){ f2 = true; std::ostringstream o; o.precision(15); o << "output " << k << " direction " << j << " at probe " << pi << " (canonical " << t[j] << "): differentiate x dx/dt = " << Dt << ", central differences of evaluate() = " << fd << " (conditioning " << S[k] << ", loaded: " << (fn.member ? fn.name : "generic") << ")"; report(c, "C05:gradient-vs-fd:" + tag, cfg, hist, o.str()); }
            }
            // (3) analytic gradient of a member of the reproduced space
            if (fn.member){
                double ex = fn.grad(t.data(), k, j); c.evals++; c.outcomes["gradient-analytic:" + fam]++;
                if (!(std::abs(Dt - ex) <= tolA * std::max(1.0, std::max(Sd, std::abs(ex)))) && !f3){ f3 = true; std::ostringstream o; o.precision(15); o << "member '" << fn.name << "' of the reproduced space, output " << k << " direction " << j << " at probe " << pi << ": differentiate x dx/dt = " << Dt << ", analytic = " << ex << " (conditioning " << Sd << ")"; report(c, "C05:gradient-analytic:" + tag, cfg, hist, o.str()); }
            }
        }
        // (4) chain rule against the canonical twin
        if (tr && gc){
            std::vector<double> Dc; gc->differentiate(t, Dc); auto dwc = gc->getDifferentiationWeights(t);
            for(int k=0;k<outs;k++) for(int j=0;j<d;j++){
                double J = M[j].dtdx(); double ex = Dc[k*d+j] * J; double sa = 0; for(int i=0;i<n;i++) sa += std::abs(dwc[(size_t) i*d+j] * v[(size_t) i*outs+k]) * J;
                c.evals++; c.outcomes["chain-rule:" + fam]++;
                if (!(std::abs(D[k*d+j] - ex) <= tolC * std::max(J, sa)) && !f4){ f4 = true; std::ostringstream o; o.precision(15); o << "output " << k << " direction " << j << " at probe " << pi << ": transformed gradient " << D[k*d+j] << ", canonical gradient " << Dc[k*d+j] << " x documented Jacobian " << J << " = " << ex; report(c, "C05:chain-rule:" + tag, cfg, hist, o.str()); }
            }
        }
    }
}

// ---------------------------------------------------------------- transitions
// one refinement step applied to a grid with loaded values; returns a short name ("" = not applicable / nothing selected)
static std::string refine(TasmanianSparseGrid &g, const Cfg &cfg, int round){
    int n = g.getNumLoaded(), outs = g.getNumOutputs();
    auto median_tol = [&]()->double{
        const double *cf = g.getHierarchicalCoefficients(); const double *v = g.getLoadedValues(); std::vector<double> a; double vm = 0;
        for(int i=0;i<n;i++){ a.push_back(std::abs(cf[(size_t) i*outs])); vm = std::max(vm, std::abs(v[(size_t) i*outs])); }
        std::sort(a.begin(), a.end()); return (vm > 0) ? a[a.size()/2] / vm : 0.0; };
    if (cfg.fam == F_LOCALP || cfg.fam == F_WAVELET){
        static const TypeRefinement crit[4] = {refine_classic, refine_fds, refine_parents_first, refine_stable};
        TypeRefinement cr = crit[(cfg.depth + cfg.dims + 2 * round) % 4];
        g.setSurplusRefinement(median_tol(), cr, 0);
        if (g.getNumNeeded() == 0) g.setSurplusRefinement(0.0, cr, 0);
        return g.getNumNeeded() ? "refine_surplus(" + refname(cr) + ")" : "";
    }
    if (cfg.fam == F_SEQUENCE || (cfg.fam == F_GLOBAL && OneDimensionalMeta::isSequence(cfg.rule) && (cfg.depth + round) % 2 == 0)){
        g.setSurplusRefinement(cfg.fam == F_SEQUENCE ? median_tol() : 1e-3, 0);
        if (g.getNumNeeded() == 0) g.setSurplusRefinement(0.0, 0);
        return g.getNumNeeded() ? "refine_surplus" : "";
    }
    if (cfg.fam == F_FOURIER || (cfg.fam == F_GLOBAL && !OneDimensionalMeta::isNonNested(cfg.rule))){
        g.setAnisotropicRefinement((cfg.depth % 2) ? type_iptotal : type_ipcurved, 1 + round, 0);
        return g.getNumNeeded() ? "refine_aniso" : "";
    }
    g.updateGrid(cfg.depth + 1 + round, cfg.type, cfg.aw);
    return g.getNumNeeded() ? "update(depth+1)" : "";
}

// one very deep 1-D Fourier grid (3^10 points): only the O(N) routes - the differentiation weights applied to low trigonometric modes against the analytic derivative,
// and differentiate() against weights . values; tolerance 1e-5 relative to the size of the derivative (the guarded defects were of size 1e-3 and larger)
static void explore_deep_fourier(Ctx &c, const Cfg &cfg){
    TasmanianSparseGrid g; make(g, cfg); c.states++; int n = g.getNumPoints(); auto pts = g.getPoints();
    std::vector<double> v((size_t) n); for(int i=0;i<n;i++) v[(size_t) i] = std::sin(2.0 * M_PI * pts[(size_t) i]) + 0.3 * std::cos(6.0 * M_PI * pts[(size_t) i]);
    g.loadNeededValues(v); c.transitions++;
    for(double x : {0.3137, 0.50123, pts[(size_t) n - 1] + 0.4 / n}){
        std::vector<double> xv = {x}, jac; g.differentiate(xv, jac); auto w = g.getDifferentiationWeights(xv); double s = 0, sa = 0; for(int i=0;i<n;i++){ s += w[(size_t) i] * v[(size_t) i]; sa += std::abs(w[(size_t) i] * v[(size_t) i]); } c.evals += 2;
        double ex = 2.0 * M_PI * std::cos(2.0 * M_PI * x) - 0.3 * 6.0 * M_PI * std::sin(6.0 * M_PI * x);
        if (!(std::abs(s - jac[0]) <= 1e-5 * std::max(20.0, std::abs(ex)))){ std::ostringstream o; o.precision(14); o << "1-D Fourier grid with " << n << " points at x = " << x << ": differentiate() = " << jac[0] << ", differentiation weights . values = " << s << " (analytic " << ex << ")"; report(c, "C05:deep:diff-weights:fourier", cfg, "make load", o.str()); return; }
        if (!(std::abs(jac[0] - ex) <= 1e-5 * std::max(20.0, std::abs(ex)))){ std::ostringstream o; o.precision(14); o << "1-D Fourier grid with " << n << " points at x = " << x << ": differentiate() = " << jac[0] << ", analytic derivative of the loaded trigonometric polynomial " << ex; report(c, "C05:deep:gradient-analytic:fourier", cfg, "make load", o.str()); return; }
        (void) sa;
    }
}
static void explore_cfg(Ctx &c, const Cfg &cfg){
    if (cfg.fam == F_FOURIER && cfg.dims == 1 && cfg.depth >= 9){ explore_deep_fourier(c, cfg); return; }
    bool tr = !cfg.ta.empty(); bool th = (g_tier == "thorough"); int d = cfg.dims, outs = cfg.outs;
    Cfg cc = cfg; cc.ta.clear(); cc.tb.clear();
    std::string hist = "make";
    try{
        // history A: load a member of the reproduced space
        {
            TasmanianSparseGrid gt, gc; make(gt, cfg); if (tr) make(gc, cc);
            if (gt.getNumPoints() > 1500){ c.skipped++; return; }
            TasmanianSparseGrid &g0 = tr ? gc : gt; Fn fm;
            if (build_member(cfg, g0, fm)){
                auto vals = fn_values(fm, g0.getNeededPoints(), d, outs);
                gt.loadNeededValues(vals); if (tr) gc.loadNeededValues(vals); c.transitions++;
                hist = "make load(member:" + fm.name + ")"; check_state(c, cfg, gt, tr ? &gc : nullptr, fm, hist);
            }else c.skipped++;
        }
        // history B: generic smooth function, refinement rounds, reload with a member on the adapted grid
        {
            TasmanianSparseGrid gt, gc; make(gt, cfg); if (tr) make(gc, cc);
            TasmanianSparseGrid &g0 = tr ? gc : gt; Fn fg; fg.d = d; fg.gkind = (cfg.fam == F_FOURIER) ? 4 : ((cfg.fam == F_LOCALP && cfg.depth >= 8) ? 6 : 0); fg.fam = cfg.fam; // deep local grids get a non-smooth function
            auto vals = fn_values(fg, g0.getNeededPoints(), d, outs);
            gt.loadNeededValues(vals); if (tr) gc.loadNeededValues(vals); c.transitions++;
            hist = "make load(generic)"; check_state(c, cfg, gt, tr ? &gc : nullptr, fg, hist);
            int rounds = th ? 2 : 1; if (gt.getNumPoints() > 400) rounds = std::min(rounds, 1);
            for(int r=0; r<rounds; r++){
                std::string op = refine(gt, cfg, r); if (tr){ std::string op2 = refine(gc, cfg, r); if (op2 != op || gc.getNumNeeded() != gt.getNumNeeded()){ report(c, "C05:twin-diverges:" + rtag(cfg), cfg, hist + " " + op, "the same refinement selects " + std::to_string(gt.getNumNeeded()) + " points on the transformed grid and " + std::to_string(gc.getNumNeeded()) + " on the canonical grid"); return; } }
                if (op.empty()){ c.skipped++; break; }
                if (gt.getNumNeeded() > 1500){ c.skipped++; break; }
                c.transitions++;
                auto v2 = fn_values(fg, g0.getNeededPoints(), d, outs);
                gt.loadNeededValues(v2); if (tr) gc.loadNeededValues(v2); c.transitions++;
                hist += " " + op + " load(generic)"; check_state(c, cfg, gt, tr ? &gc : nullptr, fg, hist);
                // overwrite all values by a member of the space reproduced by the adapted grid
                Fn fm;
                if (build_member(cfg, g0, fm)){
                    auto tl = g0.getLoadedPoints();
                    auto v3 = fn_values(fm, tl, d, outs);
                    gt.loadNeededValues(v3); if (tr) gc.loadNeededValues(v3); c.transitions++;
                    check_state(c, cfg, gt, tr ? &gc : nullptr, fm, hist + " reload(member:" + fm.name + ")");
                    if (r + 1 < rounds){ auto v4 = fn_values(fg, tl, d, outs); gt.loadNeededValues(v4); if (tr) gc.loadNeededValues(v4); c.transitions++; hist += " reload(member) reload(generic)"; }
                }
            }
        }
    }catch(std::exception &e){ report(c, "C05:throws:" + rtag(cfg), cfg, hist, std::string("exception after '") + hist + "': " + e.what()); c.outcomes[std::string("throws:") + famname(cfg.fam)]++; }
}

// ---------------------------------------------------------------- lattice
static bool usesAlpha(TypeOneDRule r){ return r == rule_gaussgegenbauer || r == rule_gaussgegenbauerodd || r == rule_gaussjacobi || r == rule_gaussjacobiodd || r == rule_gausslaguerre || r == rule_gausslaguerreodd || r == rule_gausshermite || r == rule_gausshermiteodd; }
static bool usesBeta(TypeOneDRule r){ return r == rule_gaussjacobi || r == rule_gaussjacobiodd; }
static std::string repo_root(){ const char *r = getenv("VERIF_REPO"); return r ? r : "/repo"; }

static std::vector<TypeOneDRule> global_rules(){
    if (g_tier == "thorough") return {rule_clenshawcurtis, rule_clenshawcurtis0, rule_fejer2, rule_chebyshev, rule_chebyshevodd, rule_leja, rule_lejaodd, rule_rleja, rule_rlejadouble2, rule_rlejadouble4,
        rule_rlejaodd, rule_rlejashifted, rule_rlejashiftedeven, rule_rlejashifteddouble, rule_maxlebesgue, rule_maxlebesgueodd, rule_minlebesgue, rule_minlebesgueodd, rule_mindelta, rule_mindeltaodd,
        rule_gausslegendre, rule_gausslegendreodd, rule_gausspatterson, rule_gausschebyshev1, rule_gausschebyshev1odd, rule_gausschebyshev2, rule_gausschebyshev2odd, rule_gaussgegenbauer, rule_gaussgegenbauerodd,
        rule_gaussjacobi, rule_gaussjacobiodd, rule_gausslaguerre, rule_gausslaguerreodd, rule_gausshermite, rule_gausshermiteodd, rule_customtabulated};
    return {rule_clenshawcurtis, rule_clenshawcurtis0, rule_fejer2, rule_chebyshev, rule_leja, rule_rleja, rule_rlejashifted, rule_rlejadouble2, rule_minlebesgue, rule_gausslegendre, rule_gausslegendreodd, rule_gausspatterson,
        rule_gausschebyshev1, rule_gausschebyshev2odd, rule_gaussgegenbauer, rule_gaussjacobi, rule_gausslaguerre, rule_gausshermite, rule_gausshermiteodd};
}

struct U0 { int fam; TypeOneDRule rule; int dims; int order; };
static std::vector<Cfg> unit_cfgs(const U0 &u){
    std::vector<Cfg> out; bool th = (g_tier == "thorough"); int d = u.dims;
    const double ta[3] = {-0.7, 0.4, 1.0}, tb[3] = {2.1, 3.0, 1.5}, tbu[3] = {2.0, 0.5, 1.25};
    auto settr = [&](Cfg &c){ c.ta.assign(ta, ta + d); c.tb.assign(tb, tb + d); if (domkind(u.rule) == K_LAGUERRE || domkind(u.rule) == K_HERMITE) c.tb.assign(tbu, tbu + d); };
    if (u.fam == F_LOCALP || u.fam == F_WAVELET){
        int maxdepth = (d == 1) ? (th ? 6 : 5) : (d == 2 ? (th ? 4 : 3) : (th ? 3 : 2)); if (u.fam == F_WAVELET) maxdepth = (d == 1) ? 4 : (d == 2 ? (th ? 3 : 2) : 1);
        std::vector<std::vector<int>> LIM = {{}}; if (d >= 2 && th){ std::vector<int> l(d, 3); l[0] = 1; LIM.push_back(l); }
        for(int depth=0; depth<=maxdepth; depth++) for(auto &lim : LIM) for(int tr=0; tr<2; tr++){
            Cfg c; c.fam = u.fam; c.rule = u.rule; c.dims = d; c.outs = 2; c.depth = depth; c.order = u.order; c.limits = lim; if (tr) settr(c); out.push_back(c); }
        // deep 1-D grids: the generic derivative (order -1 and orders > 3) multiplies over ALL ancestors, which only shows on many levels
        if (u.fam == F_LOCALP && d == 1 && (u.order == -1 || u.order > 3)) for(int depth : (th ? std::vector<int>{9, 10, 11, 12} : std::vector<int>{10, 11})){
            Cfg c; c.fam = u.fam; c.rule = u.rule; c.dims = 1; c.outs = 1; c.depth = depth; c.order = u.order; out.push_back(c); }
        return out;
    }
    std::vector<std::vector<double>> AB = {{0, 0}};
    if (usesAlpha(u.rule)){ AB = {{0.5, 1.5}}; if (th){ AB.push_back({0, 0}); AB.push_back({1.5, -0.5}); } }
    if (!usesBeta(u.rule)) for(auto &ab : AB) ab[1] = 0;
    std::vector<TypeDepth> types = th ? std::vector<TypeDepth>{type_level, type_curved, type_iptotal, type_qptotal, type_iphyperbolic, type_tensor} : std::vector<TypeDepth>{type_level, type_iptotal};
    std::vector<std::vector<int>> W1, Wc;
    if (d == 1){ W1 = {{}}; Wc = {{2, 1}}; } else if (d == 2){ W1 = {{}, {1, 2}}; Wc = {{1, 2, 1, 0}}; } else { W1 = {{}, {1, 2, 3}}; Wc = {{1, 2, 3, 1, 0, 1}}; }
    int maxdepth = (d == 1) ? (th ? 6 : 5) : (d == 2 ? (th ? 4 : 3) : 2);
    if (u.rule == rule_customtabulated) maxdepth = std::min(maxdepth, (d == 1) ? 5 : 3);
    if (u.fam == F_FOURIER) maxdepth = (d == 1) ? 4 : (d == 2 ? 3 : 2);
    // one very deep 1-D Fourier grid (59049 points): integer and phase-table arithmetic of the weights that is harmless on small grids
    if (u.fam == F_FOURIER && d == 1) for(int depth : (th ? std::vector<int>{9, 10} : std::vector<int>{10})){ Cfg c; c.fam = u.fam; c.rule = u.rule; c.dims = 1; c.outs = 1; c.depth = depth; c.type = type_level; out.push_back(c); }
    for(auto type : types){
        const std::vector<std::vector<int>> &W = OneDimensionalMeta::isTypeCurved(type) ? Wc : W1;
        for(int depth=0; depth<=maxdepth; depth++) for(auto &aw : W) for(int tr=0; tr<2; tr++) for(auto &ab : AB){
            Cfg c; c.fam = u.fam; c.rule = u.rule; c.dims = d; c.outs = 2; c.depth = depth; c.type = type; c.aw = aw; c.alpha = ab[0]; c.beta = ab[1];
            if (u.rule == rule_customtabulated) c.custom = repo_root() + "/SparseGrids/GaussPattersonRule.table";
            if (tr) settr(c); out.push_back(c);
        }
    }
    return out;
}
static std::vector<UnitDef> units(){
    std::vector<U0> u; bool th = (g_tier == "thorough"); int maxd = th ? 3 : 2;
    for(auto r : global_rules()) for(int d=1; d<=maxd; d++) u.push_back({F_GLOBAL, r, d, 0});
    for(auto r : {rule_leja, rule_rleja, rule_rlejashifted, rule_maxlebesgue, rule_minlebesgue, rule_mindelta}) for(int d=1; d<=maxd; d++) u.push_back({F_SEQUENCE, r, d, 0});
    for(int d=1; d<=maxd; d++) u.push_back({F_FOURIER, rule_fourier, d, 0});
    for(auto r : {rule_localp, rule_semilocalp, rule_localp0, rule_localpb}) for(int order : {-1, 0, 1, 2, 3, 4, 5, 12}) for(int d=1; d<=maxd; d++){ if (order == 12 && d > 1) continue; u.push_back({F_LOCALP, r, d, order}); }
    for(int order : {1, 3}) for(int d=1; d<=maxd; d++) u.push_back({F_WAVELET, rule_wavelet, d, order});
    if (!th){ // a 3-D slice in the quick tier (the Kronecker / DAG surplus paths of local grids switch at 3 dimensions)
        u.push_back({F_GLOBAL, rule_clenshawcurtis, 3, 0}); u.push_back({F_GLOBAL, rule_gausslegendre, 3, 0}); u.push_back({F_SEQUENCE, rule_rleja, 3, 0}); u.push_back({F_FOURIER, rule_fourier, 3, 0});
        for(int order : {-1, 1, 2, 3, 4}) u.push_back({F_LOCALP, rule_localp, 3, order});
        u.push_back({F_LOCALP, rule_semilocalp, 3, 2}); u.push_back({F_LOCALP, rule_localp0, 3, 3}); u.push_back({F_LOCALP, rule_localpb, 3, 5}); u.push_back({F_WAVELET, rule_wavelet, 3, 1});
    }
    std::vector<UnitDef> out;
    for(auto &x : u){ UnitDef ud; std::ostringstream nm; nm << famname(x.fam) << "/" << IO::getRuleString(x.rule) << "/d" << x.dims; if (x.fam == F_LOCALP || x.fam == F_WAVELET) nm << "/order" << x.order; ud.name = nm.str(); ud.cfgs = unit_cfgs(x); out.push_back(ud); }
    // longest units first
    std::stable_sort(out.begin(), out.end(), [](const UnitDef &a, const UnitDef &b){ auto w = [](const UnitDef &q){ return (double) q.cfgs.size() * (q.cfgs.empty() ? 1 : q.cfgs[0].dims * q.cfgs[0].dims) * ((!q.cfgs.empty() && q.cfgs[0].fam == F_WAVELET) ? 6 : 1); }; return w(a) > w(b); });
    return out;
}

int main(int argc, char **argv){
    vf::Args A(argc, argv);
    g_tier = A.get("--tier", "quick");
    double dl = A.getd("--deadline", 0); if (dl > 0) vf::g_deadline = vf::now() + dl;
    if (A.has("--replay")) return run_replay("C05", A.get("--replay"), HIST_ALL, explore_cfg, 360.0);
    auto U = units();
    if (A.has("--list")){ size_t n = 0; for(auto &u : U){ printf("%s %zu\n", u.name.c_str(), u.cfgs.size()); n += u.cfgs.size(); } printf("total %zu\n", n); return 0; }
    std::string bound = std::string("C05 lattice tier=") + g_tier + ": 5 families, local orders -1..5, wavelet orders 1,3, dims <= " + (g_tier == "thorough" ? "3" : "2 (+ a 3-D slice)") +
        ", 2 outputs, {canonical, linear transform}; histories load(member) | load(generic) + " + (g_tier == "thorough" ? "2" : "1") + " refinement round(s) + reload(member); 4 interior probes per state";
    run_all("C05", U, (int) A.geti("--workers", 8), bound, HIST_ALL, explore_cfg, 90.0); // CPU seconds per configuration (the slowest one, the 59049-point Fourier grid, needs ~19)
    return 0;
}
