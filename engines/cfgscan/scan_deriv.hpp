// scan_deriv.hpp - code shared by scan_deriv (C05) and scan_transform (C10):
//   * independent implementation of the documented domain maps (linear maps per canonical-domain class, truncated asin series)
//   * probe points kept away from the kinks of piecewise rules
//   * the unit runner (chunked forked children, one progress line per configuration, crash attribution, replay by cfg string)
// Nothing here calls a library routine to compute an expected value.
#ifndef SCAN_DERIV_HPP
#define SCAN_DERIV_HPP
#include "tgrid.hpp"
#include <functional>
namespace sd {
using namespace tg;

// ---------------------------------------------------------------- canonical-domain classes and the documented linear maps
enum DomKind { K_STD = 0, K_FOURIER, K_LAGUERRE, K_HERMITE };
inline DomKind domkind(TypeOneDRule r){
    if (r == rule_fourier) return K_FOURIER;
    if (r == rule_gausslaguerre || r == rule_gausslaguerreodd) return K_LAGUERRE;
    if (r == rule_gausshermite || r == rule_gausshermiteodd) return K_HERMITE;
    return K_STD;
}
// x = fwd(t): canonical -> transformed (documentation of TypeOneDRule / setDomainTransform):
//   [-1,1] rules: x = (b-a)/2 t + (b+a)/2 ; Fourier [0,1]: x = a + (b-a) t ; Laguerre: x = a + t/b ; Hermite: x = a + t/sqrt(b)
struct LinMap {
    DomKind k = K_STD; bool set = false; double a = 0, b = 0;
    double fwd(double t) const{ if (!set) return t; switch(k){ case K_FOURIER: return a + (b - a) * t; case K_LAGUERRE: return a + t / b; case K_HERMITE: return a + t / std::sqrt(b); default: return 0.5 * (b - a) * t + 0.5 * (b + a); } }
    double inv(double x) const{ if (!set) return x; switch(k){ case K_FOURIER: return (x - a) / (b - a); case K_LAGUERRE: return (x - a) * b; case K_HERMITE: return (x - a) * std::sqrt(b); default: return (2.0 * x - a - b) / (b - a); } }
    // dx/dt (length scale) and dt/dx (the Jacobian that multiplies canonical gradients)
    double dxdt() const{ if (!set) return 1.0; switch(k){ case K_FOURIER: return b - a; case K_LAGUERRE: return 1.0 / b; case K_HERMITE: return 1.0 / std::sqrt(b); default: return 0.5 * (b - a); } }
    double dtdx() const{ return 1.0 / dxdt(); }
};
inline LinMap linmap(const Cfg &c, int j){ LinMap m; m.k = domkind(c.rule); if (c.fam == F_FOURIER) m.k = K_FOURIER; if (!c.ta.empty()){ m.set = true; m.a = c.ta[j]; m.b = c.tb[j]; } return m; }

// ---------------------------------------------------------------- conformal map: truncated Maclaurin series of asin, normalised to map [-1,1] onto itself
//   g_p(t) = sum_{k=0..p} c_k t^(2k+1) / sum_{k=0..p} c_k,   c_k = (2k)! / (4^k (k!)^2 (2k+1))
inline double asin_coef(int k){ long double c = 1.0L; for(int i=1;i<=k;i++) c *= (long double)(2*i - 1) / (long double)(2*i); return (double)(c / (long double)(2*k + 1)); }
inline double asin_fwd(double t, int p){ long double s = 0, n = 0, tp = t, t2 = (long double) t * t; for(int k=0;k<=p;k++){ long double c = asin_coef(k); s += c * tp; n += c; tp *= t2; } return (double)(s / n); }
inline double asin_der(double t, int p){ long double s = 0, n = 0, tp = 1, t2 = (long double) t * t; for(int k=0;k<=p;k++){ long double c = asin_coef(k); s += c * (2*k + 1) * tp; n += c; tp *= t2; } return (double)(s / n); }
// inverse by bisection (g_p is strictly increasing on [-1,1]); independent of the library's Newton iteration
inline double asin_inv(double x, int p){ double lo = -1.0, hi = 1.0; for(int it=0; it<200; it++){ double mid = 0.5 * (lo + hi); if (mid == lo || mid == hi) break; if (asin_fwd(mid, p) < x) lo = mid; else hi = mid; } return 0.5 * (lo + hi); }

// full documented map of one coordinate: conformal (if any) then linear
inline double full_fwd(const Cfg &c, int j, double t){ if (!c.conformal.empty()) t = asin_fwd(t, c.conformal[j]); return linmap(c, j).fwd(t); }
inline double full_inv(const Cfg &c, int j, double x){ double t = linmap(c, j).inv(x); if (!c.conformal.empty()) t = asin_inv(t, c.conformal[j]); return t; }

// ---------------------------------------------------------------- probe points (canonical coordinates), kept away from kinks
// dyadic rules (localp*, wavelets incl. the 1025-point cubic tables): every kink is a multiple of 2^-13 on [-1,1] for levels <= 8;
// piecewise constant rule: every jump is a multiple of 3^-9.  A probe is moved to (k + 0.37) * delta, i.e. 0.37 * delta >= 1.8e-5
// away from the nearest kink candidate on either side; finite-difference stencils use +-2h with h <= 4e-6 for these rules.
inline double snap(double t, double delta){ double k = std::floor((t + 1.0) / delta); return -1.0 + (k + 0.37) * delta; }
inline std::vector<std::vector<double>> canonical_probes(const Cfg &cfg, bool piecewise_constant){
    std::vector<std::vector<double>> P; int d = cfg.dims;
    const double base[4][3] = {{0.3127, -0.6181, 0.141}, {-0.9371, 0.8713, -0.505}, {0.0533, 0.4419, -0.2307}, {0.71, -0.07, 0.93}};
    DomKind k = (cfg.fam == F_FOURIER) ? K_FOURIER : domkind(cfg.rule);
    for(int t=0;t<4;t++){
        std::vector<double> x(d);
        for(int j=0;j<d;j++){
            double u = base[t][j % 3];
            if (k == K_FOURIER) x[j] = 0.5 * (u + 1.0);
            else if (k == K_LAGUERRE) x[j] = 1.3 + u + 0.9 * t;
            else if (k == K_HERMITE) x[j] = 1.6 * u;
            else{
                x[j] = u;
                if (cfg.fam == F_LOCALP || cfg.fam == F_WAVELET) x[j] = snap(u, piecewise_constant ? 2.0 / 19683.0 : 1.0 / 8192.0);
            }
        }
        P.push_back(x);
    }
    return P;
}

// ---------------------------------------------------------------- bookkeeping shared by the two harnesses
struct Ctx {
    std::string unit; long evals = 0, states = 0, transitions = 0, execs = 0, skipped = 0; std::set<std::string> distinct; int nviol = 0;
    std::map<std::string, long> outcomes;
};
// cap on emitted records: per work unit and signature (the count of violations is still reported); the map lives in the worker process,
// children forked for a chunk inherit it and report the signatures they emitted back through the result pipe ("V" lines)
static std::map<std::string, int> g_sigcount; static std::map<std::string, int> g_signew;
inline void report(Ctx &c, const std::string &sig, const Cfg &cfg, const std::string &hist, const std::string &detail){
    c.nviol++; g_signew[sig]++;
    if (++g_sigcount[sig] > 4) return;
    vf::violation(sig, c.unit, vf::J().s("cfg", cfg.str()).s("hist", hist).str(), detail);
}
// label of the state being checked (child -> parent, used to attribute a crash or a hang to a class of states)
static int g_label_fd = -1;
inline void state_label(const std::string &l){ if (g_label_fd >= 0) vf::wr(g_label_fd, "S " + l + "\n"); }
inline std::string rtag(const TasmanianSparseGrid &g){
    std::string r = IO::getRuleString(g.getRule());
    if (g.isLocalPolynomial() || g.isWavelet()) r += ":order" + std::to_string(g.getOrder());
    return r;
}
inline std::string rtag(const Cfg &c){
    std::string r = IO::getRuleString(c.rule);
    if (c.fam == F_LOCALP || c.fam == F_WAVELET) r += ":order" + std::to_string(c.order);
    return r;
}
inline void add_distinct(Ctx &c, const TasmanianSparseGrid &g, const Cfg &cfg){
    std::ostringstream k; k << rtag(g) << "|" << g.getNumPoints() << "|";
    if (g.getNumPoints() > 0) for(double v : g.getPoints()) k << vf::hexd(v);
    k << "|"; for(double v : cfg.ta) k << vf::hexd(v); k << "/"; for(double v : cfg.tb) k << vf::hexd(v); k << "/"; for(int v : cfg.conformal) k << v << ",";
    k << "|" << vf::hexd(cfg.alpha) << "," << vf::hexd(cfg.beta);
    c.distinct.insert(vf::digest(k.str()));
}


// serialisation of the counters of a Ctx (child -> parent through a result pipe): used for nested watchdog children
inline std::string pack(const Ctx &cc){
    std::ostringstream r; r << "D " << cc.evals << " " << cc.states << " " << cc.transitions << " " << cc.execs << " " << cc.skipped << " " << cc.nviol; for(auto &dg : cc.distinct) r << " " << dg; r << "\n";
    for(auto &kv : cc.outcomes) r << "O " << kv.second << " " << kv.first << "\n";
    for(auto &kv : g_signew) r << "V " << kv.second << " " << kv.first << "\n";
    r << "E\n"; return r.str();
}
inline bool merge(Ctx &c, const std::string &text){
    std::istringstream in(text); std::string line; bool done = false;
    while(std::getline(in, line)){
        if (line.empty()) continue;
        if (line[0] == 'D'){ std::istringstream ls(line.substr(2)); long a=0,b=0,t=0,e=0,sk=0,nv=0; ls >> a >> b >> t >> e >> sk >> nv; c.evals += a; c.states += b; c.transitions += t; c.execs += e; c.skipped += sk; c.nviol += (int) nv; std::string dg; while(ls >> dg) c.distinct.insert(dg); }
        else if (line[0] == 'O'){ std::istringstream ls(line.substr(2)); long n = 0; ls >> n; std::string key; std::getline(ls, key); if (!key.empty() && key[0] == ' ') key = key.substr(1); c.outcomes[key] += n; }
        else if (line[0] == 'V'){ std::istringstream ls(line.substr(2)); int nn = 0; ls >> nn; std::string sg; std::getline(ls, sg); if (!sg.empty() && sg[0] == ' ') sg = sg.substr(1); g_sigcount[sg] += nn; g_signew[sg] += nn; }
        else if (line[0] == 'E') done = true;
    }
    return done;
}

struct UnitDef { std::string name; std::vector<Cfg> cfgs; };

// per-configuration watchdog of a child process. The limit is on the CPU time of the child (ITIMER_PROF, default action of SIGPROF = terminate), not on
// wall-clock time: the slowest legitimate configuration (the 59049-point 1-D Fourier grid of C05: ~19 s under ASan, all of it in the library's O(N^2)
// construction of the one dimensional rule) took more than a 20 s wall-clock limit on a slower / loaded machine and was reported as a hang. A runaway loop
// burns CPU and is still stopped; a wall-clock alarm at 4x the limit remains as the fallback for a child that blocks without using CPU.
inline void watchdog_arm(double cpu_seconds){
    struct itimerval it; memset(&it, 0, sizeof(it));
    it.it_value.tv_sec = (time_t) std::floor(cpu_seconds); it.it_value.tv_usec = (suseconds_t) ((cpu_seconds - std::floor(cpu_seconds)) * 1e6);
    setitimer(ITIMER_PROF, &it, nullptr);
    alarm(cpu_seconds > 0 ? (unsigned) std::ceil(4.0 * cpu_seconds) : 0u);
}
inline void watchdog_disarm(){ watchdog_arm(0.0); }
inline double cpu_now(){ struct timespec ts; clock_gettime(CLOCK_PROCESS_CPUTIME_ID, &ts); return (double) ts.tv_sec + 1e-9 * (double) ts.tv_nsec; }
inline bool is_hang(const vf::Outcome &o){ return (o.kind == vf::Outcome::TIMEOUT) || (o.kind == vf::Outcome::SIGNAL && (o.code == SIGALRM || o.code == SIGPROF)); }

// runs all units (parallel workers; per unit: chunks of configurations in forked children with a watchdog)
inline void run_all(const std::string &prop, const std::vector<UnitDef> &U, int workers, const std::string &bound, const std::string &hist_all,
                    const std::function<void(Ctx&, const Cfg&)> &explore, double per_cfg_timeout){
    size_t done = vf::parallel_units(U.size(), workers, [&](size_t ui){
        const UnitDef &u = U[ui]; Ctx c; c.unit = u.name; g_sigcount.clear(); g_signew.clear();
        const std::vector<Cfg> &cfgs = u.cfgs; bool complete = true; size_t k = 0; double t0 = vf::now(); int ncrash = 0; double max_cpu = 0; size_t max_cpu_cfg = 0;
        const size_t CH = 48;
        while(k < cfgs.size()){
            if (vf::past_deadline()){ complete = false; break; }
            if (ncrash >= 6){ vf::emit(vf::J().s("t","note").s("text", c.unit + ": stopped after 6 crashing configurations, " + std::to_string(cfgs.size() - k) + " configurations not run")); complete = false; break; }
            size_t start = k, end = std::min(cfgs.size(), k + CH);
            vf::Outcome o = vf::run_child([&](int fd){
                g_label_fd = fd;
                for(size_t q=start; q<end; q++){
                    if (vf::past_deadline()) break;
                    Ctx cc; cc.unit = c.unit; cc.nviol = c.nviol; double cpu0 = cpu_now(); watchdog_arm(per_cfg_timeout); explore(cc, cfgs[q]); watchdog_disarm();
                    { std::ostringstream tt; tt << "T " << (cpu_now() - cpu0) << "\n"; vf::wr(fd, tt.str()); }
                    std::ostringstream r; r << "D " << cc.evals << " " << cc.states << " " << cc.transitions << " " << cc.execs << " " << cc.skipped << " " << (cc.nviol - c.nviol);
                    for(auto &dg : cc.distinct) r << " " << dg; r << "\n";
                    for(auto &kv : cc.outcomes) r << "O " << kv.second << " " << kv.first << "\n";
                    for(auto &kv : g_signew) r << "V " << kv.second << " " << kv.first << "\n"; g_signew.clear();
                    r << "E\n"; vf::wr(fd, r.str());
                }
            }, 30.0 + 4.0 * per_cfg_timeout * (double)(end - start));
            // parse: a configuration is finished when its "E" line arrived
            size_t ndone = 0; std::string last_label; { std::istringstream in(o.out); std::string line; Ctx pend; bool have = false;
                while(std::getline(in, line)){
                    if (line.empty()) continue;
                    if (line[0] == 'S'){ last_label = line.size() > 2 ? line.substr(2) : ""; continue; }
                    if (line[0] == 'T'){ double tc = atof(line.c_str() + 1); if (tc > max_cpu){ max_cpu = tc; max_cpu_cfg = start + ndone; } continue; }
                    if (line[0] == 'V'){ std::istringstream ls(line.substr(2)); int nn = 0; ls >> nn; std::string sg; std::getline(ls, sg); if (!sg.empty() && sg[0] == ' ') sg = sg.substr(1); g_sigcount[sg] += nn; continue; }
                    if (line[0] == 'D'){ pend = Ctx(); have = true; std::istringstream ls(line.substr(2)); long nv = 0; ls >> pend.evals >> pend.states >> pend.transitions >> pend.execs >> pend.skipped >> nv; pend.nviol = (int) nv; std::string dg; while(ls >> dg) pend.distinct.insert(dg); }
                    else if (line[0] == 'O' && have){ std::istringstream ls(line.substr(2)); long n = 0; ls >> n; std::string key; std::getline(ls, key); if (!key.empty() && key[0] == ' ') key = key.substr(1); pend.outcomes[key] += n; }
                    else if (line[0] == 'E' && have){ last_label.clear(); c.evals += pend.evals; c.states += pend.states; c.transitions += pend.transitions; c.execs += pend.execs; c.skipped += pend.skipped; c.nviol += pend.nviol; for(auto &dg : pend.distinct) c.distinct.insert(dg); for(auto &kv : pend.outcomes) c.outcomes[kv.first] += kv.second; have = false; ndone++; }
                } }
            k = start + ndone;
            if (o.kind != vf::Outcome::OK && k < end){
                const Cfg &cfg = cfgs[k]; std::string cls = (o.kind == vf::Outcome::SANITIZER) ? o.sanitizer_class() : o.describe(); c.states++; c.execs++;
                bool hung = is_hang(o); if (hung) cls = "timeout";
                std::string what = hung ? "hang" : "crash";
                report(c, prop + ":" + what + ":" + (last_label.empty() ? rtag(cfg) : last_label) + ":" + cls, cfg, hist_all, o.describe() + ": " + o.err.substr(0, 1500)); g_signew.clear(); k++; ncrash++;
                c.outcomes[what + ":" + std::string(famname(cfg.fam))]++;
            }else if (k < end && !vf::past_deadline()){ vf::emit(vf::J().s("t","error").s("what","child stopped early without failure")); k = end; }
        }
        vf::emit(vf::J().s("t","unit").s("unit", c.unit).i("states", c.states).i("transitions", c.transitions).i("execs", c.execs).i("evals", c.evals).i("distinct", (long long) c.distinct.size()).i("skipped", c.skipped).i("violations", c.nviol).i("configs", (long long) k).n("wall", vf::now() - t0).n("max_cfg_cpu_s", max_cpu).b("complete", complete));
        if (max_cpu > 0.4 * per_cfg_timeout && max_cpu_cfg < cfgs.size()){ std::ostringstream nt; nt.precision(3); nt << c.unit << ": slowest configuration used " << max_cpu << " s of CPU time (watchdog " << per_cfg_timeout << " s): " << cfgs[max_cpu_cfg].str(); vf::emit(vf::J().s("t","note").s("text", nt.str())); }
        for(auto &kv : c.outcomes) vf::emit(vf::J().s("t","outcome").s("key", kv.first).i("n", kv.second));
        if (k > 0) vf::emit(vf::J().s("t","sample").raw("case", vf::J().s("cfg", cfgs[k/2].str()).s("hist", hist_all).str()));
        if (!complete) vf::emit(vf::J().s("t","incomplete").s("unit", c.unit));
    });
    vf::emit(vf::J().s("t","summary").i("units_total", (long long) U.size()).i("units_done", (long long) done).s("bound", bound).b("exhaustive", done == U.size() && !vf::past_deadline()));
}

// --replay: the whole configuration (all of its histories) is re-executed in one child
inline int run_replay(const std::string &prop, const std::string &file, const std::string &hist_all, const std::function<void(Ctx&, const Cfg&)> &explore, double per_cfg_timeout = 600.0){
    std::string v = vf::slurp(file); std::string cs = vf::jget(v, "case"); Cfg cfg = Cfg::parse(vf::jget(cs, "cfg"));
    Ctx c; c.unit = "replay";
    vf::Outcome o = vf::run_child([&](int fd){ g_label_fd = fd; Ctx cc; cc.unit = "replay"; watchdog_arm(per_cfg_timeout); explore(cc, cfg); watchdog_disarm(); vf::wr(fd, "N " + std::to_string(cc.nviol) + "\n"); }, 60.0 + 4.0 * per_cfg_timeout);
    std::string last_label; { std::istringstream in(o.out); std::string line; while(std::getline(in, line)) if (!line.empty() && line[0] == 'S') last_label = line.size() > 2 ? line.substr(2) : ""; }
    if (o.kind != vf::Outcome::OK){ std::string cls = (o.kind == vf::Outcome::SANITIZER) ? o.sanitizer_class() : o.describe(); bool hung = is_hang(o); if (hung) cls = "timeout"; std::string what = hung ? "hang" : "crash";
        report(c, prop + ":" + what + ":" + (last_label.empty() ? rtag(cfg) : last_label) + ":" + cls, cfg, hist_all, o.describe() + ": " + o.err.substr(0, 1500)); }
    vf::emit(vf::J().s("t","summary").s("replay", o.describe())); return 0;
}

} // namespace sd
#endif
