// scan_exact - E-A at depth 0/1 for C02 (quadrature exactness) and C03 (interpolation exactness).
// States = every configuration of the lattice (rule x type x dims x depth x weights x limits x transform x alpha/beta);
// transitions = {update(depth+1), load+update+load(merge), anisotropic refinement + load} applied to each state,
// the oracle is evaluated in every state and every successor.
// Oracle numerics: canonical moments from closed forms in __float128 (libquadmath), pulled to the transformed
// domain with the documented map by a binomial expansion carried out in __float128.
#include "tgrid.hpp"
#include "TasmanianAddons.hpp"
#include <quadmath.h>
#include <complex>
using namespace tg;
typedef __float128 Q;

static std::string g_prop = "C02"; static std::string g_tier = "quick";
static const int MAXDEG = 36;

static Q lgq(double x){ return lgammaq((Q) x); }
// canonical moment m_k = int t^k rho(t) dt of the weight documented for the rule
static Q canon_moment(TypeOneDRule r, int k, double alpha, double beta){
    bool odd = (k % 2 == 1);
    switch(r){
        case rule_gausschebyshev1: case rule_gausschebyshev1odd: alpha = -0.5; if (odd) return 0; return expq(lgq((k+1)/2.0) + lgq(alpha+1.0) - lgq((k+1)/2.0 + alpha + 1.0));
        case rule_gausschebyshev2: case rule_gausschebyshev2odd: alpha =  0.5; if (odd) return 0; return expq(lgq((k+1)/2.0) + lgq(alpha+1.0) - lgq((k+1)/2.0 + alpha + 1.0));
        case rule_gaussgegenbauer: case rule_gaussgegenbauerodd: if (odd) return 0; return expq(lgq((k+1)/2.0) + lgq(alpha+1.0) - lgq((k+1)/2.0 + alpha + 1.0));
        case rule_gaussjacobi: case rule_gaussjacobiodd: { // (1-t)^alpha (1+t)^beta, t = 2u-1
            Q s = 0;
            for(int j=0;j<=k;j++){
                Q c = expq(lgq(k+1.0) - lgq(j+1.0) - lgq(k-j+1.0)) * powq((Q) 2, (Q) j) * (((k-j)%2==0) ? (Q) 1 : (Q) -1);
                s += c * expq(lgq(j+beta+1.0) + lgq(alpha+1.0) - lgq(j+alpha+beta+2.0));
            }
            return s * powq((Q) 2, (Q)(alpha+beta+1.0)); }
        case rule_gausslaguerre: case rule_gausslaguerreodd: return expq(lgq(k + alpha + 1.0));
        case rule_gausshermite: case rule_gausshermiteodd: if (odd) return 0; return expq(lgq((k + alpha + 1.0)/2.0));
        default: return odd ? (Q) 0 : (Q) 2 / (Q)(k + 1);
    }
}
// moment of x^k over the transformed domain with the documented weight:  x = r t + s
static Q moment(TypeOneDRule rule, int k, double alpha, double beta, bool tr, double a, double b){
    if (!tr) return canon_moment(rule, k, alpha, beta);
    Q r, s, scale;
    if (rule == rule_gausslaguerre || rule == rule_gausslaguerreodd){ r = (Q) 1 / (Q) b; s = a; scale = powq((Q) b, (Q)(-(1.0 + alpha))); }
    else if (rule == rule_gausshermite || rule == rule_gausshermiteodd){ r = (Q) 1 / sqrtq((Q) b); s = a; scale = powq((Q) b, (Q)(-0.5 * (1.0 + alpha))); }
    else {
        r = ((Q) b - (Q) a) / 2; s = ((Q) b + (Q) a) / 2; double ea = 0, eb = 0;
        if (rule == rule_gausschebyshev1 || rule == rule_gausschebyshev1odd){ ea = eb = -0.5; }
        else if (rule == rule_gausschebyshev2 || rule == rule_gausschebyshev2odd){ ea = eb = 0.5; }
        else if (rule == rule_gaussgegenbauer || rule == rule_gaussgegenbauerodd){ ea = eb = alpha; }
        else if (rule == rule_gaussjacobi || rule == rule_gaussjacobiodd){ ea = alpha; eb = beta; }
        scale = powq(r, (Q)(ea + eb + 1.0));
    }
    Q sum = 0;
    for(int j=0;j<=k;j++){
        Q c = expq(lgq(k+1.0) - lgq(j+1.0) - lgq(k-j+1.0));
        sum += c * powq(r, (Q) j) * ((k-j == 0) ? (Q) 1 : powq(s, (Q)(k-j))) * canon_moment(rule, j, alpha, beta);
    }
    return sum * scale;
}
static bool usesAlpha(TypeOneDRule r){ return r == rule_gaussgegenbauer || r == rule_gaussgegenbauerodd || r == rule_gaussjacobi || r == rule_gaussjacobiodd || r == rule_gausslaguerre || r == rule_gausslaguerreodd || r == rule_gausshermite || r == rule_gausshermiteodd; }
static bool usesBeta(TypeOneDRule r){ return r == rule_gaussjacobi || r == rule_gaussjacobiodd; }
static bool unbounded(TypeOneDRule r){ return r == rule_gausslaguerre || r == rule_gausslaguerreodd || r == rule_gausshermite || r == rule_gausshermiteodd; }

// exotic quadrature (Addons/tsgExoticQuadrature.hpp): custom-tabulated Gauss rules for a user weight function rho on [-1,1].
// variant 1: rho = 1 + x/2 (positive, not symmetric, shift 0); variant 2: rho = x^2 - 1/5 (changes sign, symmetric, shift 1/2)
static bool is_exotic(const Cfg &cfg){ return cfg.custom.compare(0, 7, "exotic:") == 0; }
static int exotic_variant(const Cfg &cfg){ return atoi(cfg.custom.c_str() + 7); }
static Q exotic_moment(int variant, int k){ // int_{-1}^{1} t^k rho(t) dt
    auto m = [](int q)->Q{ return (q % 2 == 1) ? (Q) 0 : (Q) 2 / (Q)(q + 1); };
    if (variant == 3) return 2 * m(k) + m(k + 1);        // rho = 2 + t (bounded away from zero: admits a negative shift)
    return (variant == 1) ? m(k) + m(k + 1) / 2 : m(k + 2) - m(k) / 5;
}
static void make2(TasmanianSparseGrid &g, const Cfg &cfg){
    if (!is_exotic(cfg)){ make(g, cfg); return; }
    int v = exotic_variant(cfg);
    TasGrid::CustomTabulated ct = (v == 3) ? TasGrid::getExoticQuadrature(6, -0.5, [](double x)->double{ return 2.0 + x; }, 60, "exotic 2+x", false) : (v == 1) ? TasGrid::getExoticQuadrature(6, 0.0, [](double x)->double{ return 1.0 + 0.5 * x; }, 60, "exotic 1+x/2", false)
                                           : TasGrid::getExoticQuadrature(6, 0.5, [](double x)->double{ return x * x - 0.2; }, 60, "exotic x^2-1/5", true);
    g.makeGlobalGrid(cfg.dims, cfg.outs, cfg.depth, cfg.type, std::move(ct), cfg.aw, cfg.limits);
    if (!cfg.ta.empty()) g.setDomainTransform(cfg.ta, cfg.tb);
}
struct Ctx { std::string unit; long evals = 0, states = 0, transitions = 0, skipped = 0; std::set<std::string> distinct; int nviol = 0; bool replay = false; };

static void report(Ctx &c, const std::string &sig, const Cfg &cfg, const std::string &hist, const std::string &detail){
    c.nviol++;
    if (c.nviol > 40) return; // per unit cap on records (the count is still reported)
    vf::violation(sig, c.unit, vf::J().s("cfg", cfg.str()).s("hist", hist).str(), detail);
}

// transformed evaluation point(s) inside the domain
static std::vector<std::vector<double>> probe_points(const Cfg &cfg){
    std::vector<std::vector<double>> P; int d = cfg.dims; bool tr = !cfg.ta.empty();
    const double base[3][3] = {{0.3127, -0.6181, 0.141}, {-0.9371, 0.8713, -0.505}, {0.0, 1.0, -1.0}};
    for(int t=0;t<3;t++){
        std::vector<double> x(d);
        for(int j=0;j<d;j++){
            double u = base[t][j % 3];
            if (cfg.fam == F_FOURIER){ u = 0.5 * (u + 1.0); if (u >= 1.0) u = 0.999; x[j] = tr ? cfg.ta[j] + u * (cfg.tb[j] - cfg.ta[j]) : u; }
            else if (cfg.rule == rule_gausslaguerre || cfg.rule == rule_gausslaguerreodd){ double tc = 1.0 + u + 0.7 * t; x[j] = tr ? tc / cfg.tb[j] + cfg.ta[j] : tc; }
            else if (cfg.rule == rule_gausshermite || cfg.rule == rule_gausshermiteodd){ double tc = 1.5 * u; x[j] = tr ? tc / std::sqrt(cfg.tb[j]) + cfg.ta[j] : tc; }
            else x[j] = tr ? 0.5 * (cfg.tb[j] - cfg.ta[j]) * u + 0.5 * (cfg.tb[j] + cfg.ta[j]) : u;
        }
        P.push_back(x);
    }
    return P;
}

// canonical coordinate of a transformed coordinate for the rule family of the configuration
static double canon1(const Cfg &cfg, double v, int j){
    if (cfg.ta.empty()) return v;
    if (cfg.rule == rule_gausslaguerre || cfg.rule == rule_gausslaguerreodd) return (v - cfg.ta[j]) * cfg.tb[j];
    if (cfg.rule == rule_gausshermite || cfg.rule == rule_gausshermiteodd) return (v - cfg.ta[j]) * std::sqrt(cfg.tb[j]);
    return to_canonical(v, cfg.ta[j], cfg.tb[j]);
}
static double ipow(double x, int k){ double r = 1.0; for(int i=0;i<k;i++) r *= x; return r; }

// ---------------------------------------------------------------- the oracles, evaluated in one state
static void check_state(Ctx &c, const Cfg &cfg, TasmanianSparseGrid &g, const std::string &hist){
    int d = g.getNumDimensions(); int n = g.getNumPoints(); if (n == 0) return;
    bool tr = !cfg.ta.empty();
    std::string rname = IO::getRuleString(g.getRule());
    auto x = g.getPoints();
    { std::ostringstream k; k << n << ":"; for(size_t i=0;i<std::min<size_t>(x.size(), 64);i++) k << vf::hexd(x[i]); c.distinct.insert(vf::digest(k.str() + cfg.str().substr(0, cfg.str().find(";depth")))); }
    if (g_prop == "C02"){
        auto w = g.getQuadratureWeights();
        if (g.isFourier()){
            const int *idx = g.getPointsIndexes();
            double vol = 1.0; if (tr) for(int j=0;j<d;j++) vol *= (cfg.tb[j] - cfg.ta[j]);
            for(int p=0;p<n;p++){
                std::vector<int> kk(d); bool zero = true; for(int j=0;j<d;j++){ int ip = idx[p*d+j]; kk[j] = (ip % 2 == 0) ? ip / 2 : -(ip + 1) / 2; if (kk[j]) zero = false; }
                std::complex<double> s(0,0); double sa = 0;
                for(int i=0;i<n;i++){ double ph = 0; for(int j=0;j<d;j++){ double u = tr ? (x[i*d+j] - cfg.ta[j]) / (cfg.tb[j] - cfg.ta[j]) : x[i*d+j]; ph += 2 * M_PI * kk[j] * u; } s += w[i] * std::complex<double>(std::cos(ph), std::sin(ph)); sa += std::abs(w[i]); }
                c.evals++;
                double ex = zero ? vol : 0.0;
                if (std::abs(s - ex) > 1e-9 * std::max(1.0, sa)){ std::ostringstream o; o << "fourier mode k=(" ; for(int j=0;j<d;j++) o << kk[j] << (j+1<d?",":""); o << ") integrates to " << s.real() << "+" << s.imag() << "i, exact " << ex; report(c, "C02:qexact:fourier:" + std::string(zero ? "measure" : "mode"), cfg, hist, o.str()); break; }
            }
        }else{
            auto qs = g.getGlobalPolynomialSpace(false); size_t ns = qs.size() / d;
            for(size_t s=0;s<ns;s++){
                int maxdeg = 0; for(int j=0;j<d;j++) maxdeg = std::max(maxdeg, qs[s*d+j]);
                if (maxdeg > MAXDEG){ c.skipped++; continue; }
                bool cc0 = (g.getRule() == rule_clenshawcurtis0);
                if (cc0){ int mindeg = 1000; for(int j=0;j<d;j++) mindeg = std::min(mindeg, qs[s*d+j]); if (mindeg < 2){ c.skipped++; continue; } }
                // zero-boundary rule: a listed degree k stands for (1-t^2) t^(k-2) in the canonical variable t
                Q exq = 1; double sum = 0, sa = 0;
                if (cc0){
                    for(int j=0;j<d;j++){ int k = qs[s*d+j]; Q m = canon_moment(rule_clenshawcurtis, k-2, 0, 0) - canon_moment(rule_clenshawcurtis, k, 0, 0); if (tr) m *= ((Q) cfg.tb[j] - (Q) cfg.ta[j]) / 2; exq *= m; }
                    for(int i=0;i<n;i++){ double v = w[i]; for(int j=0;j<d;j++){ double t = tr ? to_canonical(x[i*d+j], cfg.ta[j], cfg.tb[j]) : x[i*d+j]; v *= (1.0 - t*t) * ipow(t, qs[s*d+j] - 2); } sum += v; sa += std::abs(v); }
                }else{
                    if (is_exotic(cfg)){ if (tr){ c.skipped++; continue; } for(int j=0;j<d;j++) exq *= exotic_moment(exotic_variant(cfg), qs[s*d+j]); }
                    else for(int j=0;j<d;j++) exq *= moment(g.getRule(), qs[s*d+j], cfg.alpha, cfg.beta, tr, tr ? cfg.ta[j] : 0, tr ? cfg.tb[j] : 0);
                    for(int i=0;i<n;i++){ double v = w[i]; for(int j=0;j<d;j++) v *= ipow(x[i*d+j], qs[s*d+j]); sum += v; sa += std::abs(v); }
                }
                double ex = (double) exq;
                c.evals++;
                if (!(std::abs(sum - ex) <= 1e-9 * std::max(1.0, std::max(sa, std::abs(ex))))){
                    bool measure = (maxdeg == 0);
                    std::ostringstream o; o.precision(15); o << "monomial ("; for(int j=0;j<d;j++) o << qs[s*d+j] << (j+1<d?",":""); o << ") declared exact: quadrature gives " << sum << ", exact " << ex << " (sum|w x^nu| = " << sa << ", " << n << " points)";
                    report(c, "C02:qexact:" + rname + (measure ? ":measure" : ":monomial"), cfg, hist, o.str()); break;
                }
            }
        }
        // integrate() = sum w_i v_i in a loaded state
        if (g.getNumOutputs() > 0 && g.getNumLoaded() > 0){
            int outs = g.getNumOutputs(); std::vector<double> q; g.integrate(q); const double *v = g.getLoadedValues(); auto wl = g.getQuadratureWeights();
            for(int k=0;k<outs;k++){ double s = 0, sa = 0; for(int i=0;i<g.getNumLoaded();i++){ s += wl[i] * v[i*outs+k]; sa += std::abs(wl[i] * v[i*outs+k]); } c.evals++;
                if (!(std::abs(s - q[k]) <= 1e-9 * std::max(1.0, sa))){ std::ostringstream o; o << "integrate()[" << k << "] = " << q[k] << " but weights.values = " << s; report(c, "C02:integrate-vs-weights:" + rname, cfg, hist, o.str()); break; } }
        }
    }else{ // C03 -------------------------------------------------------------------------------
        auto P = probe_points(cfg);
        // also one node of the grid as evaluation point
        if (n > 0) P.push_back(std::vector<double>(x.begin() + (size_t)(n/2) * d, x.begin() + (size_t)(n/2) * d + d));
        // ... and points next to nodes (formulas with a removable singularity at the nodes switch branches there): node + delta * width in direction 0
        if (n > 0) for(double delta : {1e-11, -1e-9, 1e-7}) for(int q : {n / 2, n - 1}){
            std::vector<double> p(x.begin() + (size_t) q * d, x.begin() + (size_t) q * d + d);
            bool unb = (cfg.rule == rule_gausslaguerre || cfg.rule == rule_gausslaguerreodd || cfg.rule == rule_gausshermite || cfg.rule == rule_gausshermiteodd);
            double lo = g.isFourier() ? 0.0 : -1.0, hi = 1.0, width = hi - lo; if (tr && !unb){ lo = cfg.ta[0]; hi = cfg.tb[0]; width = hi - lo; } if (unb) width = 1.0;
            double v = p[0] + delta * width; if (!unb && (v < lo || v > hi || (g.isFourier() && v >= hi))) v = p[0] - delta * width;
            if (unb && (cfg.rule == rule_gausslaguerre || cfg.rule == rule_gausslaguerreodd) && v < (tr ? cfg.ta[0] : 0.0)) v = p[0] + std::abs(delta);
            p[0] = v; P.push_back(p);
            if (delta != 1e-11) break; // the larger offsets at one node only
        }
        bool cc0 = (g.getRule() == rule_clenshawcurtis0);
        for(size_t t=0;t<P.size();t++){
            auto &xt = P[t];
            auto iw = g.getInterpolationWeights(xt);
            if (g.isFourier()){
                const int *idx = g.getPointsIndexes();
                for(int p=0;p<n;p++){
                    std::vector<int> kk(d); for(int j=0;j<d;j++){ int ip = idx[p*d+j]; kk[j] = (ip % 2 == 0) ? ip / 2 : -(ip + 1) / 2; }
                    std::complex<double> s(0,0); double sa = 0;
                    for(int i=0;i<n;i++){ double ph = 0; for(int j=0;j<d;j++){ double u = tr ? (x[i*d+j] - cfg.ta[j]) / (cfg.tb[j] - cfg.ta[j]) : x[i*d+j]; ph += 2 * M_PI * kk[j] * u; } s += iw[i] * std::complex<double>(std::cos(ph), std::sin(ph)); sa += std::abs(iw[i]); }
                    double ph = 0; for(int j=0;j<d;j++){ double u = tr ? (xt[j] - cfg.ta[j]) / (cfg.tb[j] - cfg.ta[j]) : xt[j]; ph += 2 * M_PI * kk[j] * u; }
                    std::complex<double> ex(std::cos(ph), std::sin(ph)); c.evals++;
                    if (std::abs(s - ex) > 1e-9 * std::max(1.0, sa)){ std::ostringstream o; o.precision(12); o << "fourier mode k=("; for(int j=0;j<d;j++) o << kk[j] << (j+1<d?",":""); o << ") not reproduced by interpolation weights at probe " << t << ": " << s.real() << "+" << s.imag() << "i vs " << ex.real() << "+" << ex.imag() << "i";
                        // One specific cause has its own signature: GridFourier::getInterpolationWeights() treats a point with |1 - cos(theta)| < num_tol (theta = 2 pi (x - node)) as the node itself,
                        // which is exact only to (theta N)^2. It applies when the probe is inside that window of a node (not on it) and the error is explained by that bound.
                        double bound = 0;
                        for(int j=0;j<d;j++){ long N = 1; for(int L=0; L<12; L++, N*=3){ bool all = true; for(int i=0;i<n && all;i++){ double u = (tr ? (x[i*d+j] - cfg.ta[j]) / (cfg.tb[j] - cfg.ta[j]) : x[i*d+j]) * N; if (std::abs(u - std::round(u)) > 1e-6) all = false; } if (all) break; }
                            double u = (tr ? (xt[j] - cfg.ta[j]) / (cfg.tb[j] - cfg.ta[j]) : xt[j]) * N; double th = 2.0 * M_PI * std::abs(u - std::round(u)) / N;
                            if (th > 1e-13 && th * th / 2.0 < 1.5e-12) bound += (th * N) * (th * N); }
                        bool window = bound > 0 && std::abs(s - ex) <= 2.0 * bound * std::max(1.0, sa) + 1e-9 * std::max(1.0, sa);
                        if (window) o << " (the probe lies within the 'is a node' window of the weights, error bound (theta N)^2 = " << bound << ")";
                        report(c, std::string("C03:iexact:fourier:weights") + (window ? ":near-node-window" : ""), cfg, hist, o.str()); break; }
                }
                continue;
            }
            if (g.isGlobal() || g.isSequence()){
                auto is = g.getGlobalPolynomialSpace(true); size_t ns = is.size() / d; bool failed = false;
                for(size_t s=0;s<ns && !failed;s++){
                    int maxdeg = 0, mindeg = 1000; for(int j=0;j<d;j++){ maxdeg = std::max(maxdeg, is[s*d+j]); mindeg = std::min(mindeg, is[s*d+j]); }
                    if (maxdeg > MAXDEG){ c.skipped++; continue; }
                    if (cc0 && mindeg < 2){ c.skipped++; continue; } // zero-boundary space: total degree k stands for (1-x^2) x^(k-2)
                    // monomials are taken in the canonical variable (the polynomial space is invariant under the affine domain map; this keeps |f| = O(1))
                    auto f = [&](const double *p)->double{ double v = 1.0; for(int j=0;j<d;j++){ double tcan = canon1(cfg, p[j], j); if (cc0) v *= (1.0 - tcan * tcan) * ipow(tcan, is[s*d+j] - 2); else v *= ipow(tcan, is[s*d+j]); } return v; };
                    double ex = f(xt.data()), sum = 0, sa = 0, mf = 0;
                    for(int i=0;i<n;i++){ double fi = f(&x[(size_t) i*d]); double v = iw[i] * fi; sum += v; sa += std::abs(v); mf = std::max(mf, std::abs(fi)); }
                    c.evals++;
                    if (!(std::abs(sum - ex) <= 1e-8 * std::max(1.0, std::max(sa, std::max(mf, std::abs(ex)))))){
                        std::ostringstream o; o.precision(15); o << (cc0 ? "zero-boundary polynomial of degrees (" : "monomial ("); for(int j=0;j<d;j++) o << is[s*d+j] << (j+1<d?",":""); o << ") declared in the interpolation space: weights give " << sum << ", exact " << ex << " at probe " << t << " (" << n << " points)";
                        report(c, "C03:iexact:" + rname + ":weights", cfg, hist, o.str()); failed = true;
                    }
                }
                // weights sum to one (1 is in every space except the zero-boundary one)
                if (!cc0){ double s = 0, sa = 0; for(int i=0;i<n;i++){ s += iw[i]; sa += std::abs(iw[i]); } c.evals++; if (!(std::abs(s - 1.0) <= 1e-9 * std::max(1.0, sa)) && !failed) report(c, "C03:weights-sum:" + rname, cfg, hist, "interpolation weights sum to " + std::to_string(s)); }
            }else{
                // Wavelet; Local polynomial (order != 0, rules with boundary: localp, semilocalp, localpb; depth >= 1): affine functions
                bool applies = g.isWavelet() || (g.isLocalPolynomial() && g.getOrder() != 0 && g.getRule() != rule_localp0 && cfg.depth >= 1);
                if (!applies){ c.skipped++; continue; }
                double tol = g.isWavelet() ? 1e-7 : 1e-9;
                for(int m=-1;m<d;m++){ // m = -1: constant; else coordinate x_m
                    double sum = 0, sa = 0; for(int i=0;i<n;i++){ double v = iw[i] * (m < 0 ? 1.0 : x[(size_t) i*d+m]); sum += v; sa += std::abs(v); }
                    double ex = (m < 0) ? 1.0 : xt[m]; c.evals++;
                    if (!(std::abs(sum - ex) <= tol * std::max(1.0, sa))){ std::ostringstream o; o.precision(15); o << (m < 0 ? "constant" : "coordinate function x_" + std::to_string(m)) << " not reproduced by interpolation weights at probe " << t << ": " << sum << " vs " << ex; report(c, "C03:affine:" + rname + ":order" + std::to_string(g.getOrder()) + ":weights", cfg, hist, o.str()); break; }
                }
            }
        }
    }
}

// loaded route for C03: one output per member of the space (capped), evaluate at probes
static void check_loaded_route(Ctx &c, const Cfg &cfg0, const std::string &hist){
    Cfg cfg = cfg0; int d = cfg.dims; bool tr = !cfg.ta.empty();
    TasmanianSparseGrid g0; Cfg c0 = cfg; c0.outs = 0; make2(g0, c0);
    bool cc0 = (cfg.rule == rule_clenshawcurtis0);
    std::vector<std::vector<int>> space; // exponent vectors (for fourier: frequencies)
    if (cfg.fam == F_GLOBAL || cfg.fam == F_SEQUENCE){
        auto is = g0.getGlobalPolynomialSpace(true); for(size_t s=0;s<is.size()/d;s++){ std::vector<int> e(is.begin()+s*d, is.begin()+(s+1)*d); int mx = *std::max_element(e.begin(), e.end()), mn = *std::min_element(e.begin(), e.end()); if (mx > MAXDEG || (cc0 && mn < 2)) continue; space.push_back(e); }
    }else if (cfg.fam == F_FOURIER){
        const int *idx = g0.getPointsIndexes(); for(int p=0;p<g0.getNumPoints();p++){ std::vector<int> e(d); for(int j=0;j<d;j++){ int ip = idx[p*d+j]; e[j] = (ip % 2 == 0) ? ip / 2 : -(ip + 1) / 2; } space.push_back(e); }
    }else{
        bool applies = cfg.fam == F_WAVELET || (cfg.order != 0 && cfg.rule != rule_localp0 && cfg.depth >= 1);
        if (!applies) return;
        space.push_back(std::vector<int>(d, 0)); for(int j=0;j<d;j++){ std::vector<int> e(d, 0); e[j] = 1; space.push_back(e); }
    }
    if (space.empty()) return;
    // spread a cap of 24 members over the space (first, last and evenly spaced ones)
    std::vector<std::vector<int>> sel; size_t cap = 24; if (space.size() <= cap) sel = space; else for(size_t i=0;i<cap;i++) sel.push_back(space[i * (space.size() - 1) / (cap - 1)]);
    int outs = (int) sel.size() * (cfg.fam == F_FOURIER ? 2 : 1); cfg.outs = outs;
    TasmanianSparseGrid g; make2(g, cfg);
    auto canon = [&](double v, int j){ if (!tr) return v; if (cfg.fam == F_FOURIER) return (v - cfg.ta[j]) / (cfg.tb[j] - cfg.ta[j]); return v; };
    auto f = [&](const double *p, size_t s, int part)->double{
        if (cfg.fam == F_FOURIER){ double ph = 0; for(int j=0;j<d;j++) ph += 2 * M_PI * sel[s][j] * canon(p[j], j); return part ? std::sin(ph) : std::cos(ph); }
        double v = 1.0; for(int j=0;j<d;j++){ double tcan = (cfg.fam == F_GLOBAL || cfg.fam == F_SEQUENCE) ? canon1(cfg, p[j], j) : p[j]; if (cc0) v *= (1.0 - tcan*tcan) * ipow(tcan, sel[s][j] - 2); else v *= ipow(tcan, sel[s][j]); } return v; };
    auto xs = g.getNeededPoints(); int n = g.getNumNeeded(); std::vector<double> vals((size_t) n * outs);
    for(int i=0;i<n;i++) for(size_t s=0;s<sel.size();s++){ if (cfg.fam == F_FOURIER){ vals[(size_t) i*outs + 2*s] = f(&xs[(size_t) i*d], s, 0); vals[(size_t) i*outs + 2*s+1] = f(&xs[(size_t) i*d], s, 1); } else vals[(size_t) i*outs + s] = f(&xs[(size_t) i*d], s, 0); }
    // the members are loaded as an OVERWRITING reload: other numbers go in first (same number of points: whatever is kept between loads and validated by a count is then stale)
    { std::vector<double> decoy(vals.size()); for(size_t i=0;i<vals.size();i++) decoy[i] = 0.25 * (double)(i % 3) - 1.5 * vals[i]; g.loadNeededValues(decoy); c.transitions++; }
    g.loadNeededValues(vals); c.transitions++; c.states++;
    double tol = (cfg.fam == F_WAVELET) ? 1e-7 : 1e-9;
    // a domain far from the origin and narrow loses digits in the domain map itself: the canonical image of a transformed node is only known to
    // pert = eps max(|a|,|b|) / (b - a); data with that perturbation moves the interpolant by at most (Lebesgue sum) x (max |f'| <= degree) x pert
    double pert = 0; if (tr && !unbounded(cfg.rule)) for(int j=0;j<d;j++) pert = std::max(pert, 4.5e-16 * std::max(std::abs(cfg.ta[j]), std::abs(cfg.tb[j])) / (cfg.tb[j] - cfg.ta[j]));
    auto degree_of = [&](size_t s)->double{ double m = 1; if (s < sel.size()) for(int j=0;j<d;j++) m = std::max(m, (double) std::abs(sel[s][j])); return (cfg.fam == F_FOURIER) ? 2.0 * M_PI * m : m; };
    auto P = probe_points(cfg); P.push_back(std::vector<double>(xs.begin() + (size_t)(n/2)*d, xs.begin() + (size_t)(n/2)*d + d));
    std::string rname = IO::getRuleString(g.getRule());
    for(size_t t=0;t<P.size();t++){
        std::vector<double> y; g.evaluate(P[t], y);
        // conditioning scale: sum_i |w_i(x)| |f(x_i)|
        auto iw = g.getInterpolationWeights(P[t]);
        for(int k=0;k<outs;k++){
            size_t s = (cfg.fam == F_FOURIER) ? k / 2 : k; int part = (cfg.fam == F_FOURIER) ? k % 2 : 0;
            double ex = f(P[t].data(), s, part), sa = 0, mf = 0, leb = 0; for(int i=0;i<n;i++){ sa += std::abs(iw[i] * vals[(size_t) i*outs + k]); mf = std::max(mf, std::abs(vals[(size_t) i*outs + k])); leb += std::abs(iw[i]); }
            c.evals++;
            if (!(std::abs(y[k] - ex) <= 10 * tol * std::max(1.0, std::max(sa, std::max(mf, std::abs(ex)))) + 4.0 * leb * degree_of(s) * pert)){
                std::ostringstream o; o.precision(15); o << "member ("; for(int j=0;j<d;j++) o << sel[s][j] << (j+1<d?",":""); o << (cfg.fam == F_FOURIER ? (part ? ") sin" : ") cos") : ")") << " loaded at the nodes: evaluate() gives " << y[k] << ", exact " << ex << " at probe " << t;
                std::string cls = (cfg.fam == F_GLOBAL || cfg.fam == F_SEQUENCE) ? "iexact" : (cfg.fam == F_FOURIER ? "iexact" : "affine");
                std::string ext = (cfg.fam == F_LOCALP || cfg.fam == F_WAVELET) ? ":order" + std::to_string(cfg.order) : "";
                report(c, "C03:" + cls + ":" + rname + ext + ":evaluate", cfg, hist + " load(space)", o.str()); return;
            }
        }
    }
    // transitions with values loaded: update(depth+1) leaves the surrogate of the old space intact while the refinement is pending,
    // and after the new values are loaded the (larger) space still contains the old members
    if ((cfg.fam == F_GLOBAL || cfg.fam == F_SEQUENCE) && cfg.depth <= 2 && !is_exotic(cfg)){
        for(int stage = 0; stage < 2; stage++){
            try{
                if (stage == 0){ g.updateGrid(cfg.depth + 1, cfg.type, cfg.aw); c.transitions++; if (g.getNumNeeded() == 0) break; }
                else { auto xn = g.getNeededPoints(); int nn = g.getNumNeeded(); if (nn > 2500) break; std::vector<double> vn((size_t) nn * outs); for(int i=0;i<nn;i++) for(size_t s2=0;s2<sel.size();s2++) vn[(size_t) i*outs + s2] = f(&xn[(size_t) i*d], s2, 0); g.loadNeededValues(vn); c.transitions++; }
            }catch(std::runtime_error &e){ std::string w = e.what(); if (w.find("hardcoded") != std::string::npos || w.find("are provided") != std::string::npos || w.find("table ends") != std::string::npos) break; report(c, "C03:update-with-values-throws:" + rname, cfg, hist + " load(space) update", w); return; }
            c.states++;
            for(size_t t=0;t<P.size();t++){ std::vector<double> y; g.evaluate(P[t], y);
                // conditioning of this state: sum_i |w_i(x)| |v_i| and the Lebesgue sum over the loaded points (the surrogate only uses those)
                auto iw2 = g.getInterpolationWeights(P[t]); const double *lv = g.getLoadedValues(); int nl = g.getNumLoaded();
                for(int k=0;k<outs;k++){ double ex = f(P[t].data(), (size_t) k, 0); c.evals++;
                    double sa = 0, leb = 0; for(int i=0;i<nl;i++){ sa += std::abs(iw2[i] * lv[(size_t) i*outs + k]); leb += std::abs(iw2[i]); }
                    if (!(std::abs(y[k] - ex) <= 100 * tol * std::max(1.0, std::max(sa, std::abs(ex))) + 4.0 * leb * degree_of((size_t) k) * pert)){
                        std::ostringstream o; o.precision(15); o << "member ("; for(int j=0;j<d;j++) o << sel[k][j] << (j+1<d?",":""); o << ") after " << (stage == 0 ? "update(depth+1) with the refinement pending" : "update(depth+1) and loading the new values") << ": evaluate() gives " << y[k] << ", exact " << ex << " at probe " << t;
                        report(c, "C03:iexact:" + rname + ":evaluate-after-update", cfg, hist + " load(space) update(depth+1)" + (stage ? " load" : ""), o.str()); return; } } }
        }
    }
}

// ---------------------------------------------------------------- transitions (depth 1)
// very deep one dimensional grids (tens of thousands of points): index arithmetic that is harmless on the small grids of the lattice can overflow here
// (the integer offset r (N+1)/2 in the Fourier interpolation weights did for N = 3^10). Only the O(N) routes are exercised: interpolation weights at a few
// points must sum to one and reproduce low and high members of the space; tolerance 1e-6 (recursively built phase tables lose digits with N).
static void explore_deep(Ctx &c, const Cfg &cfg){
    TasmanianSparseGrid g; make(g, cfg); c.states++; int n = g.getNumPoints(); auto pts = g.getPoints();
    std::vector<double> xs = {0.3137, 0.50123, 0.999, pts[(size_t) n / 3], pts[(size_t) n - 1]};
    if (cfg.fam != F_FOURIER) for(size_t q=0;q<3;q++) xs[q] = 2.0 * xs[q] - 1.0; // the first three are given in [0,1] units, the others are nodes
    std::vector<int> modes; if (cfg.fam == F_FOURIER){ modes = {0, 1, 2, 7, (n - 1) / 4, (n - 1) / 2}; } else modes = {0, 1};
    for(double x : xs){
        std::vector<double> w; try{ w = g.getInterpolationWeights(std::vector<double>{x}); }catch(std::exception &e){ report(c, std::string("C03:deep:weights-throw:") + famname(cfg.fam), cfg, "make", e.what()); return; }
        double sw = 0, sa = 0; for(int i=0;i<n;i++){ sw += w[i]; sa += std::abs(w[i]); } c.evals++; c.transitions++;
        if (!(std::abs(sw - 1.0) <= 1e-6 * std::max(1.0, sa))){ std::ostringstream o; o.precision(15); o << "interpolation weights at x = " << x << " sum to " << sw << " (" << n << " points, sum |w| = " << sa << ")"; report(c, std::string("C03:deep:weights-sum:") + famname(cfg.fam), cfg, "make", o.str()); return; }
        for(int k : modes) for(int part = 0; part < (cfg.fam == F_FOURIER ? 2 : 1); part++){
            auto f = [&](double t)->double{ if (cfg.fam == F_FOURIER) return part ? std::sin(2.0 * M_PI * k * t) : std::cos(2.0 * M_PI * k * t); return k ? 0.3 + 0.7 * t : 1.0; };
            double s = 0; for(int i=0;i<n;i++) s += w[i] * f(pts[i]); c.evals++;
            if (!(std::abs(s - f(x)) <= 1e-6 * std::max(1.0, sa))){ std::ostringstream o; o.precision(15); o << "member " << (cfg.fam == F_FOURIER ? (part ? "sin " : "cos ") : "degree ") << k << ": weights . values = " << s << ", exact " << f(x) << " at x = " << x << " (" << n << " points)"; report(c, std::string("C03:deep:iexact:") + famname(cfg.fam), cfg, "make", o.str()); return; }
        }
    }
    c.distinct.insert(vf::digest(cfg.str()).substr(0, 8));
}

static void explore_cfg(Ctx &c, const Cfg &cfg){
    if (cfg.custom == "deep1d"){ explore_deep(c, cfg); return; }
    TasmanianSparseGrid g;
    // a depth beyond a hard-coded / custom table is documented to throw std::runtime_error: such configurations are outside the lattice
    auto table_limit = [](const std::string &w){ return w.find("hardcoded") != std::string::npos || w.find("are provided") != std::string::npos || w.find("table ends") != std::string::npos; };
    try{ make2(g, cfg); }catch(std::runtime_error &e){ if (table_limit(e.what())){ c.skipped++; return; } report(c, g_prop + ":make-throws:" + std::string(IO::getRuleString(cfg.rule)), cfg, "make", e.what()); return; }
    catch(std::exception &e){ report(c, g_prop + ":make-throws:" + std::string(IO::getRuleString(cfg.rule)), cfg, "make", e.what()); return; }
    if (g.getNumPoints() > ((cfg.fam == F_FOURIER) ? 800 : 2500)){ c.skipped++; return; }
    c.states++;
    check_state(c, cfg, g, "make");
    if (g_prop == "C03"){ try{ check_loaded_route(c, cfg, "make"); }catch(std::exception &e){ report(c, "C03:loaded-route-throws:" + std::string(IO::getRuleString(cfg.rule)), cfg, "make load(space)", e.what()); } }
    if (cfg.fam == F_LOCALP || cfg.fam == F_WAVELET) return;
    // transition 1: update(depth+1) on the point-only grid
    if (cfg.depth <= 3){
        try{
            TasmanianSparseGrid h; make2(h, cfg); h.updateGrid(cfg.depth + 1, cfg.type, cfg.aw); c.transitions++;
            if (h.getNumPoints() <= ((cfg.fam == F_FOURIER) ? 800 : 2500)){ c.states++; check_state(c, cfg, h, "make update(depth+1)"); }
        }catch(std::runtime_error &e){ if (!table_limit(e.what())) report(c, g_prop + ":update-throws:" + std::string(IO::getRuleString(cfg.rule)), cfg, "make update(depth+1)", e.what()); else c.skipped++;
        }catch(std::exception &e){ report(c, g_prop + ":update-throws:" + std::string(IO::getRuleString(cfg.rule)), cfg, "make update(depth+1)", e.what()); }
    }
    // transition 2: (C02) load, update(depth+1), load => merged grid with values; integrate = weights.values
    if (g_prop == "C02" && cfg.depth <= 2 && !(cfg.fam == F_GLOBAL && OneDimensionalMeta::isNonNested(cfg.rule) && false)){
        try{
            Cfg c1 = cfg; c1.outs = 2; TasmanianSparseGrid h; make2(h, c1);
            int kind = (cfg.fam == F_FOURIER) ? 4 : (unbounded(cfg.rule) ? 1 : 0);
            h.loadNeededValues(model_values(kind, h.getNeededPoints(), cfg.dims, 2)); c.transitions++; c.states++;
            check_state(c, cfg, h, "make(outs=2) load");
            h.updateGrid(cfg.depth + 1, cfg.type, cfg.aw); c.transitions++;
            // values loaded and a refinement pending: weights, points and the declared space all still describe the loaded points
            if (h.getNumNeeded() > 0 && h.getNumLoaded() > 0){ c.states++; check_state(c, cfg, h, "make(outs=2) load update(depth+1) [refinement pending]"); }
            if (h.getNumNeeded() > 0 && h.getNumNeeded() < 2500){
                if (cfg.fam == F_GLOBAL && OneDimensionalMeta::isNonNested(cfg.rule)){ /* non-nested: loading replaces the grid, values at all points are required */ }
                h.loadNeededValues(model_values(kind, h.getNeededPoints(), cfg.dims, 2)); c.transitions++; c.states++;
                check_state(c, cfg, h, "make(outs=2) load update(depth+1) load");
            }
        }catch(std::runtime_error &e){ if (!table_limit(e.what())) report(c, "C02:history-throws:" + std::string(IO::getRuleString(cfg.rule)), cfg, "make(outs=2) load update load", e.what()); else c.skipped++;
        }catch(std::exception &e){ report(c, "C02:history-throws:" + std::string(IO::getRuleString(cfg.rule)), cfg, "make(outs=2) load update load", e.what()); }
    }
}

// ---------------------------------------------------------------- lattice
static std::vector<TypeOneDRule> global_rules(){ return {rule_clenshawcurtis, rule_clenshawcurtis0, rule_fejer2, rule_chebyshev, rule_chebyshevodd, rule_leja, rule_lejaodd, rule_rleja, rule_rlejadouble2, rule_rlejadouble4,
    rule_rlejaodd, rule_rlejashifted, rule_rlejashiftedeven, rule_rlejashifteddouble, rule_maxlebesgue, rule_maxlebesgueodd, rule_minlebesgue, rule_minlebesgueodd, rule_mindelta, rule_mindeltaodd,
    rule_gausslegendre, rule_gausslegendreodd, rule_gausspatterson, rule_gausschebyshev1, rule_gausschebyshev1odd, rule_gausschebyshev2, rule_gausschebyshev2odd, rule_gaussgegenbauer, rule_gaussgegenbauerodd,
    rule_gaussjacobi, rule_gaussjacobiodd, rule_gausslaguerre, rule_gausslaguerreodd, rule_gausshermite, rule_gausshermiteodd, rule_customtabulated}; }
static std::vector<TypeDepth> all_types(){ return {type_level, type_curved, type_hyperbolic, type_iptotal, type_qptotal, type_ipcurved, type_qpcurved, type_iphyperbolic, type_qphyperbolic, type_tensor, type_iptensor, type_qptensor}; }

struct Unit { int fam; TypeOneDRule rule; int dims; int order; };
static std::vector<Unit> units(){
    std::vector<Unit> u; bool th = (g_tier == "thorough");
    for(auto r : global_rules()) for(int d=1; d<=(th?3:2); d++) u.push_back({F_GLOBAL, r, d, 0});
    for(auto r : {rule_leja, rule_rleja, rule_rlejashifted, rule_maxlebesgue, rule_minlebesgue, rule_mindelta}) for(int d=1; d<=(th?3:2); d++) u.push_back({F_SEQUENCE, r, d, 0});
    for(int d=1; d<=(th?3:2); d++) u.push_back({F_FOURIER, rule_fourier, d, 0});
    if (g_prop == "C02") for(int v : {1, 2, 3}) for(int d=1; d<=2; d++) u.push_back({F_GLOBAL, rule_customtabulated, d, 100 + v}); // exotic quadrature (order field carries the variant)
    if (g_prop == "C03"){
        for(auto r : {rule_localp, rule_semilocalp, rule_localp0, rule_localpb}) for(int order : {-1, 0, 1, 2, 3, 4}) for(int d=1; d<=3; d++){ if (r == rule_semilocalp && order >= 0 && order < 2) continue; if (!th && d == 3 && !(order == 1 || order == 2)) continue; u.push_back({F_LOCALP, r, d, order}); } // 3-D: the Kronecker surplus algorithm
        for(int order : {1, 3}) for(int d=1; d<=2; d++) u.push_back({F_WAVELET, rule_wavelet, d, order});
        u.push_back({F_FOURIER, rule_fourier, 1, -99}); u.push_back({F_LOCALP, rule_localp, 1, -98}); // deep one dimensional grids
    }
    return u;
}
static std::string repo_root(){ const char *r = getenv("VERIF_REPO"); return r ? r : "/repo"; }

static std::vector<Cfg> unit_cfgs(const Unit &u){
    std::vector<Cfg> out; bool th = (g_tier == "thorough"); int d = u.dims;
    if (u.order == -99){ for(int depth : (th ? std::vector<int>{8, 9, 10} : std::vector<int>{9, 10})){ Cfg c; c.fam = F_FOURIER; c.rule = rule_fourier; c.dims = 1; c.outs = 0; c.depth = depth; c.custom = "deep1d"; out.push_back(c); } return out; }
    if (u.order == -98){ for(int depth : (th ? std::vector<int>{14, 15, 16} : std::vector<int>{15})) for(int order : {1, 2}){ Cfg c; c.fam = F_LOCALP; c.rule = rule_localp; c.dims = 1; c.outs = 0; c.depth = depth; c.order = order; c.custom = "deep1d"; out.push_back(c); } return out; }
    std::vector<std::vector<double>> AB = {{0, 0}};
    // parameter alphabet incl. the special values alpha = beta = 0 (Legendre), alpha + beta = -1 (removable singularity of the Jacobi recurrence), alpha = -1/2 (Chebyshev weight)
    if (usesAlpha(u.rule)){ AB = {{0.5, 1.5}, {0, 0}}; if (!unbounded(u.rule)) AB.push_back({-0.5, -0.5}); if (th){ AB.push_back({1.5, 0.5}); if (!unbounded(u.rule)) AB.push_back({-0.25, -0.75}); else { AB.push_back({2.0, 0}); AB.push_back({-0.5, 0}); } } }
    if (usesAlpha(u.rule) && !usesBeta(u.rule)) for(auto &ab : AB) ab[1] = 0;
    std::vector<int> trs = {0, 1}; if (g_prop == "C03" && !unbounded(u.rule)) trs.push_back(2); // 2: narrow domain far from the origin (round-off of the domain map moves nodes by ~1e-12 canonical units)
    std::vector<double> ta = {-0.7, 0.4, 1.0}, tb = {2.1, 3.0, 1.5}; const std::vector<double> ta2 = {1000.0, -3000.0, 0.125}, tb2 = {1000.5, -2999.0, 0.126};
    if (u.fam == F_LOCALP || u.fam == F_WAVELET){
        int maxdepth = (d == 1) ? 5 : (d == 2 ? 4 : 3); if (u.fam == F_WAVELET) maxdepth = (d == 1) ? 4 : 2;
        std::vector<std::vector<int>> LIM = {{}}; if (d >= 2){ std::vector<int> l(d, 2); l[0] = 1; LIM.push_back(l); }
        for(int depth=0; depth<=maxdepth; depth++) for(auto &lim : LIM) for(int tr : trs){
            Cfg c; c.fam = u.fam; c.rule = u.rule; c.dims = d; c.outs = 0; c.depth = depth; c.order = u.order; c.limits = lim;
            if (tr == 1){ c.ta.assign(ta.begin(), ta.begin()+d); c.tb.assign(tb.begin(), tb.begin()+d); } if (tr == 2){ c.ta.assign(ta2.begin(), ta2.begin()+d); c.tb.assign(tb2.begin(), tb2.begin()+d); } out.push_back(c); }
        // domains whose upper corner maps to 1 + 2e-16 in canonical coordinates ([0.5,3], [0.1,0.7]): the boundary belongs to the domain
        if (g_prop == "C03") for(int depth : {1, 2}){ Cfg c; c.fam = u.fam; c.rule = u.rule; c.dims = d; c.outs = 0; c.depth = std::min(depth, maxdepth); c.order = u.order;
            const double a3[3] = {0.5, 0.1, -2.0}, b3[3] = {3.0, 0.7, 1.0}; c.ta.assign(a3, a3 + d); c.tb.assign(b3, b3 + d); out.push_back(c); }
        return out;
    }
    std::vector<std::vector<int>> W1, Wc, LIM;
    if (d == 1){ W1 = {{}}; Wc = {{}, {2, 1}}; LIM = {{}, {2}}; }
    else if (d == 2){ W1 = {{}, {1,2}, {2,1}}; Wc = {{}, {1,2,1,0}, {2,1,0,1}}; LIM = {{}, {1,-1}, {2,1}, {0,3}}; }
    else { W1 = {{}, {1,2,3}}; Wc = {{}, {1,2,3,1,0,1}}; LIM = {{}, {1,-1,2}}; }
    int maxdepth = (d == 1) ? (th ? 6 : 5) : (d == 2 ? (th ? 4 : 3) : 2);
    if (u.rule == rule_customtabulated) maxdepth = std::min(maxdepth, (d == 1) ? 5 : 3);
    for(auto type : all_types()) for(int depth=0; depth<=maxdepth; depth++) for(size_t iw=0; iw<W1.size(); iw++) for(auto &lim : LIM) for(int tr : trs) for(auto &ab : AB){
        Cfg c; c.fam = u.fam; c.rule = u.rule; c.dims = d; c.outs = 0; c.depth = depth; c.type = type;
        c.aw = OneDimensionalMeta::isTypeCurved(type) ? Wc[iw] : W1[iw]; c.limits = lim; c.alpha = ab[0]; c.beta = ab[1];
        if (u.rule == rule_customtabulated) c.custom = (u.order > 100) ? "exotic:" + std::to_string(u.order - 100) : repo_root() + "/SparseGrids/GaussPattersonRule.table";
        if (u.order > 100 && (tr || depth > 4)) continue; // exotic rules: canonical domain, 6 tabulated levels
        if (tr == 2){ c.ta.assign(ta2.begin(), ta2.begin()+d); c.tb.assign(tb2.begin(), tb2.begin()+d); }
        if (tr == 1){ c.ta.assign(ta.begin(), ta.begin()+d); c.tb.assign(tb.begin(), tb.begin()+d); if (u.rule == rule_gausslaguerre || u.rule == rule_gausslaguerreodd || u.rule == rule_gausshermite || u.rule == rule_gausshermiteodd){ c.tb = std::vector<double>{2.0, 0.5, 1.25}; c.tb.resize(d); } }
        out.push_back(c);
    }
    // curved selection with a strongly negative logarithmic weight: the criterion i - 3 log(i+1) is not monotone, the selected indexes form a lower set only after
    // the completion step (selectGeneralSet); with level limits present as well (finite limits keep rules of exponential growth small)
    if (g_prop == "C03" && d == 2 && u.order <= 100) for(auto type : {type_curved, type_ipcurved, type_qpcurved}) for(int depth : (th ? std::vector<int>{2, 3, 4} : std::vector<int>{3})) for(auto &lim : std::vector<std::vector<int>>{{4, 5}, {3, 4}}) for(auto &ab : AB){
        Cfg c; c.fam = u.fam; c.rule = u.rule; c.dims = d; c.outs = 0; c.depth = depth; c.type = type; c.aw = {1, 1, -3, 0}; c.limits = lim; c.alpha = ab[0]; c.beta = ab[1];
        if (u.rule == rule_customtabulated) c.custom = repo_root() + "/SparseGrids/GaussPattersonRule.table";
        out.push_back(c);
    }
    return out;
}

int main(int argc, char **argv){
    vf::Args A(argc, argv);
    g_prop = A.get("--prop", "C02"); g_tier = A.get("--tier", "quick");
    double dl = A.getd("--deadline", 0); if (dl > 0) vf::g_deadline = vf::now() + dl;
    if (A.has("--replay")){
        std::string v = vf::slurp(A.get("--replay")); std::string cs = vf::jget(v, "case"); Cfg cfg = Cfg::parse(vf::jget(cs, "cfg"));
        Ctx c; c.unit = "replay"; c.replay = true;
        vf::Outcome o = vf::run_child([&](int fd){ Ctx cc; cc.unit = "replay"; explore_cfg(cc, cfg); vf::wr(fd, std::to_string(cc.nviol)); }, 300.0);
        if (o.kind != vf::Outcome::OK){ std::string cls = (o.kind == vf::Outcome::SANITIZER) ? o.sanitizer_class() : o.describe(); report(c, g_prop + ":crash:" + std::string(IO::getRuleString(cfg.rule)) + ":" + cls, cfg, "make; update; load", o.describe() + ": " + o.err.substr(0, 1500)); }
        vf::emit(vf::J().s("t","summary").s("replay", o.describe())); return 0;
    }
    auto U = units();
    size_t done = vf::parallel_units(U.size(), (int) A.geti("--workers", 8), [&](size_t ui){
        const Unit &u = U[ui]; Ctx c; std::ostringstream nm; nm << famname(u.fam) << "/" << IO::getRuleString(u.rule) << "/d" << u.dims; if ((u.fam == F_LOCALP || u.fam == F_WAVELET) && u.order > -90) nm << "/order" << u.order; if (u.order < -90) nm << "/deep"; if (u.order > 100) nm << "/exotic" << (u.order - 100); c.unit = nm.str();
        auto cfgs = unit_cfgs(u); bool complete = true; size_t k = 0; double t0 = vf::now(); int ncrash = 0;
        // configurations run in forked children, a chunk per child; the child reports one line per finished configuration,
        // so a crash / sanitizer report / hang is attributed to the configuration after the last finished one
        const size_t CH = 96;
        while(k < cfgs.size()){
            if (vf::past_deadline()){ complete = false; break; }
            if (ncrash >= 6){ vf::emit(vf::J().s("t","note").s("text", c.unit + ": stopped after 6 crashing configurations, " + std::to_string(cfgs.size() - k) + " configurations not run")); complete = false; break; }
            size_t start = k, end = std::min(cfgs.size(), k + CH);
            vf::Outcome o = vf::run_child([&](int fd){
                for(size_t q=start; q<end; q++){ if (vf::past_deadline()) break; Ctx cc; cc.unit = c.unit; cc.nviol = c.nviol; explore_cfg(cc, cfgs[q]); std::ostringstream r; r << "D " << cc.evals << " " << cc.states << " " << cc.transitions << " " << cc.skipped << " " << (cc.nviol - c.nviol); for(auto &dg : cc.distinct) r << " " << dg; r << "\n"; vf::wr(fd, r.str()); }
            }, 60.0 + 10.0 * (end - start));
            size_t ndone = 0; { std::istringstream in(o.out); std::string line; while(std::getline(in, line)){ if (line.empty() || line[0] != 'D' || (in.eof() && o.out.back() != '\n')) break; std::istringstream ls(line.substr(2)); long a=0,b=0,t=0,sk=0,nv=0; ls >> a >> b >> t >> sk >> nv; c.evals += a; c.states += b; c.transitions += t; c.skipped += sk; c.nviol += (int) nv; std::string dg; while(ls >> dg) c.distinct.insert(dg); ndone++; } }
            k = start + ndone;
            if (o.kind != vf::Outcome::OK && k < end){
                const Cfg &cfg = cfgs[k]; std::string cls = (o.kind == vf::Outcome::SANITIZER) ? o.sanitizer_class() : o.describe(); c.states++;
                report(c, g_prop + ":crash:" + std::string(IO::getRuleString(cfg.rule)) + ":" + cls, cfg, "make; update; load", o.describe() + ": " + o.err.substr(0, 1500)); k++; ncrash++;
            }else if (k < end && !vf::past_deadline()){ vf::emit(vf::J().s("t","error").s("what","child stopped early without failure")); k = end; }
        }
        vf::emit(vf::J().s("t","unit").s("unit", c.unit).i("states", c.states).i("transitions", c.transitions).i("execs", c.states).i("evals", c.evals).i("distinct", (long long) c.distinct.size()).i("skipped", c.skipped).i("violations", c.nviol).i("configs", (long long) k).n("wall", vf::now() - t0).b("complete", complete));
        if (k > 0) vf::emit(vf::J().s("t","sample").raw("case", vf::J().s("cfg", cfgs[k/2].str()).s("hist","make; update(depth+1); load...").str()));
        if (!complete) vf::emit(vf::J().s("t","incomplete").s("unit", c.unit));
    });
    vf::emit(vf::J().s("t","summary").i("units_total", (long long) U.size()).i("units_done", (long long) done).s("bound", g_prop + " lattice tier=" + g_tier + ", histories of depth <= 1 (C02: <= 3)").b("exhaustive", done == U.size() && !vf::past_deadline()));
    return 0;
}
