// scan_transform - C10: domain transforms act as an exact change of variables.   E-A at depth 0/1:
//   state       = (configuration, history); configurations: one or more rules per canonical domain ([-1,1] in every family, Fourier [0,1],
//                 Gauss-Laguerre, Gauss-Hermite, Gauss-Chebyshev 1/2, Gauss-Gegenbauer, Gauss-Jacobi) x dims x depth x (a,b) alphabet
//                 (3 vectors + "none") x conformal truncation (none + 3, unweighted [-1,1] rules only)
//   transitions = setDomainTransform / setConformalTransformASIN after make, load, change of transform, clearDomainTransform,
//                 set / clear conformal, write+read (binary, ascii); the grid under test and a canonical twin (never transformed, same
//                 values by point index) are driven in lock-step and the oracle is evaluated after every transition
//   oracle      = documented maps implemented in scan_deriv.hpp (own linear maps, own truncated asin series, bisection inverse),
//                 __float128 moments of the documented weight functions (copied from scan_exact.cpp)
#include "scan_deriv.hpp"
#include <quadmath.h>
using namespace sd;
typedef __float128 Q;

static std::string g_tier = "quick";
static const int MAXDEG = 36;
static const char *HIST_ALL = "make set(T); load; set(T'); clearDomainTransform; set/clear conformal; setDomainTransform(T); write/read";

// ---------------------------------------------------------------- moments of the documented weights (copied from scan_exact.cpp)
static Q lgq(double x){ return lgammaq((Q) x); }
static Q canon_moment(TypeOneDRule r, int k, double alpha, double beta){
    bool odd = (k % 2 == 1);
    switch(r){
        case rule_gausschebyshev1: case rule_gausschebyshev1odd: alpha = -0.5; if (odd) return 0; return expq(lgq((k+1)/2.0) + lgq(alpha+1.0) - lgq((k+1)/2.0 + alpha + 1.0));
        case rule_gausschebyshev2: case rule_gausschebyshev2odd: alpha =  0.5; if (odd) return 0; return expq(lgq((k+1)/2.0) + lgq(alpha+1.0) - lgq((k+1)/2.0 + alpha + 1.0));
        case rule_gaussgegenbauer: case rule_gaussgegenbauerodd: if (odd) return 0; return expq(lgq((k+1)/2.0) + lgq(alpha+1.0) - lgq((k+1)/2.0 + alpha + 1.0));
        case rule_gaussjacobi: case rule_gaussjacobiodd: {
            Q s = 0;
            for(int j=0;j<=k;j++){
                Q c = expq(lgq(k+1.0) - lgq(j+1.0) - lgq(k-j+1.0)) * powq((Q) 2, (Q) j) * (((k-j)%2==0) ? (Q) 1 : (Q) -1);
                s += c * expq(lgq(j+beta+1.0) + lgq(alpha+1.0) - lgq(j+alpha+beta+2.0));
            }
            return s * powq((Q) 2, (Q)(alpha+beta+1.0)); }
        case rule_gausslaguerre: case rule_gausslaguerreodd: return expq(lgq(k + alpha + 1.0));
        case rule_gausshermite: case rule_gausshermiteodd: if (odd) return 0; return expq(lgq((k + alpha + 1.0)/2.0));
        default: return odd ? (Q) 0 : (Q) 2 / (Q)(k + 1);
    }
}
// moment of x^k over the transformed domain with the weight documented in tsgEnumerates.hpp:  x = r t + s
static Q moment(TypeOneDRule rule, int k, double alpha, double beta, bool tr, double a, double b){
    if (!tr) return canon_moment(rule, k, alpha, beta);
    Q r, s, scale;
    if (rule == rule_gausslaguerre || rule == rule_gausslaguerreodd){ r = (Q) 1 / (Q) b; s = a; scale = powq((Q) b, (Q)(-(1.0 + alpha))); }
    else if (rule == rule_gausshermite || rule == rule_gausshermiteodd){ r = (Q) 1 / sqrtq((Q) b); s = a; scale = powq((Q) b, (Q)(-0.5 * (1.0 + alpha))); }
    else {
        r = ((Q) b - (Q) a) / 2; s = ((Q) b + (Q) a) / 2; double ea = 0, eb = 0;
        if (rule == rule_gausschebyshev1 || rule == rule_gausschebyshev1odd){ ea = eb = -0.5; }
        else if (rule == rule_gausschebyshev2 || rule == rule_gausschebyshev2odd){ ea = eb = 0.5; }
        else if (rule == rule_gaussgegenbauer || rule == rule_gaussgegenbauerodd){ ea = eb = alpha; }
        else if (rule == rule_gaussjacobi || rule == rule_gaussjacobiodd){ ea = alpha; eb = beta; }
        scale = powq(r, (Q)(ea + eb + 1.0));
    }
    Q sum = 0;
    for(int j=0;j<=k;j++){
        Q c = expq(lgq(k+1.0) - lgq(j+1.0) - lgq(k-j+1.0));
        sum += c * powq(r, (Q) j) * ((k-j == 0) ? (Q) 1 : powq(s, (Q)(k-j))) * canon_moment(rule, j, alpha, beta);
    }
    return sum * scale;
}
// documented factor between canonical and transformed quadrature weights in one direction (= transformed moment of degree 0 / canonical one)
static double weight_factor(const Cfg &c, int j){
    if (c.ta.empty()) return 1.0;
    if (c.fam == F_FOURIER) return c.tb[j] - c.ta[j];
    return (double)(moment(c.rule, 0, c.alpha, c.beta, true, c.ta[j], c.tb[j]) / canon_moment(c.rule, 0, c.alpha, c.beta));
}
static double ipow(double x, int k){ double r = 1.0; for(int i=0;i<k;i++) r *= x; return r; }
static bool weighted(TypeOneDRule r){ switch(r){ case rule_gausschebyshev1: case rule_gausschebyshev1odd: case rule_gausschebyshev2: case rule_gausschebyshev2odd: case rule_gaussgegenbauer: case rule_gaussgegenbauerodd:
    case rule_gaussjacobi: case rule_gaussjacobiodd: case rule_gausslaguerre: case rule_gausslaguerreodd: case rule_gausshermite: case rule_gausshermiteodd: return true; default: return false; } }
static bool usesAlpha(TypeOneDRule r){ return r == rule_gaussgegenbauer || r == rule_gaussgegenbauerodd || r == rule_gaussjacobi || r == rule_gaussjacobiodd || r == rule_gausslaguerre || r == rule_gausslaguerreodd || r == rule_gausshermite || r == rule_gausshermiteodd; }
static bool usesBeta(TypeOneDRule r){ return r == rule_gaussjacobi || r == rule_gaussjacobiodd; }

// class of the state: linear transforms are decided per rule (switch statements over the rule enum), the conformal code is rule-independent
static const Cfg *g_cfg0 = nullptr; // configuration whose history is being explored: recorded in every violation so that --replay re-runs the same history
static double g_eval_limit = 5.0; // wall-clock limit of the evaluation phase of a conformal+linear state (a normal phase takes milliseconds); 60 s in --replay, so that the driver's confirmation of an expiry is a long-limit run
static bool g_hang_seen = false; // per configuration: once a watchdog expired, later conformal+linear states skip their evaluation phase
static std::string ctag(const Cfg &e){ return e.conformal.empty() ? "" : (e.ta.empty() ? "conformal:" : "conformal+linear:"); }
static std::string pre(const Cfg &e, const char *what){ return "C10:" + ctag(e) + what + ":"; }

// ---------------------------------------------------------------- the oracle in one state
// G: grid under test, expected to carry exactly the transforms of E (E.ta/tb, E.conformal); C: canonical twin with the same values
static void check(Ctx &c, const Cfg &E, const TasmanianSparseGrid &G, const TasmanianSparseGrid &C, const std::string &hist){
    c.states++; c.execs++; add_distinct(c, G, E);
    int d = E.dims; int n = G.getNumPoints(); std::string fam = famname(E.fam);
    bool lin = !E.ta.empty(), conf = !E.conformal.empty(); std::string tag = conf ? fam : rtag(G); state_label(ctag(E) + tag); DomKind dk = (E.fam == F_FOURIER) ? K_FOURIER : domkind(E.rule);
    bool loaded = G.getNumLoaded() > 0 && G.getNumOutputs() > 0; int outs = G.getNumOutputs();
    bool wav = G.isWavelet(); bool nonnested = nonNestedGlobal(G);
    // under a conformal map the library's inverse is accurate to 1e-12 in x; global bases of degree n amplify that by up to n^2
    double tolE = conf ? 1e-8 : 1e-9; if (wav) tolE = 1e-7; if (conf && (G.isGlobal() || G.isSequence())) tolE = std::max(tolE, 2e-11 * (double) n * (double) n);
    std::vector<LinMap> M; for(int j=0;j<d;j++) M.push_back(linmap(E, j));
    Ctx *cp = &c; // the evaluation phase of a conformal+linear state runs in a watchdog child with a context of its own
    auto rep = [&](const std::string &sig, const std::string &detail){ report(*cp, sig, g_cfg0 ? *g_cfg0 : E, hist + " | transforms of the state: " + E.str().substr(E.str().find(";order=") + 1), detail); };
    auto cnt = [&](const char *k){ cp->evals++; cp->outcomes[ctag(E) + k + ":" + fam]++; };
    // ---- bookkeeping getters
    if (G.isSetDomainTransfrom() != lin || G.isSetConformalTransformASIN() != conf){ rep(pre(E, "flags") + tag, "isSetDomainTransfrom/isSetConformalTransformASIN = " + std::to_string(G.isSetDomainTransfrom()) + "/" + std::to_string(G.isSetConformalTransformASIN())); return; }
    if (lin){ std::vector<double> a, b; G.getDomainTransform(a, b); if (a != E.ta || b != E.tb){ rep(pre(E, "getter") + tag, "getDomainTransform() does not return the vectors that were set"); return; } }
    if (conf && G.getConformalTransformASIN() != E.conformal){ rep(pre(E, "getter") + tag, "getConformalTransformASIN() does not return the vector that was set"); return; }
    if (C.getNumPoints() != n){ rep(pre(E, "points-map") + tag, "transformed grid has " + std::to_string(n) + " points, canonical grid " + std::to_string(C.getNumPoints())); return; }
    // ---- A. points = documented map of the canonical points
    auto xp = G.getPoints(); auto tc = C.getPoints();
    {
        bool bad = false;
        auto cmp = [&](const std::vector<double> &x, const std::vector<double> &t, const char *which){
            for(size_t i=0;i<x.size() && !bad;i++){ int j = (int)(i % d); double ex = full_fwd(E, j, t[i]); double sc = std::max(std::abs(ex), lin ? std::max(std::abs(E.ta[j]), std::abs(E.tb[j])) : 1.0);
                cnt("points-map");
                if (!(std::abs(x[i] - ex) <= (conf ? 1e-13 : 8 * 2.3e-16) * std::max(sc, 1e-300))){ bad = true; std::ostringstream o; o.precision(17); o << which << " point " << i / d << " coordinate " << j << ": " << x[i] << ", documented map of canonical " << t[i] << " is " << ex; rep(pre(E, "points-map") + tag, o.str()); } } };
        cmp(xp, tc, "getPoints()");
        if (G.getNumLoaded() > 0) cmp(G.getLoadedPoints(), C.getLoadedPoints(), "getLoadedPoints()");
        if (G.getNumNeeded() > 0) cmp(G.getNeededPoints(), C.getNeededPoints(), "getNeededPoints()");
        if (bad) return;
    }
    // ---- B. quadrature weights = canonical x documented factor (x derivative of the conformal map at the canonical node)
    double factor = 1.0; for(int j=0;j<d;j++) factor *= weight_factor(E, j);
    auto w = G.getQuadratureWeights(); auto wc = C.getQuadratureWeights();
    {
        double sa = 0; for(int i=0;i<n;i++) sa = std::max(sa, std::abs(wc[i]));
        for(int i=0;i<n;i++){ double ex = wc[i] * factor; if (conf) for(int j=0;j<d;j++) ex *= asin_der(tc[(size_t) i*d+j], E.conformal[j]); cnt("quadrature-scale");
            if (!(std::abs(w[i] - ex) <= (conf ? 1e-11 : 1e-13) * std::max(std::abs(ex), sa * std::abs(factor)))){ std::ostringstream o; o.precision(17); o << "weight " << i << " = " << w[i] << ", canonical weight " << wc[i] << " x documented factor " << factor << (conf ? " x g'(t)" : "") << " = " << ex; rep(pre(E, "quadrature-scale") + tag, o.str()); break; } }
    }
    // exactness on the transformed domain with respect to the documented weight
    if (!conf && (G.isGlobal() || G.isSequence()) && G.getRule() != rule_chebyshev && G.getRule() != rule_chebyshevodd){
        auto qs = G.getGlobalPolynomialSpace(false); size_t ns = qs.size() / d; size_t step = std::max<size_t>(1, ns / 40);
        std::vector<size_t> sel; for(size_t s=0;s<ns;s+=step) sel.push_back(s); if (ns > 0 && sel.back() != ns - 1) sel.push_back(ns - 1);
        for(size_t s : sel){
            int maxdeg = 0; for(int j=0;j<d;j++) maxdeg = std::max(maxdeg, qs[s*d+j]);
            if (maxdeg > MAXDEG || (G.getRule() == rule_clenshawcurtis0)){ c.skipped++; continue; }
            Q exq = 1; double sum = 0, sa = 0;
            for(int j=0;j<d;j++) exq *= moment(E.rule, qs[s*d+j], E.alpha, E.beta, lin, lin ? E.ta[j] : 0, lin ? E.tb[j] : 0);
            for(int i=0;i<n;i++){ double v = w[i]; for(int j=0;j<d;j++) v *= ipow(xp[(size_t) i*d+j], qs[s*d+j]); sum += v; sa += std::abs(v); }
            double ex = (double) exq; cnt("quadrature-exact");
            if (!(std::abs(sum - ex) <= 1e-9 * std::max(factor, std::max(sa, std::abs(ex))))){ std::ostringstream o; o.precision(15); o << "monomial ("; for(int j=0;j<d;j++) o << qs[s*d+j] << (j+1<d?",":""); o << ") over the transformed domain: quadrature gives " << sum << ", exact integral with the documented weight " << ex; rep(pre(E, "quadrature-exact") + tag + (maxdeg == 0 ? ":measure" : ":monomial"), o.str()); break; }
        }
    }else if (!weighted(E.rule)){
        // measure (and the first moments for affine-reproducing piecewise rules); with a conformal map only when g' is integrated exactly
        bool ok_measure = true, ok_first = false;
        if (G.isLocalPolynomial()){ ok_measure = (G.getRule() != rule_localp0); ok_first = G.getOrder() != 0 && G.getRule() != rule_localp0 && E.depth >= 1; if (G.getOrder() != 0 && E.depth < 1 && G.getRule() == rule_localpb) ok_first = true; }
        if (G.isWavelet()) ok_first = true;
        if (conf){ ok_first = false; ok_measure = false;
            if (G.isGlobal() || G.isSequence()){ auto qs = G.getGlobalPolynomialSpace(false); for(size_t s=0;s<qs.size()/d;s++){ bool all = true; for(int j=0;j<d;j++) if (qs[s*d+j] < 2 * E.conformal[j]) all = false; if (all) ok_measure = true; } if (G.getRule() == rule_clenshawcurtis0 || G.getRule() == rule_chebyshev) ok_measure = false; } }
        if (G.isFourier() && conf) ok_measure = false;
        double vol = 1.0; for(int j=0;j<d;j++) vol *= (dk == K_FOURIER ? 1.0 : 2.0) * M[j].dxdt();
        if (ok_measure){ double s = 0, sa = 0; for(int i=0;i<n;i++){ s += w[i]; sa += std::abs(w[i]); } cnt("quadrature-exact");
            if (!(std::abs(s - vol) <= (wav ? 1e-7 : 1e-9) * std::max(vol, sa))){ std::ostringstream o; o.precision(15); o << "weights sum to " << s << ", volume of the transformed domain " << vol; rep(pre(E, "quadrature-exact") + tag + ":measure", o.str()); } }
        if (ok_first) for(int m=0;m<d;m++){ double s = 0, sa = 0; for(int i=0;i<n;i++){ s += w[i] * xp[(size_t) i*d+m]; sa += std::abs(w[i] * xp[(size_t) i*d+m]); } double ex = vol * M[m].fwd(dk == K_FOURIER ? 0.5 : 0.0); cnt("quadrature-exact");
            if (!(std::abs(s - ex) <= (wav ? 1e-7 : 1e-9) * std::max(vol, std::max(sa, std::abs(ex))))){ std::ostringstream o; o.precision(15); o << "integral of x_" << m << " over the transformed domain: quadrature gives " << s << ", exact " << ex; rep(pre(E, "quadrature-exact") + tag + ":monomial", o.str()); break; } }
    }
    // ---- C. integrals of the hierarchical functions = canonical x documented factor
    {
        auto I = G.integrateHierarchicalFunctions(); auto Ic = C.integrateHierarchicalFunctions(); double sa = 0; for(double v : Ic) sa = std::max(sa, std::abs(v));
        if (!conf) for(int i=0;i<n;i++){ double ex = Ic[i] * factor; cnt("basis-integrals");
            if (!(std::abs(I[i] - ex) <= 1e-13 * std::max(std::abs(ex), sa * std::abs(factor)))){ std::ostringstream o; o.precision(17); o << "integral of basis " << i << " = " << I[i] << ", canonical " << Ic[i] << " x documented factor " << factor << " = " << ex; rep(pre(E, "basis-integrals") + tag, o.str()); break; } }
        // documented identity (header): hierarchical coefficients . integrals == integrate()
        if (loaded){
            std::vector<double> q; G.integrate(q); const double *hc = G.getHierarchicalCoefficients(); const double *v = G.getLoadedValues(); int nl = G.getNumLoaded();
            for(int k=0;k<outs;k++){
                double s = 0, sa2 = 0, sw = 0, swa = 0; for(int i=0;i<nl;i++){ double p = I[i] * hc[(size_t) i*outs+k]; s += p; sa2 += std::abs(p); double pw = w[i] * v[(size_t) i*outs+k]; sw += pw; swa += std::abs(pw); }
                cnt("integrate");
                if (!(std::abs(q[k] - sw) <= tolE * std::max(std::abs(factor), swa))){ std::ostringstream o; o.precision(15); o << "integrate()[" << k << "] = " << q[k] << " but quadrature weights . values = " << sw; rep(pre(E, "integrate-vs-weights") + tag, o.str()); break; }
                cnt("basis-integrals-vs-integrate");
                if (!(std::abs(q[k] - s) <= tolE * std::max(std::abs(factor), std::max(sa2, swa)))){ std::ostringstream o; o.precision(15); o << "integrate()[" << k << "] = " << q[k] << " but hierarchical coefficients . integrateHierarchicalFunctions() = " << s << " (documented to be the same)"; rep(pre(E, "basis-integrals-vs-integrate") + tag, o.str()); break; }
            }
            if (lin && !conf){ std::vector<double> qc; C.integrate(qc); for(int k=0;k<outs;k++){ cnt("integrate"); if (!(std::abs(q[k] - qc[k] * factor) <= tolE * std::abs(factor) * std::max(1.0, std::abs(qc[k])))){ std::ostringstream o; o.precision(15); o << "integrate()[" << k << "] = " << q[k] << ", canonical " << qc[k] << " x documented factor " << factor; rep(pre(E, "integrate-scale") + tag, o.str()); break; } } }
        }
    }
    // ---- probes (canonical) and their images
    bool pwc = G.isLocalPolynomial() && G.getOrder() == 0;
    auto T = canonical_probes(E, pwc); std::vector<std::vector<double>> X;
    for(auto &t : T){ std::vector<double> x(d); for(int j=0;j<d;j++) x[j] = full_fwd(E, j, t[j]); X.push_back(x); }
    // ---- D. supports
    {
        auto S = G.getHierarchicalSupport(); auto Sc = C.getHierarchicalSupport();
        if ((int) S.size() != n * d){ rep(pre(E, "support-scale") + tag, "getHierarchicalSupport() has size " + std::to_string(S.size())); }
        else if (G.isLocalPolynomial() || G.isWavelet()){
            for(size_t i=0;i<S.size();i++){ int j = (int)(i % d); double ex = Sc[i] * M[j].dxdt(); cnt("support-scale");
                // a conformal map is not affine, so no symmetric length is exact: under a conformal map only the meaning of the support is tested (D' below)
                if (!conf && !(std::abs(S[i] - ex) <= 4 * 2.3e-16 * std::abs(ex))){ std::ostringstream o; o.precision(17); o << "support of basis " << i / d << " in direction " << j << " = " << S[i] << ", canonical " << Sc[i] << " x dx/dt " << M[j].dxdt() << " = " << ex; rep(pre(E, "support-scale") + tag, o.str()); break; } }
        }else{
            // Global / Sequence / Fourier: "support over the entire domain".  Bounded domains: the reported length must reach from every node to
            // both ends of the transformed domain.  Unbounded domains (Laguerre, Hermite): no finite length has that meaning, so the statement is
            // taken literally: the canonical length scales by the Jacobian dx/dt of the documented map (1/b, 1/sqrt(b)).
            bool bad = false;
            for(int i=0;i<n && !bad;i++) for(int j=0;j<d && !bad;j++){ cnt("support-scale");
                if (dk == K_STD || dk == K_FOURIER){ double lo = M[j].fwd(dk == K_FOURIER ? 0.0 : -1.0), hi = M[j].fwd(1.0); double node = conf ? M[j].fwd(asin_fwd(tc[(size_t) i*d+j], E.conformal[j])) : xp[(size_t) i*d+j]; double need = std::max(std::abs(node - lo), std::abs(hi - node));
                    if (!(S[(size_t) i*d+j] >= need * (1 - 1e-12))){ bad = true; std::ostringstream o; o.precision(15); o << "basis " << i << " of a grid with global support reports support " << S[(size_t) i*d+j] << " in direction " << j << ", but the domain extends to distance " << need << " from its node"; rep(pre(E, "support-scale") + tag, o.str()); } }
                else { double ex = Sc[(size_t) i*d+j] * M[j].dxdt();
                    if (!(std::abs(S[(size_t) i*d+j] - ex) <= 4 * 2.3e-16 * std::abs(ex))){ bad = true; std::ostringstream o; o.precision(15); o << "support of basis " << i << " in direction " << j << " = " << S[(size_t) i*d+j] << ", canonical " << Sc[(size_t) i*d+j] << " x dx/dt of the documented map " << M[j].dxdt() << " = " << ex; rep(pre(E, "support-scale") + tag, o.str()); } } }
        }
    }
    // ---- E. getDomainInside()
    {
        auto inside = G.getDomainInside(); bool bad = false;
        std::vector<double> lo(d), hi(d); // bounds of the transformed domain (+-inf when unbounded)
        for(int j=0;j<d;j++){ LinMap L = M[j]; if (dk == K_HERMITE){ lo[j] = -INFINITY; hi[j] = INFINITY; } else if (dk == K_LAGUERRE){ lo[j] = L.fwd(0.0); hi[j] = INFINITY; } else if (dk == K_FOURIER){ lo[j] = L.fwd(0.0); hi[j] = L.fwd(1.0); if (lin){ lo[j] = E.ta[j]; hi[j] = E.tb[j]; } } else { lo[j] = lin ? E.ta[j] : -1.0; hi[j] = lin ? E.tb[j] : 1.0; } }
        // all grid points (a point that sits on the boundary up to rounding is excused by the statement and only counted)
        for(int i=0;i<n && !bad;i++){ std::vector<double> x(xp.begin() + (size_t) i*d, xp.begin() + (size_t) (i+1)*d); cnt("domain-inside");
            if (!inside(x)){ bool rounding = false; for(int j=0;j<d;j++){ double ulp = 4 * 2.3e-16 * std::max(std::abs(lo[j]) < 1e300 ? std::abs(lo[j]) : 0.0, std::max(std::abs(hi[j]) < 1e300 ? std::abs(hi[j]) : 0.0, 1e-300)); if ((x[j] < lo[j] && x[j] >= lo[j] - ulp) || (x[j] > hi[j] && x[j] <= hi[j] + ulp)) rounding = true; }
                if (rounding){ c.outcomes["domain-inside:boundary-node-rejected-by-rounding:" + fam]++; continue; }
                bad = true; std::ostringstream o; o.precision(17); o << "grid point " << i << " (" << x[0] << (d > 1 ? ",..." : "") << ") is rejected by getDomainInside()"; rep(pre(E, "domain-inside:rejects-grid-point") + tag, o.str()); } }
        // interior probes
        for(size_t p=0;p<X.size() && !bad;p++){ cnt("domain-inside"); if (!inside(X[p])){ bad = true; std::ostringstream o; o.precision(17); o << "interior probe (" << X[p][0] << (d > 1 ? ",..." : "") << ") is rejected by getDomainInside()"; rep(pre(E, "domain-inside:rejects-interior") + tag, o.str()); } }
        // corners of bounded domains, far points of unbounded ones
        for(int m=0; m<(1<<d) && !bad; m++){ std::vector<double> x(d); for(int j=0;j<d;j++){ bool up = (m >> j) & 1; double far = (dk == K_LAGUERRE || dk == K_HERMITE) ? M[j].fwd(up ? 40.0 : (dk == K_HERMITE ? -40.0 : 0.0)) : 0; x[j] = up ? (std::isinf(hi[j]) ? far : hi[j]) : (std::isinf(lo[j]) ? far : lo[j]); }
            cnt("domain-inside"); if (!inside(x)){ bad = true; std::ostringstream o; o.precision(17); o << "corner / far point (" << x[0]; for(int j=1;j<d;j++) o << "," << x[j]; o << ") of the transformed domain is rejected by getDomainInside()"; rep(pre(E, "domain-inside:rejects-interior") + tag, o.str()); } }
        // one coordinate just outside, the others at an interior probe
        for(int j=0;j<d && !bad;j++) for(int side=0; side<2 && !bad; side++){
            double bnd = side ? hi[j] : lo[j]; if (std::isinf(bnd)) continue;
            double len = std::isinf(hi[j]) || std::isinf(lo[j]) ? M[j].dxdt() : hi[j] - lo[j]; double eps = 1e-9 * std::max(std::abs(len), std::abs(bnd) * 1e-3);
            for(double mult : {1.0, 1e6}){ std::vector<double> x = X[0]; x[j] = side ? bnd + mult * eps : bnd - mult * eps; cnt("domain-inside");
                if (inside(x)){ bad = true; std::ostringstream o; o.precision(17); o << "point with coordinate " << j << " = " << x[j] << " (bound " << bnd << (side ? " + " : " - ") << mult * eps << ") is accepted by getDomainInside()"; rep(pre(E, "domain-inside:accepts-outside") + tag, o.str()); break; } } }
    }
    auto eval_phase = [&](){
    // ---- F. interpolation weights: pulled back, and the delta property at the mapped nodes
    {
        bool bad = false;
        auto pullback = [&]()->std::string{
            for(size_t p=0;p<X.size();p++){ auto iw = G.getInterpolationWeights(X[p]); auto iwc = C.getInterpolationWeights(T[p]); double sa = 0; for(double v : iwc) sa += std::abs(v);
                for(int i=0;i<n;i++){ if (!(std::abs(iw[i] - iwc[i]) <= tolE * std::max(1.0, sa))){ std::ostringstream o; o.precision(15); o << "interpolation weight " << i << " at probe " << p << " (x = " << X[p][0] << (d > 1 ? ",..." : "") << "): " << iw[i] << ", canonical grid at the pulled-back point (t = " << T[p][0] << (d > 1 ? ",..." : "") << "): " << iwc[i]; return o.str(); } } }
            return ""; };
        cp->evals += (long) X.size() * n; cp->outcomes[ctag(E) + "weights-pullback:" + fam] += (long) X.size() * n;
        std::string res = pullback();
        if (!res.empty()){ rep(pre(E, "weights-pullback") + tag, res); if (conf && lin) return; bad = true; }
        if (!nonnested && !(G.isLocalPolynomial() && G.getOrder() == 0) && n <= 400){
            int stride = std::max(1, n / 24);
            for(int i=0;i<n && !bad;i+=stride){ std::vector<double> x(xp.begin() + (size_t) i*d, xp.begin() + (size_t)(i+1)*d); auto iw = G.getInterpolationWeights(x); double sa = 0; for(double v : iw) sa += std::abs(v);
                for(int q=0;q<n && !bad;q++){ cnt("weights-delta"); double ex = (q == i) ? 1.0 : 0.0;
                    if (!(std::abs(iw[q] - ex) <= std::max(wav ? 1e-6 : 1e-8, tolE) * std::max(1.0, sa))){ bad = true; std::ostringstream o; o.precision(15); o << "interpolation weight " << q << " at the mapped node " << i << " (" << x[0] << (d > 1 ? ",..." : "") << ") is " << iw[q] << ", expected " << ex; rep(pre(E, "weights-delta") + tag, o.str()); } } }
        }
    }
    // ---- D'. meaning of the support under a conformal map (header): a basis function vanishes at any x farther from its node than the support
    if (conf && (G.isLocalPolynomial() || G.isWavelet()) && G.getRule() != rule_semilocalp){
        auto S = G.getHierarchicalSupport(); bool bad = false;
        for(size_t p=0;p<X.size() && !bad;p++){ auto y = G.evaluateHierarchicalFunctions(X[p]);
            for(int i=0;i<n && !bad;i++){ bool far = false; for(int j=0;j<d;j++) if (std::abs(X[p][j] - xp[(size_t) i*d+j]) > S[(size_t) i*d+j] * (1 + 1e-9)) far = true; if (!far) continue; cnt("support-meaning");
                if (y[i] != 0.0){ bad = true; std::ostringstream o; o.precision(15); o << "basis " << i << " (node " << xp[(size_t) i*d] << (d > 1 ? ",..." : "") << ", reported support " << S[(size_t) i*d] << ") has value " << y[i] << " at probe " << X[p][0] << (d > 1 ? ",..." : "") << " which is farther than the support"; rep(pre(E, "support-meaning") + tag, o.str()); } } }
    }
    // ---- D''. the same meaning, probed where it is tight: just outside the reported support of every basis function, in every direction (a conformal map stretches
    // lengths most at the ends of the domain: a radius computed with too small a factor is too short exactly for the narrow functions next to the boundary)
    if (conf && (G.isLocalPolynomial() || G.isWavelet()) && G.getRule() != rule_semilocalp && n <= 600){
        auto S = G.getHierarchicalSupport(); bool bad = false; int stride = std::max(1, n / 150);
        std::vector<double> lo((size_t) d, -1.0), hi((size_t) d, 1.0); if (!E.ta.empty()) for(int j=0;j<d;j++){ lo[(size_t) j] = E.ta[(size_t) j]; hi[(size_t) j] = E.tb[(size_t) j]; }
        for(int i=0;i<n && !bad;i+=stride) for(int j=0;j<d && !bad;j++) for(int sgn : {-1, 1}){
            std::vector<double> x(xp.begin() + (size_t) i*d, xp.begin() + (size_t)(i+1)*d); double r = S[(size_t) i*d+j]; x[(size_t) j] += sgn * r * (1.0 + 1e-6);
            if (x[(size_t) j] < lo[(size_t) j] || x[(size_t) j] > hi[(size_t) j]) continue;
            auto y = G.evaluateHierarchicalFunctions(x); cnt("support-meaning");
            if (y[(size_t) i] != 0.0){ bad = true; std::ostringstream o; o.precision(15); o << "basis " << i << " (node " << xp[(size_t) i*d+j] << " in direction " << j << ", reported support " << r << ") has value " << y[(size_t) i] << " at distance " << r * (1.0 + 1e-6) << " from its node";
                rep(pre(E, "support-meaning") + tag, o.str()); break; }
        }
    }
    if (!loaded) return;
    // ---- G. evaluate = canonical surrogate at the pulled-back point; nodal reproduction at the mapped nodes
    const double *v = G.getLoadedValues(); int nl = G.getNumLoaded();
    {
        bool bad = false;
        std::vector<double> xb, yb; for(auto &x : X) xb.insert(xb.end(), x.begin(), x.end()); G.evaluateBatch(xb, yb);
        for(size_t p=0;p<X.size() && !bad;p++){ std::vector<double> y, yc; G.evaluate(X[p], y); C.evaluate(T[p], yc); auto iwc = C.getInterpolationWeights(T[p]);
            for(int k=0;k<outs && !bad;k++){ double S = 0; for(int i=0;i<nl;i++) S += std::abs(iwc[i] * v[(size_t) i*outs+k]); cnt("evaluate-pullback");
                if (!(std::abs(y[k] - yc[k]) <= tolE * std::max(1.0, S))){ bad = true; std::ostringstream o; o.precision(15); o << "output " << k << " at probe " << p << ": evaluate = " << y[k] << ", canonical surrogate at the pulled-back point = " << yc[k]; rep(pre(E, "evaluate-pullback") + tag, o.str()); }
                else if (!(std::abs(yb[p*outs+k] - y[k]) <= 1e-12 * std::max(1.0, S))){ bad = true; std::ostringstream o; o.precision(15); o << "output " << k << " at probe " << p << ": evaluateBatch = " << yb[p*outs+k] << ", evaluate = " << y[k]; rep(pre(E, "evaluate-batch") + tag, o.str()); } } }
        if (!nonnested && !bad){
            int stride = std::max(1, nl / 48); auto xl = G.getLoadedPoints();
            for(int i=0;i<nl && !bad;i+=stride){ std::vector<double> x(xl.begin() + (size_t) i*d, xl.begin() + (size_t)(i+1)*d), y; G.evaluate(x, y); double vm = 0; for(int q=0;q<nl*outs;q++) vm = std::max(vm, std::abs(v[q]));
                for(int k=0;k<outs && !bad;k++){ cnt("nodal");
                    if (!(std::abs(y[k] - v[(size_t) i*outs+k]) <= (wav ? 1e-6 : 1e-8) * std::max(1.0, vm * (G.isGlobal() || G.isSequence() ? (double) nl : 1.0)))){ bad = true; std::ostringstream o; o.precision(15); o << "evaluate at the mapped node " << i << " (" << x[0] << (d > 1 ? ",..." : "") << ") gives " << y[k] << " for output " << k << ", loaded value " << v[(size_t) i*outs+k]; rep(pre(E, "nodal") + tag, o.str()); } } }
        }
    }
    // ---- H. gradients scale by the Jacobian (linear); with a conformal map differentiate() must either refuse or be the gradient of evaluate()
    {
        bool bad = false;
        for(size_t p=0;p<X.size() && !bad;p++){
            std::vector<double> Dg, Dc; C.differentiate(T[p], Dc); auto dwc = C.getDifferentiationWeights(T[p]);
            bool threw = false; std::string msg;
            try{ G.differentiate(X[p], Dg); }catch(std::runtime_error &e){ threw = true; msg = e.what(); }
            if (conf){
                cnt("differentiate"); if (threw){ cp->outcomes[ctag(E) + "differentiate-refused:" + fam]++; continue; }
                for(int k=0;k<outs && !bad;k++) for(int j=0;j<d && !bad;j++){
                    double ex = Dc[k*d+j] / (asin_der(T[p][j], E.conformal[j]) * M[j].dxdt()); double sa = 0; for(int i=0;i<nl;i++) sa += std::abs(dwc[(size_t) i*d+j] * v[(size_t) i*outs+k]);
                    if (!(std::abs(Dg[k*d+j] - ex) <= 1e-6 * std::max(1.0, sa) / M[j].dxdt())){ bad = true; std::ostringstream o; o.precision(15); o << "differentiate() does not refuse a conformal grid and returns " << Dg[k*d+j] << " for output " << k << " direction " << j << " at probe " << p << "; the derivative of evaluate() there is " << ex << " (canonical gradient " << Dc[k*d+j] << " / (g'(t) dx/dt))"; rep(pre(E, "differentiate") + tag, o.str()); } }
                continue;
            }
            if (threw){ bad = true; rep(pre(E, "gradient-scale") + tag, "differentiate() throws: " + msg); break; }
            auto dw = G.getDifferentiationWeights(X[p]);
            for(int k=0;k<outs && !bad;k++) for(int j=0;j<d && !bad;j++){ double J = M[j].dtdx(); double ex = Dc[k*d+j] * J; double sa = 0; for(int i=0;i<nl;i++) sa += std::abs(dwc[(size_t) i*d+j] * v[(size_t) i*outs+k]) * J; cnt("gradient-scale");
                if (!(std::abs(Dg[k*d+j] - ex) <= tolE * std::max(J, sa))){ bad = true; std::ostringstream o; o.precision(15); o << "output " << k << " direction " << j << " at probe " << p << ": gradient " << Dg[k*d+j] << ", canonical gradient " << Dc[k*d+j] << " x documented Jacobian " << J << " = " << ex; rep(pre(E, "gradient-scale") + tag, o.str()); } }
            for(int i=0;i<nl && !bad;i++) for(int j=0;j<d && !bad;j++){ double J = M[j].dtdx(); double ex = dwc[(size_t) i*d+j] * J; cnt("diff-weights-scale");
                if (!(std::abs(dw[(size_t) i*d+j] - ex) <= tolE * std::max(1.0, std::abs(ex)) * (1 + (G.isGlobal() || G.isSequence() ? nl : 0)))){ bad = true; std::ostringstream o; o.precision(15); o << "differentiation weight " << i << " direction " << j << " at probe " << p << ": " << dw[(size_t) i*d+j] << ", canonical " << dwc[(size_t) i*d+j] << " x documented Jacobian " << J; rep(pre(E, "diff-weights-scale") + tag, o.str()); } }
        }
    }
    };
    if (conf && lin){
        // every x-taking call runs the library's Newton inverse of the conformal map, which has no iteration cap: watchdog child
        if (g_hang_seen){ c.skipped++; return; }
        vf::Outcome o = vf::run_child([&](int fd){ Ctx cc; cc.unit = c.unit; cp = &cc; g_signew.clear(); eval_phase(); vf::wr(fd, pack(cc)); }, g_eval_limit);
        if (o.kind == vf::Outcome::TIMEOUT){ g_hang_seen = true; c.outcomes["conformal+linear:hang:" + fam]++; rep(pre(E, "hang") + tag, "an x-taking call (getInterpolationWeights / evaluate / evaluateHierarchicalFunctions at interior probes and grid points) does not return within the watchdog (5 s, 60 s when replayed alone) (Newton inverse of the conformal map)"); return; }
        if (o.kind != vf::Outcome::OK || !merge(c, o.out)){ rep(pre(E, "crash") + tag, o.describe() + ": " + ((o.kind == vf::Outcome::SANITIZER) ? o.sanitizer_class() : "") + " " + o.err.substr(0, 800)); return; }
    }else eval_phase();
}

// ---------------------------------------------------------------- (a,b) alphabet and conformal alphabet
static void ab_alphabet(const Cfg &c, int idx, std::vector<double> &a, std::vector<double> &b){
    a.clear(); b.clear(); if (idx < 0) return; int d = c.dims; DomKind dk = (c.fam == F_FOURIER) ? K_FOURIER : domkind(c.rule);
    static const double A[3][3] = {{-0.7, 0.4, 1.0}, {2.0, -3.0, 0.0}, {-100.0, 1000.0, -1.0}};
    static const double B[3][3] = {{2.1, 3.0, 1.5}, {2.5, -1.0, 0.01}, {300.0, 1001.0, 1.0}};
    static const double AU[3][3] = {{-0.7, 0.4, 1.0}, {2.0, -3.0, 0.0}, {10.0, -100.0, 0.5}};
    static const double BU[3][3] = {{2.0, 0.5, 1.25}, {0.25, 4.0, 1.0}, {9.0, 100.0, 0.01}};
    bool ub = (dk == K_LAGUERRE || dk == K_HERMITE);
    for(int j=0;j<d;j++){ a.push_back(ub ? AU[idx][j] : A[idx][j]); b.push_back(ub ? BU[idx][j] : B[idx][j]); }
}
static std::vector<int> conf_alphabet(int d, int idx){
    if (idx < 0) return {}; static const int CF[3][3] = {{1, 1, 1}, {3, 3, 3}, {2, 4, 1}}; std::vector<int> r; for(int j=0;j<d;j++) r.push_back(CF[idx][j]); if (idx == 2 && d == 1) r[0] = 6; return r;
}
static bool conformal_applies(const Cfg &c){ return c.fam != F_FOURIER && domkind(c.rule) == K_STD && !weighted(c.rule); }

static bool same_obs(Ctx &c, const Cfg &E, const TasmanianSparseGrid &G, const TasmanianSparseGrid &F, const std::string &hist, const char *what){
    c.evals++; c.outcomes[std::string("history-independence:") + famname(E.fam)]++;
    if (obs(G) != obs(F) || G.getQuadratureWeights() != F.getQuadratureWeights()){ report(c, std::string("C10:history:") + what + ":" + rtag(G), g_cfg0 ? *g_cfg0 : E, hist + " | transforms of the state: " + E.str().substr(E.str().find(";order=") + 1), std::string("the observation (points, values, coefficients, transforms, quadrature weights) differs from that of a fresh grid built directly with the same transform (") + what + ")"); return false; }
    return true;
}

// ---------------------------------------------------------------- histories of one configuration
static int g_ab_index(const Cfg &cfg){ for(int i=0;i<3;i++){ std::vector<double> a, b; ab_alphabet(cfg, i, a, b); if (a == cfg.ta && b == cfg.tb) return i; } return -1; }

static void explore_cfg(Ctx &c, const Cfg &cfg){
    int d = cfg.dims; std::string hist = "make"; g_hang_seen = false; g_cfg0 = &cfg;
    Cfg can = cfg; can.ta.clear(); can.tb.clear(); can.conformal.clear();
    try{
        TasmanianSparseGrid G, C; make(G, cfg); make(C, can); c.transitions += 1 + (cfg.ta.empty() ? 0 : 1) + (cfg.conformal.empty() ? 0 : 1);
        if (G.getNumPoints() > 1200){ c.skipped++; return; }
        Cfg E = cfg; hist = "make set(T)"; check(c, E, G, C, hist);
        // load: values are a function of the canonical coordinates, the same array goes to both grids
        auto tn = C.getNeededPoints(); DomKind dk = (cfg.fam == F_FOURIER) ? K_FOURIER : domkind(cfg.rule);
        auto vals = model_values(dk == K_FOURIER ? 4 : 0, tn, d, cfg.outs);
        G.loadNeededValues(vals); C.loadNeededValues(vals); c.transitions++; hist += " load"; check(c, E, G, C, hist);
        // change of the linear transform
        int i0 = g_ab_index(cfg); int i1 = (i0 + 1) % 3; std::vector<double> a1, b1; ab_alphabet(cfg, i1, a1, b1);
        G.setDomainTransform(a1.data(), b1.data()); c.transitions++; E.ta = a1; E.tb = b1; hist += " setDomainTransform(T', raw-array overload)"; check(c, E, G, C, hist); // the other overload than make() used: both entry points have to reset whatever the grid derived from the old box
        { TasmanianSparseGrid F; make(F, E); F.loadNeededValues(vals); same_obs(c, E, G, F, hist, "change-of-transform"); }
        // clear the linear transform
        G.clearDomainTransform(); c.transitions++; E.ta.clear(); E.tb.clear(); hist += " clearDomainTransform"; check(c, E, G, C, hist);
        if (E.conformal.empty()) same_obs(c, E, G, C, hist, "clear-transform");
        // conformal: clear it if set, set one if applicable
        if (!E.conformal.empty()){ G.clearConformalTransform(); c.transitions++; E.conformal.clear(); hist += " clearConformalTransform"; check(c, E, G, C, hist); same_obs(c, E, G, C, hist, "clear-conformal"); }
        else if (conformal_applies(cfg)){ E.conformal = conf_alphabet(d, (cfg.depth + d) % 3); G.setConformalTransformASIN(E.conformal); c.transitions++; hist += " setConformalTransformASIN"; check(c, E, G, C, hist); }
        // the original linear transform again (on top of whatever conformal map is set now)
        if (!cfg.ta.empty()){ G.setDomainTransform(cfg.ta, cfg.tb); c.transitions++; E.ta = cfg.ta; E.tb = cfg.tb; hist += " setDomainTransform(T)"; check(c, E, G, C, hist);
            { TasmanianSparseGrid F; make(F, E); F.loadNeededValues(vals); same_obs(c, E, G, F, hist, "set-after-load"); } }
        // write / read keeps the transforms
        for(int bin=0; bin<2; bin++){
            std::stringstream ss; G.write(ss, bin != 0); TasmanianSparseGrid R; R.read(ss, bin != 0); c.transitions++;
            std::string h2 = hist + (bin ? " write/read(binary)" : " write/read(ascii)"); c.evals++; c.outcomes[std::string("write-read:") + famname(cfg.fam)]++;
            bool okflags = R.isSetDomainTransfrom() == !E.ta.empty() && R.isSetConformalTransformASIN() == !E.conformal.empty();
            if (okflags && !E.ta.empty()){ std::vector<double> a, b; R.getDomainTransform(a, b); okflags = (a == E.ta && b == E.tb); }
            if (okflags && !E.conformal.empty()) okflags = (R.getConformalTransformASIN() == E.conformal);
            if (!okflags || R.getPoints() != G.getPoints()){ report(c, "C10:" + ctag(E) + "write-read:" + (E.conformal.empty() ? rtag(G) : std::string(famname(E.fam))), cfg, h2, "the restored grid does not carry the same transforms / points"); }
            else if (bin) check(c, E, R, C, h2);
        }
    }catch(std::exception &e){ report(c, "C10:throws:" + rtag(cfg), cfg, hist, std::string("exception after '") + hist + "': " + e.what()); c.outcomes[std::string("throws:") + famname(cfg.fam)]++; }
}

// ---------------------------------------------------------------- lattice
struct U0 { int fam; TypeOneDRule rule; int dims; int order; };
static std::vector<Cfg> unit_cfgs(const U0 &u){
    std::vector<Cfg> out; bool th = (g_tier == "thorough"); int d = u.dims;
    std::vector<int> depths;
    if (u.fam == F_LOCALP) depths = (d == 1) ? std::vector<int>{1, 4} : (d == 2 ? std::vector<int>{2, 3} : std::vector<int>{2});
    else if (u.fam == F_WAVELET) depths = (d == 1) ? std::vector<int>{1, 3} : (d == 2 ? std::vector<int>{1, 2} : std::vector<int>{1});
    else if (u.fam == F_FOURIER) depths = (d == 1) ? std::vector<int>{1, 3} : (d == 2 ? std::vector<int>{1, 2} : std::vector<int>{2});
    else depths = (d == 1) ? std::vector<int>{2, 5} : (d == 2 ? std::vector<int>{1, 3} : std::vector<int>{2});
    if (th && d == 1) depths.push_back(0); if (th && d == 2) depths.push_back(0);
    std::vector<std::vector<double>> AB = {{0, 0}};
    if (usesAlpha(u.rule)){ AB = {{0.5, 1.5}}; if (th){ AB.push_back({0, 0}); AB.push_back({1.5, -0.5}); } }
    if (!usesBeta(u.rule)) for(auto &ab : AB) ab[1] = 0;
    for(int depth : depths) for(auto &ab : AB) for(int ia=-1; ia<3; ia++) for(int ic=-1; ic<3; ic++){
        Cfg c; c.fam = u.fam; c.rule = u.rule; c.dims = d; c.outs = 2; c.depth = depth; c.order = u.order; c.alpha = ab[0]; c.beta = ab[1];
        c.type = (u.fam == F_FOURIER || d == 1) ? type_level : ((depth % 2) ? type_iptotal : type_level);
        if (ic >= 0 && !conformal_applies(c)) continue;
        ab_alphabet(c, ia, c.ta, c.tb); c.conformal = conf_alphabet(d, ic);
        out.push_back(c);
    }
    return out;
}
static std::vector<UnitDef> units(){
    std::vector<U0> u; bool th = (g_tier == "thorough"); int maxd = th ? 3 : 2;
    // every rule with its own canonical domain in both of its variants (the -odd rules are separate enum values: a switch over the rule can forget one)
    std::vector<TypeOneDRule> gr = {rule_clenshawcurtis, rule_gausslegendre, rule_gausschebyshev1, rule_gausschebyshev2, rule_gaussgegenbauer, rule_gaussjacobi, rule_gausslaguerre, rule_gausshermite,
                                    rule_gausslaguerreodd, rule_gausshermiteodd, rule_gaussjacobiodd};
    if (th){ for(auto r : {rule_fejer2, rule_gausspatterson, rule_leja, rule_gausslegendreodd, rule_gausschebyshev1odd, rule_gausschebyshev2odd, rule_gaussgegenbauerodd}) gr.push_back(r); }
    for(auto r : gr) for(int d=1; d<=maxd; d++) u.push_back({F_GLOBAL, r, d, 0});
    for(auto r : th ? std::vector<TypeOneDRule>{rule_rleja, rule_minlebesgue} : std::vector<TypeOneDRule>{rule_rleja}) for(int d=1; d<=maxd; d++) u.push_back({F_SEQUENCE, r, d, 0});
    for(int d=1; d<=maxd; d++) u.push_back({F_FOURIER, rule_fourier, d, 0});
    if (th){ for(auto r : {rule_localp, rule_semilocalp, rule_localp0, rule_localpb}) for(int order : {-1, 0, 1, 2, 3, 4}) for(int d=1; d<=maxd; d++) u.push_back({F_LOCALP, r, d, order}); }
    else { for(int d=1; d<=maxd; d++){ u.push_back({F_LOCALP, rule_localp, d, 2}); u.push_back({F_LOCALP, rule_semilocalp, d, 3}); u.push_back({F_LOCALP, rule_localp0, d, 1}); u.push_back({F_LOCALP, rule_localpb, d, -1}); u.push_back({F_LOCALP, rule_localp, d, 0}); } }
    for(int order : {1, 3}) for(int d=1; d<=maxd; d++) u.push_back({F_WAVELET, rule_wavelet, d, order});
    std::vector<UnitDef> out;
    for(auto &x : u){ UnitDef ud; std::ostringstream nm; nm << famname(x.fam) << "/" << IO::getRuleString(x.rule) << "/d" << x.dims; if (x.fam == F_LOCALP || x.fam == F_WAVELET) nm << "/order" << x.order; ud.name = nm.str(); ud.cfgs = unit_cfgs(x); out.push_back(ud); }
    std::stable_sort(out.begin(), out.end(), [](const UnitDef &a, const UnitDef &b){ auto w = [](const UnitDef &q){ return (double) q.cfgs.size() * (q.cfgs.empty() ? 1 : q.cfgs[0].dims * q.cfgs[0].dims) * ((!q.cfgs.empty() && q.cfgs[0].fam == F_WAVELET) ? 8 : 1); }; return w(a) > w(b); });
    return out;
}

int main(int argc, char **argv){
    vf::Args A(argc, argv);
    g_tier = A.get("--tier", "quick");
    double dl = A.getd("--deadline", 0); if (dl > 0) vf::g_deadline = vf::now() + dl;
    if (A.has("--replay")){ g_eval_limit = 60.0; return run_replay("C10", A.get("--replay"), HIST_ALL, explore_cfg, 360.0); }
    auto U = units();
    if (A.has("--list")){ size_t n = 0; for(auto &u : U){ printf("%s %zu\n", u.name.c_str(), u.cfgs.size()); n += u.cfgs.size(); } printf("total %zu\n", n); return 0; }
    std::string bound = std::string("C10 lattice tier=") + g_tier + ": canonical-domain classes [-1,1] (global nested/non-nested, sequence, local polynomial, wavelet), Fourier, Laguerre, Hermite, Chebyshev 1/2, Gegenbauer, Jacobi; dims <= " +
        (g_tier == "thorough" ? "3" : "2") + "; (a,b) alphabet {none, 3 vectors}; conformal {none, (1..), (3..), (2,4,1)/(6)}; histories of 6-8 transitions (set, load, change, clear, conformal set/clear, set again, write/read x2)";
    run_all("C10", U, (int) A.geti("--workers", 8), bound, HIST_ALL, explore_cfg, 90.0);
    return 0;
}
