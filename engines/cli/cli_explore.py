#!/usr/bin/env python3
"""cli_explore - explicit-state search over tasgrid command scripts (property C16).

State       = the grid file produced so far, in one of the two grid-file formats
              (key = sha1 of the binary write() + sha1 of the ASCII write() of the same grid, plus the format of the stored file).
Initial     = -makeglobal/-makesequence/-makelocalpoly/-makewavelet/-makefourier over a small configuration lattice, x {binary, -ascii}.
Transition  = ONE invocation of the real (ASan+UBSan) tasgrid binary on that grid file with one command of the alphabet and
              tiny, deterministically generated arguments / input matrices.
Oracle      = build/<variant>/bin/cli_mirror performs the *documented* equivalent C++ API calls on the same input file:
              grid file bytes equal, result matrix equal, exit status non-zero iff the API throws, no crash / sanitizer report / hang,
              commands documented as read-only leave the grid file untouched.
Breadth-first, every script up to the depth bound, nothing sampled.  Extra depth-0 units: -makequadrature lattice,
documented command names / shorthands, documented option shorthands.
"""
import sys, os, json, subprocess, hashlib, time, threading, shutil, struct, math, re
from concurrent.futures import ThreadPoolExecutor

ROOT = os.path.dirname(os.path.dirname(os.path.dirname(os.path.abspath(__file__))))
T0 = time.time()
OUT_LOCK = threading.Lock()


def emit(rec):
    with OUT_LOCK:
        sys.stdout.write(json.dumps(rec) + "\n")
        sys.stdout.flush()


def arg(name, default=None):
    a = sys.argv[1:]
    return a[a.index(name) + 1] if name in a and a.index(name) + 1 < len(a) else default


TIER = arg("--tier", "quick")
DEADLINE = float(arg("--deadline", "0") or 0)
WORKERS = max(1, int(arg("--workers", "8")))
VARIANT = arg("--variant", "asan")
REPO = arg("--repo", os.environ.get("VERIF_REPO", "/repo"))
BROOT = arg("--broot", "build")
REPLAY = arg("--replay")
MAXDEPTH = int(arg("--depth", "2" if TIER == "quick" else "3"))   # number of commands after the make command
BIN = os.path.join(ROOT, BROOT, VARIANT, "bin")
TASGRID = os.path.join(BIN, "tasgrid")
MIRROR = os.path.join(BIN, "cli_mirror")
SCRATCH = os.path.join(ROOT, "out", "tmp", "cli.%d" % os.getpid())
CLI_TIMEOUT = 8.0
ENV = dict(os.environ)
# reports are not symbolised by the sanitizer run-time (1-3 s per report); the few distinct frames are resolved once with addr2line
ENV["ASAN_OPTIONS"] = "detect_leaks=0:exitcode=77:abort_on_error=0:handle_abort=0:allocator_may_return_null=0:symbolize=0"
ENV["UBSAN_OPTIONS"] = "print_stacktrace=1:halt_on_error=1:exitcode=78:symbolize=0"
SYM_CACHE, SYM_LOCK = {}, threading.Lock()
FRAME = re.compile(r"#\d+ 0x[0-9a-f]+\s+(?:in \S+ )?\((\S+?)\+0x([0-9a-f]+)\)")


def resolve(module, offsets):
    need = [o for o in offsets if (module, o) not in SYM_CACHE]
    if need:
        with SYM_LOCK:
            need = [o for o in need if (module, o) not in SYM_CACHE]
            if need:
                try:
                    p = subprocess.run(["addr2line", "-f", "-C", "-e", module] + ["0x" + o for o in need], stdout=subprocess.PIPE, stderr=subprocess.DEVNULL, timeout=60)
                    lines = p.stdout.decode("utf-8", "replace").splitlines()
                except Exception:  # noqa
                    lines = []
                for i, o in enumerate(need):
                    SYM_CACHE[(module, o)] = lines[2 * i] if 2 * i < len(lines) else "?"
    return [SYM_CACHE.get((module, o), "?") for o in offsets]


def sanitizer_class(err):
    kind, fn = "unknown", "?"
    m = re.search(r"AddressSanitizer: ([\w-]+)", err)
    if m:
        kind = m.group(1)
    else:
        m = re.search(r"runtime error: (.{0,60})", err)
        if m:
            kind = "ub:" + re.sub(r"0x[0-9a-f]+|\d+", "N", m.group(1)).strip()
    fr = [(mod, off) for mod, off in FRAME.findall(err) if mod.endswith("/tasgrid") or mod.endswith("/cli_mirror")][:10]
    if fr:
        for name in resolve(fr[0][0], [o for _, o in fr]):
            if "TasGrid" in name or "Tasgrid" in name or "TasDREAM" in name:
                fn = name
                for _ in range(6):
                    fn = re.sub(r"<[^<>]*>", "", fn)
                fn = fn.split("(")[0].replace("void ", "").strip()
                break
    return "%s in %s" % (kind, fn)


def past_deadline():
    return DEADLINE > 0 and time.time() - T0 > DEADLINE


def sha(b):
    return hashlib.sha1(b).hexdigest()[:20]


def slurp(p):
    try:
        with open(p, "rb") as f:
            return f.read()
    except OSError:
        return None


# ------------------------------------------------------------------ matrix files (documented formats)
def fnum(v):
    return repr(float(v))


def write_matrix(path, rows, cols, data, fmt):
    if fmt == "ascii":
        with open(path, "w") as f:
            f.write("%d %d\n" % (rows, cols))
            for i in range(rows):
                f.write(" ".join(fnum(data[i * cols + j]) for j in range(cols)) + "\n")
    else:
        with open(path, "wb") as f:
            f.write(b"TSG" + struct.pack("<ii", rows, cols) + struct.pack("<%dd" % (rows * cols), *[float(x) for x in data]))


def parse_output(raw, nhead):
    """returns (header ints, values) of a dense (nhead=2) or sparse (nhead=3) result file in either format, or None"""
    try:
        if raw[:3] == b"TSG":
            head = list(struct.unpack_from("<%di" % nhead, raw, 3))
            off = 3 + 4 * nhead
            if nhead == 2:
                n = head[0] * head[1]
                if len(raw) != off + 8 * n:
                    return (head, None)
                return (head, list(struct.unpack_from("<%dd" % n, raw, off)))
            rows, cols, nnz = head
            need = off + 4 * (rows + 1) + 4 * nnz + 8 * nnz
            if len(raw) != need:
                return (head, None)
            pn = list(struct.unpack_from("<%di" % (rows + 1), raw, off))
            ix = list(struct.unpack_from("<%di" % nnz, raw, off + 4 * (rows + 1)))
            vs = list(struct.unpack_from("<%dd" % nnz, raw, off + 4 * (rows + 1) + 4 * nnz))
            return (head, [float(x) for x in pn] + [float(x) for x in ix] + vs)
        tok = raw.decode("ascii", "replace").split()
        head = [int(t) for t in tok[:nhead]]
        return (head, [float(t) for t in tok[nhead:]])
    except (ValueError, struct.error, IndexError):
        return None


def same_float(a, b):
    return a == b or (a != a and b != b)


def compare_values(va, vb):
    """None if identical, else (index, a, b, max relative difference)"""
    if va is None or vb is None:
        return (-1, None, None, float("inf")) if va is not vb else None
    if len(va) != len(vb):
        return (-1, len(va), len(vb), float("inf"))
    worst, first = 0.0, None
    for i, (a, b) in enumerate(zip(va, vb)):
        if not same_float(a, b):
            if first is None:
                first = i
            d = abs(a - b) / max(abs(a), abs(b), 1e-300) if (a == a and b == b) else float("inf")
            worst = max(worst, d)
    return None if first is None else (first, va[first], vb[first], worst)


NUMRE = re.compile(r"[-+]?(?:\d+\.?\d*(?:[eE][-+]?\d+)?|nan|inf)")


# ------------------------------------------------------------------ running the two sides
def classify_cli(rc, err):
    if "AddressSanitizer" in err or "runtime error:" in err or "LeakSanitizer" in err:
        return "sanitizer:" + sanitizer_class(err)
    if rc == 0:
        return "ok"
    if rc == -6 and "terminate called" in err:
        return "abort-exception"
    if rc < 0:
        return "signal:%d" % (-rc)
    return "fail" if rc == 1 else "exit:%d" % rc


def run_cli(argv, cwd):
    t0 = time.time()
    try:
        p = subprocess.run([TASGRID] + argv, cwd=cwd, stdout=subprocess.PIPE, stderr=subprocess.PIPE, env=ENV, timeout=CLI_TIMEOUT)
        out, err = p.stdout.decode("utf-8", "replace"), p.stderr.decode("utf-8", "replace")
        return dict(cls=classify_cli(p.returncode, err), rc=p.returncode, out=out, err=err, t=time.time() - t0)
    except subprocess.TimeoutExpired:
        return dict(cls="timeout", rc=None, out="", err="", t=time.time() - t0)


class MirrorServer:
    def __init__(self):
        self.p = None

    def start(self):
        self.p = subprocess.Popen([MIRROR, "--server", "--timeout", "8"], stdin=subprocess.PIPE, stdout=subprocess.PIPE, stderr=subprocess.DEVNULL, env=ENV)

    def ask(self, taskpath):
        for attempt in range(2):
            if self.p is None or self.p.poll() is not None:
                self.start()
            try:
                self.p.stdin.write((taskpath + "\n").encode())
                self.p.stdin.flush()
                line = self.p.stdout.readline()
                if line:
                    return json.loads(line.decode("utf-8", "replace"))
            except (OSError, ValueError):
                pass
            try:
                self.p.kill()
            except OSError:
                pass
            self.p = None
        return {"status": "error", "what": "mirror server did not answer"}

    def close(self):
        if self.p is not None and self.p.poll() is None:
            try:
                self.p.stdin.write(b"quit\n")
                self.p.stdin.flush()
                self.p.wait(timeout=5)
            except Exception:  # noqa
                self.p.kill()


TLS = threading.local()
ALL_SERVERS = []


def worker_ctx():
    if not hasattr(TLS, "dir"):
        with OUT_LOCK:
            idx = len(ALL_SERVERS)
            ALL_SERVERS.append(MirrorServer())
        TLS.srv = ALL_SERVERS[idx]
        TLS.dir = os.path.join(SCRATCH, "w%d" % idx)
        os.makedirs(TLS.dir, exist_ok=True)
        TLS.n = 0
    return TLS


# ------------------------------------------------------------------ steps (one tasgrid invocation + the mirror task)
# A step is a JSON-able dict:
#   name   label used in signatures (command + variant tag)      cli    the command word given to tasgrid
#   mcmd   mirror command                                         scal   [[cli option, kind(s|i|d), mirror key, value-as-string], ...]
#   flags  [cli option, ...]                                      mats   [[cli option, mirror kind(m|iv), mirror key, rows, cols, [data]], ...]
#   of     pass -of and compare the result matrix                 print  pass -print instead and compare stdout numbers
#   writes documented to rewrite the grid file                    out    "matrix" | "sparse" | "text" | None
#   matfmt "same" | "other"  format of the input matrices relative to the script's format
def mk(name, cli, mcmd, scal=(), mats=(), of=False, writes=False, out=None, pr=False, matfmt="same", flags=()):
    return dict(name=name, cli=cli, mcmd=mcmd, scal=[list(x) for x in scal], mats=[list(x) for x in mats], of=of, writes=writes,
                out=out, print=pr, matfmt=matfmt, flags=list(flags))


def model(u, k):
    """generic non-symmetric smooth model, u = coordinates normalised to the unit cube, k = output index"""
    s = math.exp(-(u[0] - 0.3) ** 2 - 0.5 * (k + 1) * (u[1] if len(u) > 1 else 0.0))
    return s + 0.25 * (k + 1) * u[0] * (u[1] if len(u) > 1 else 1.0) + 0.125 * k


def model2(u, k):
    return math.cos(1.5 * u[0] + 0.7 * k) * (1.0 + (u[1] if len(u) > 1 else 0.0)) ** 2 - 0.5 * u[0]


def model3(u, k):
    """outputs with different anisotropy and magnitude: output 0 varies in the first direction only, output 1 (larger) in the last one"""
    last = u[-1] if len(u) > 1 else u[0]
    return math.exp(2.5 * u[0]) if k == 0 else 7.0 * math.exp(-3.0 * last) * (1.0 + 0.1 * k)


def domain(info):
    d = info["dims"]
    if info.get("a"):
        return info["a"], info["b"]
    if info["family"] == "fourier":
        return [0.0] * d, [1.0] * d
    return [-1.0] * d, [1.0] * d


def normalise(info, pts):
    lo, hi = domain(info)
    d = info["dims"]
    return [[(pts[i * d + j] - lo[j]) / (hi[j] - lo[j]) for j in range(d)] for i in range(len(pts) // d)]


def values_at(info, pts, fn):
    outs = info["outs"]
    v = []
    for u in normalise(info, pts):
        for k in range(outs):
            v.append(fn(u, k))
    return v


TPTS = [(0.3125, 0.75), (0.5, 0.5), (0.9, 0.1)]


def xpoints(info):
    lo, hi = domain(info)
    d = info["dims"]
    x = []
    for t in TPTS:
        for j in range(d):
            x.append(lo[j] + (hi[j] - lo[j]) * t[j % 2])
    return x


def steps_for(info, cand, tier):
    """the command alphabet instantiated for one state"""
    th = (tier == "thorough")
    fam, d, outs, npnt = info["family"], info["dims"], info["outs"], info["np"]
    glob = (fam == "global")
    S = []
    X = xpoints(info)
    xm = ["-xf", "m", "x", len(TPTS), d, X]
    ro = [["-refout", "i", "refout", "0"]]
    ro_default = ro if glob else []          # help: -refout "required by global grids, for sequence grids defaults to -1"
    lp = info.get("lp", [])
    nload = len(lp) // d if d else 0

    if npnt == 0:
        # "if getNumPoints() is zero then the grid is empty()": only the construction work-flow (which passes through such states) is meaningful
        S.append(mk("getpoints", "-getpoints", "getpoints", of=True, out="matrix"))
        S.append(mk("getneeded", "-gn", "getneeded", of=True, out="matrix"))
        S.append(mk("cancelrefine", "-cancelrefine", "cancelrefine", writes=True))
        S.append(mk("getconstructpnts", "-getconstructpnts", "getconstructpnts",
                    [["-type", "s", "type", "iptotal"], ["-tolerance", "d", "tol", "0.01"], ["-reftype", "s", "reftype", "classic"]] + ro, of=True, writes=True, out="matrix"))
        if cand and outs > 0 and not info.get("conformal"):
            for tag, k in (("", 2), ("+more", 6)) if th else (("", 2),):
                k = min(k, len(cand) // d)
                S.append(mk("loadconstructed" + tag, "-loadconstructed", "loadconstructed",
                            mats=[["-xf", "m", "x", k, d, cand[:k * d]], ["-vf", "m", "vals", k, outs, values_at(info, cand[:k * d], model)]], writes=True))
        S.append(mk("summary", "-summary", "summary", out="text"))
        S.append(mk("using-construct", "-using-construct", "using-construct", out="text"))
        return S
    S.append(mk("update", "-makeupdate", "update", [["-depth", "i", "depth", "3"], ["-type", "s", "type", "level"]], of=True, writes=True, out="matrix"))
    # an update that selects nothing new still replaces whatever refinement was pending (explored one step beyond the depth of the tier, see TAIL)
    S.append(mk("update-small", "-makeupdate", "update", [["-depth", "i", "depth", "0"], ["-type", "s", "type", "level"]], of=True, writes=True, out="matrix"))
    if th:
        S.append(mk("update+curved", "-mu", "update", [["-dt", "i", "depth", "3"], ["-tt", "s", "type", "ipcurved"]],
                    [["-af", "iv", "aniso", 1, 2 * d, ([1, 2][:d] + [0, 1][:d])]], of=True, writes=True, out="matrix"))
    S.append(mk("setconformal", "-setconformal", "setconformal", [["-conformaltype", "s", "ctype", "asin"]],
                [["-conformalfile", "iv", "conformal", 1, d, [4, 3][:d]]], writes=True))
    S.append(mk("getquadrature", "-getquadrature", "getquadrature", of=True, out="matrix"))
    S.append(mk("getinterweights", "-getinterweights", "getinterweights", mats=[xm], of=True, out="matrix"))
    S.append(mk("getdiffweights", "-getdiffweights", "getdiffweights", mats=[xm], of=True, out="matrix"))
    S.append(mk("getpoints", "-getpoints", "getpoints", of=True, out="matrix"))
    S.append(mk("getneeded", "-gn", "getneeded", of=True, out="matrix"))
    if outs > 0:
        S.append(mk("loadvalues", "-loadvalues", "loadvalues", mats=[["-valsfile", "m", "vals", nload, outs, values_at(info, lp, model)]], writes=True))
    else:
        S.append(mk("loadvalues", "-loadvalues", "loadvalues", mats=[["-valsfile", "m", "vals", nload, 1, [1.0] * nload]], writes=True))
    if th and outs > 0:
        S.append(mk("loadvalues+f2", "-l", "loadvalues", mats=[["-vf", "m", "vals", nload, outs, values_at(info, lp, model2)]], writes=True))
        if outs > 1:
            S.append(mk("loadvalues+f3", "-l", "loadvalues", mats=[["-vf", "m", "vals", nload, outs, values_at(info, lp, model3)]], writes=True))
        S.append(mk("loadvalues+badrows", "-l", "loadvalues", mats=[["-vf", "m", "vals", nload + 1, outs, values_at(info, lp, model) + [0.5] * outs]], writes=True))
        S.append(mk("loadvalues~xfmt", "-l", "loadvalues", mats=[["-vf", "m", "vals", nload, outs, values_at(info, lp, model)]], writes=True, matfmt="other"))
    S.append(mk("evaluate", "-evaluate", "evaluate", mats=[xm], of=True, out="matrix"))
    S.append(mk("integrate", "-integrate", "integrate", of=True, out="matrix"))
    S.append(mk("differentiate", "-differentiate", "differentiate", mats=[xm], of=True, out="matrix"))
    S.append(mk("evalhierarchyd", "-evalhierarchyd", "evalhierarchyd", mats=[xm], of=True, out="matrix"))
    S.append(mk("evalhierarchys", "-evalhierarchys", "evalhierarchys", mats=[xm], of=True, out="sparse"))
    S.append(mk("gethsupport", "-gethsupport", "gethsupport", of=True, out="matrix"))
    S.append(mk("getanisotropy", "-getanisotropy", "getanisotropy", [["-type", "s", "type", "iptotal"]] + ro, of=True, out="matrix"))
    S.append(mk("refineaniso", "-refineaniso", "refineaniso", [["-type", "s", "type", "iptotal"]] + ro, of=True, writes=True, out="matrix"))
    S.append(mk("refinesurp", "-refinesurp", "refinesurp", [["-tolerance", "d", "tol", "0.01"], ["-reftype", "s", "reftype", "classic"]] + ro_default,
                of=True, writes=True, out="matrix"))
    S.append(mk("refine", "-refine", "refine", [["-type", "s", "type", "iptotal"], ["-tolerance", "d", "tol", "0.01"], ["-reftype", "s", "reftype", "classic"]] + ro,
                of=True, writes=True, out="matrix"))
    if not glob and fam in ("sequence", "fourier"):
        # without -refout: "for sequence grids defaults to -1" = all outputs (differs from output 0 when the outputs have different anisotropy)
        S.append(mk("refineaniso-noout", "-refineaniso", "refineaniso", [["-type", "s", "type", "iptotal"], ["-mingrowth", "i", "mingrowth", "2"]], of=True, writes=True, out="matrix"))
        S.append(mk("refine-noout", "-refine", "refine", [["-type", "s", "type", "iptotal"], ["-tolerance", "d", "tol", "0.01"], ["-reftype", "s", "reftype", "classic"]],
                    of=True, writes=True, out="matrix"))
        S.append(mk("refinesurp-noout-tight", "-refinesurp", "refinesurp", [["-tolerance", "d", "tol", "0.0005"], ["-reftype", "s", "reftype", "classic"]], of=True, writes=True, out="matrix"))
    S.append(mk("cancelrefine", "-cancelrefine", "cancelrefine", writes=True))
    S.append(mk("mergerefine", "-mergerefine", "mergerefine", writes=True))
    S.append(mk("getconstructpnts", "-getconstructpnts", "getconstructpnts",
                [["-type", "s", "type", "iptotal"], ["-tolerance", "d", "tol", "0.01"], ["-reftype", "s", "reftype", "classic"]] + ro, of=True, writes=True, out="matrix"))
    # the same command with binding level limits, with and without user weights (each option combination takes its own branch in the tool)
    S.append(mk("getconstructpnts+limits", "-gcp", "getconstructpnts", [["-tt", "s", "type", "iptotal"], ["-tol", "d", "tol", "0.01"], ["-rt", "s", "reftype", "classic"]] + ro,
                [["-lf", "iv", "limits", 1, d, [1, 2][:d]]], of=True, writes=True, out="matrix"))
    S.append(mk("getconstructpnts+aniso+limits", "-gcp", "getconstructpnts", [["-tt", "s", "type", "iptotal"], ["-tol", "d", "tol", "0.01"], ["-rt", "s", "reftype", "classic"]],
                [["-af", "iv", "aniso", 1, d, [1, 2][:d]], ["-lf", "iv", "limits", 1, d, [2, 1][:d]]], of=True, writes=True, out="matrix"))
    cx = cand if cand else lp
    if cx and outs > 0 and not info.get("conformal"):   # the points must match grid points exactly; a conformal map makes the round trip inexact
        k = min(2, len(cx) // d)
        S.append(mk("loadconstructed", "-loadconstructed", "loadconstructed",
                    mats=[["-xf", "m", "x", k, d, cx[:k * d]], ["-vf", "m", "vals", k, outs, values_at(info, cx[:k * d], model)]], writes=True))
        if th:
            k = min(6, len(cx) // d)
            S.append(mk("loadconstructed+more", "-lcp", "loadconstructed",
                        mats=[["-xfile", "m", "x", k, d, cx[:k * d]], ["-valsfile", "m", "vals", k, outs, values_at(info, cx[:k * d], model)]], writes=True))
    S.append(mk("getcoefficients", "-getcoefficients", "getcoefficients", of=True, out="matrix"))
    ccols = max(outs, 1) * (2 if fam == "fourier" else 1)
    coef = [0.5 + 0.25 * math.sin(1.0 + 0.9 * i) for i in range(npnt * ccols)]
    S.append(mk("setcoefficients", "-setcoefficients", "setcoefficients", mats=[["-valsfile", "m", "vals", npnt, ccols, coef]], writes=True))
    S.append(mk("getpoly", "-getpoly", "getpoly", [["-type", "s", "type", "iptotal"]], of=True, out="matrix"))
    S.append(mk("getpointsindexes", "-getpointsindexes", "getpointsindexes", of=True, out="matrix"))
    S.append(mk("getneededindexes", "-getneededindexes", "getneededindexes", of=True, out="matrix"))
    S.append(mk("summary", "-summary", "summary", out="text"))
    S.append(mk("using-construct", "-using-construct", "using-construct", out="text"))
    if th:
        S.append(mk("getanisotropy+curved", "-ga", "getanisotropy", [["-tt", "s", "type", "ipcurved"]] + ro_default, of=True, out="matrix"))
        S.append(mk("refineaniso+limits", "-ra", "refineaniso", [["-tt", "s", "type", "ipcurved"], ["-mingrowth", "i", "mingrowth", "3"]] + ro_default,
                    [["-levellimitsfile", "iv", "limits", 1, d, [3, 2][:d]]], of=True, writes=True, out="matrix"))
        S.append(mk("refinesurp+fds+limits", "-rs", "refinesurp", [["-tol", "d", "tol", "0.001"], ["-rt", "s", "reftype", "fds"]] + ro,
                    [["-lf", "iv", "limits", 1, d, [3, 3][:d]]], of=True, writes=True, out="matrix"))
        S.append(mk("refinesurp+scale", "-rs", "refinesurp", [["-tol", "d", "tol", "0.01"], ["-rt", "s", "reftype", "classic"]] + ro,
                    [["-valsfile", "m", "scale", npnt, 1, [1.0 + 0.5 * (i % 3) for i in range(npnt)]]], of=True, writes=True, out="matrix"))
        S.append(mk("getconstructpnts+aniso", "-gcp", "getconstructpnts", [["-tt", "s", "type", "level"], ["-tol", "d", "tol", "0.01"], ["-rt", "s", "reftype", "classic"]],
                    [["-af", "iv", "aniso", 1, d, [1, 2][:d]], ["-lf", "iv", "limits", 1, d, [3, 3][:d]]], of=True, writes=True, out="matrix"))
        S.append(mk("evaluate+print", "-e", "evaluate", mats=[xm], out="matrix", pr=True))
        S.append(mk("integrate+print", "-i", "integrate", out="matrix", pr=True))
        S.append(mk("getcoefficients+print", "-gc", "getcoefficients", out="matrix", pr=True))
    return S


def make_lattice(tier):
    """initial configurations (2 inputs): rule x type x depth x outputs x weights x limits x transform x conformal"""
    def g(name, cli, mcmd, scal, mats=()):
        return mk(name, cli, mcmd, scal, mats, of=True, writes=True, out="matrix")
    TR = ["-transformfile", "m", "transform", 2, 2, [-1.0, 2.0, 0.5, 1.75]]
    L = []
    base = [["-dimensions", "i", "dim", "2"]]
    def sc(out, depth, **kw):
        r = base + [["-outputs", "i", "out", str(out)], ["-depth", "i", "depth", str(depth)]]
        for k, (opt, kind) in dict(type=("-type", "s"), rule=("-onedim", "s"), order=("-order", "i"), alpha=("-alpha", "d"), beta=("-beta", "d")).items():
            if k in kw:
                r.append([opt, kind, k, str(kw[k])])
        return r
    an = lambda w: ["-anisotropyfile", "iv", "aniso", 1, len(w), w]
    ll = lambda w: ["-levellimitsfile", "iv", "limits", 1, len(w), w]
    q = []   # quick subset
    q.append(g("makeglobal", "-makeglobal", "makeglobal", sc(1, 2, type="level", rule="clenshaw-curtis")))
    q.append(g("makeglobal", "-mg", "makeglobal", sc(2, 3, type="iptotal", rule="clenshaw-curtis"), [an([2, 1]), TR]))
    q.append(g("makeglobal", "-makeglobal", "makeglobal", sc(1, 2, type="qptotal", rule="gauss-jacobi", alpha="0.5", beta="1.5")))
    q.append(g("makeglobal", "-makeglobal", "makeglobal", sc(1, 2, type="level", rule="leja"), [ll([2, 1])]))
    q.append(g("makeglobal+out0", "-makeglobal", "makeglobal", sc(0, 2, type="level", rule="clenshaw-curtis")))
    q.append(g("makeglobal+alpha0.3", "-makeglobal", "makeglobal", sc(1, 1, type="level", rule="gauss-gegenbauer", alpha="0.3")))
    q.append(g("makesequence", "-makesequence", "makesequence", sc(1, 2, type="level", rule="leja")))
    q.append(g("makesequence", "-ms", "makesequence", sc(2, 3, type="iptotal", rule="rleja"), [an([2, 1]), TR]))
    q.append(g("makelocalpoly", "-makelocalpoly", "makelocalpoly", sc(1, 2, order=1, rule="localp")))
    q.append(g("makelocalpoly", "-mp", "makelocalpoly", sc(2, 2, order=2, rule="semi-localp"), [TR]))
    q.append(g("makelocalpoly", "-makelocalpoly", "makelocalpoly", sc(1, 1, order=0, rule="localp"), [ll([1, 2])]))
    q.append(g("makewavelet", "-makewavelet", "makewavelet", sc(1, 1, order=1)))
    q.append(g("makefourier", "-makefourier", "makefourier", sc(1, 1, type="level")))
    q.append(g("makefourier", "-mf", "makefourier", sc(2, 2, type="iptotal"), [an([1, 2]), TR]))
    L += q
    if tier == "thorough":
        L.append(g("makeglobal", "-mg", "makeglobal", sc(1, 3, type="ipcurved", rule="rleja"), [an([1, 2, 0, 1])]))
        L.append(g("makeglobal+conformal", "-mg", "makeglobal", sc(1, 2, type="level", rule="fejer2") + [["-conformaltype", "s", "ctype", "asin"]],
                   [["-conformalfile", "iv", "conformal", 1, 2, [4, 4]]]))
        L.append(g("makesequence", "-ms", "makesequence", sc(1, 2, type="level", rule="min-delta"), [ll([1, 2])]))
        L.append(g("makesequence+out0", "-ms", "makesequence", sc(0, 2, type="level", rule="leja")))
        L.append(g("makelocalpoly", "-mp", "makelocalpoly", sc(1, 2, order=-1, rule="localp-zero")))
        L.append(g("makelocalpoly+out0", "-mp", "makelocalpoly", sc(0, 2, order=1, rule="localp")))
        L.append(g("makewavelet", "-mw", "makewavelet", sc(2, 1, order=3), [TR]))
        L.append(g("makewavelet+out0", "-mw", "makewavelet", sc(0, 1, order=1)))
        L.append(g("makefourier+out0", "-mf", "makefourier", sc(0, 1, type="level")))
    return L


def quadrature_lattice(tier):
    def g(tag, scal, mats=()):
        return mk("makequadrature", "-makequadrature", "makequadrature", [["-dimensions", "i", "dim", "2"]] + scal, mats, of=True, out="matrix")
    TR = ["-tf", "m", "transform", 2, 2, [-1.0, 2.0, 0.5, 1.75]]
    L = []
    for depth in (["1", "2"] if tier == "quick" else ["0", "1", "2", "3"]):
        dp = [["-depth", "i", "depth", depth]]
        L.append(g("global", dp + [["-type", "s", "type", "level"], ["-onedim", "s", "rule", "clenshaw-curtis"]]))
        L.append(g("global", dp + [["-type", "s", "type", "qptotal"], ["-onedim", "s", "rule", "gauss-legendre"]], [TR]))
        L.append(g("global", dp + [["-type", "s", "type", "qptotal"], ["-onedim", "s", "rule", "gauss-jacobi"], ["-alpha", "d", "alpha", "0.5"], ["-beta", "d", "beta", "1.5"]]))
        L.append(g("sequence-rule", dp + [["-type", "s", "type", "iptotal"], ["-onedim", "s", "rule", "leja"]]))
        for rule, order in (("localp", "1"), ("localp", "2"), ("semi-localp", "2"), ("localp-zero", "1"), ("localp-boundary", "1")):
            L.append(g("localp", dp + [["-order", "i", "order", order], ["-onedim", "s", "rule", rule]]))
        L.append(g("localp", dp + [["-order", "i", "order", "1"], ["-onedim", "s", "rule", "localp"]], [TR]))
        L.append(g("wavelet", dp + [["-order", "i", "order", "1"], ["-onedim", "s", "rule", "wavelet"]]))
        if depth in ("0", "1"):
            L.append(g("wavelet", dp + [["-order", "i", "order", "3"], ["-onedim", "s", "rule", "wavelet"]]))
        L.append(g("fourier", dp + [["-type", "s", "type", "level"], ["-onedim", "s", "rule", "fourier"]]))
    return L


# ------------------------------------------------------------------ executing one step on both sides
def other(fmt):
    return "binary" if fmt == "ascii" else "ascii"


def execute(step, fmt, gin_path, wdir, tag, want_cand=True, keep=False, fam_in=None):
    """runs tasgrid and the mirror for one step; gin_path None for make commands. Returns a result dict."""
    d = os.path.join(wdir, tag)
    shutil.rmtree(d, ignore_errors=True)
    os.makedirs(d)
    matfmt = fmt if step.get("matfmt", "same") == "same" else other(fmt)
    argv = [step["cli"]]
    task = ["s cmd " + step["mcmd"], "i ascii %d" % (1 if fmt == "ascii" else 0), "i want_cand %d" % (1 if want_cand else 0)]
    gfile = os.path.join(d, "g")
    before = None
    is_mq = step["mcmd"] == "makequadrature"
    if gin_path is not None:
        shutil.copyfile(gin_path, gfile)
        before = slurp(gfile)
        os.utime(gfile, ns=(10 ** 18, 10 ** 18))
        task.append("s gin " + gin_path)
    if not is_mq or step.get("gf"):
        argv += ["-gridfile", gfile]
    for opt, kind, key, val in step["scal"]:
        argv += [opt, val]
        task.append("%s %s %s" % (kind, key, val))
    argv += step.get("flags", [])
    for i, (opt, kind, key, rows, cols, data) in enumerate(step["mats"]):
        mp = os.path.join(d, "in%d_%s" % (i, key))
        write_matrix(mp, rows, cols, data, matfmt)
        argv += [opt, mp]
        if kind == "iv":
            task.append("iv %s %d %s" % (key, len(data), " ".join(str(int(x)) for x in data)))
        else:
            task.append("m %s %d %d %s" % (key, rows, cols, " ".join(fnum(x) for x in data)))
    if fmt == "ascii":
        argv.append("-ascii")
    cof, mof = os.path.join(d, "cli_out"), os.path.join(d, "mir_out")
    if step["of"]:
        argv += ["-outputfile", cof]
        task.append("s of " + mof)
    if step.get("print"):
        argv.append("-print")
    mg = os.path.join(d, "mg")
    task.append("s gout " + mg)
    tp = os.path.join(d, "task")
    with open(tp, "w") as f:
        f.write("\n".join(task) + "\n")
    c = run_cli(argv, d)
    m = worker_ctx().srv.ask(tp)
    res = dict(argv=argv, cli=c["cls"], rc=c["rc"], mir=m.get("status"), mwhat=m.get("what", m.get("class", "")), viol=[], new=None, dir=d,
               cerr=c["err"][-600:], cout=c["out"][:300])
    after = slurp(gfile)
    V = res["viol"]
    C, M = c["cls"], m.get("status")
    fam = (m.get("g") or {}).get("family") or fam_in
    res["family"] = fam
    digest_parts = [C, M or ""]

    def v(kind, detail):
        V.append((kind, detail))

    crashy = C.startswith("sanitizer") or C.startswith("signal") or C == "timeout" or C.startswith("exit:")
    if M == "error" or M is None:
        res["harness_error"] = "mirror: " + str(m.get("what"))
    elif crashy and M == "crash":
        mc = sanitizer_class(m.get("stderr", "")) if m.get("kind") == "sanitizer" else str(m.get("kind"))
        res["libcrash"] = True
        v("library-crash:" + (C.split(" in ")[0] if C.startswith("sanitizer") else C).replace(" ", "_"),
          "tasgrid AND the documented API sequence crash: tasgrid %s, API %s (defect of the library below both, not of the tool); stderr tail: %s" % (C, mc, c["err"][-300:]))
    elif crashy:
        v(C.replace(" ", "_"), "tasgrid %s; mirror status=%s %s; stderr tail: %s" % (C, M, m.get("what", m.get("class", "")), c["err"][-400:]))
    elif M == "crash":
        mc = sanitizer_class(m.get("stderr", "")) if m.get("kind") == "sanitizer" else str(m.get("kind"))
        v("api-crash:" + mc.split(" in ")[0].replace(" ", "_") + ":cli-" + C,
          "the documented API sequence crashes (%s) while tasgrid ends with %s; %s" % (mc, C, m.get("stderr", "")[:300]))
    elif M == "ok":
        if C != "ok":
            v("cli-fails-api-succeeds", "tasgrid: %s rc=%s stderr=%s stdout=%s" % (C, c["rc"], c["err"][-300:].strip(), c["out"][:200].strip()))
        else:
            # grid file
            if step["writes"] and (not is_mq):
                want = slurp(mg + (".asc" if fmt == "ascii" else ".bin"))
                if after is None:
                    v("grid-missing", "tasgrid did not write the grid file")
                elif want != after:
                    v("grid-differs:" + fmt, "grid file written by tasgrid differs from write() of the API mirror (%d vs %d bytes); cli g: %s" % (len(after), len(want or b""), describe_file_diff(after, want)))
                elif not m.get("extras"):
                    res["unexpandable"] = str(m.get("extras_crash"))   # the state cannot be keyed/described: write() in the other format or a getter crashes
                    digest_parts.append(sha(after))
                else:
                    kb, ka = slurp(mg + ".bin"), slurp(mg + ".asc")
                    res["new"] = dict(key=sha(kb) + sha(ka), info=m.get("g"), cand=m.get("cand", []), bytes=after)
                    digest_parts.append(res["new"]["key"])
            elif not step["writes"]:
                if before is not None and after != before:
                    v("readonly-command-modified-grid", "command documented as read-only changed the grid file")
                elif before is not None and os.stat(gfile).st_mtime_ns != 10 ** 18:
                    v("readonly-command-rewrote-grid", "command documented as read-only (\"lGrid is NOT modified by this command\") rewrote the grid file in the format selected by -ascii")
            # result matrix
            if step["of"] and step["out"] in ("matrix", "sparse"):
                if not m.get("wrote_mat"):
                    pass
                else:
                    rc_, rm_ = slurp(cof), slurp(mof)
                    if rc_ is None:
                        v("matrix-missing", "tasgrid wrote no -outputfile although the command is documented to output a matrix (%s x %s expected)" % (m.get("mat_rows"), m.get("mat_cols")))
                    elif rc_ != rm_:
                        nh = 3 if step["out"] == "sparse" else 2
                        pc, pm = parse_output(rc_, nh), parse_output(rm_, nh)
                        if pc is not None and pm is not None and m.get("vec") and sorted(pc[0]) == sorted(pm[0]) and pc[0] != pm[0]:
                            pc = (pm[0], pc[1])   # a vector result: the documentation does not fix row or column orientation
                            if compare_values(pc[1], pm[1]) is None:
                                pc = None
                        if pc is None and pm is not None and m.get("vec"):
                            pass
                        elif pc is None or pm is None or pc[0] != pm[0]:
                            v("matrix-shape", "result matrix header: tasgrid %s, API %s" % (pc[0] if pc else "unparsable", pm[0] if pm else "unparsable"))
                        else:
                            df = compare_values(pc[1], pm[1])
                            if df is not None:
                                v("matrix-differs:" + fmt, "entry %s: tasgrid %r, API %r, max relative difference %.3g" % (df[0], df[1], df[2], df[3]))
                            elif fmt == "binary":
                                v("matrix-bytes:" + fmt, "binary result file differs although the parsed numbers agree")
                    digest_parts.append(sha(rc_ or b""))
            if step.get("print") and m.get("wrote_mat"):
                nums = []
                body = "\n".join(l for l in c["out"].splitlines() if not l.startswith("WARNING"))
                for t in NUMRE.findall(body.replace("(", " ").replace(")", " ").replace(",", " ")):
                    try:
                        nums.append(float(t))
                    except ValueError:
                        pass
                flat = [float(x) if not isinstance(x, str) else float(x) for x in m.get("flat", [])]
                if len(nums) < 2 or (int(nums[0]) != m.get("mat_rows") and not (m.get("vec") and sorted(int(x) for x in nums[:2]) == sorted([m.get("mat_rows"), m.get("mat_cols")]))):
                    v("print-shape", "-print header %s, API rows %s" % (nums[:2], m.get("mat_rows")))
                else:
                    df = compare_values(nums[2:], flat)
                    if df is not None:
                        v("print-differs", "printed entry %s: tasgrid %r, API %r (max rel diff %.3g)" % (df[0], df[1], df[2], df[3]))
                digest_parts.append(sha(c["out"].encode()))
            if step["out"] == "text":
                txt = m.get("text", "")
                if step["mcmd"] == "summary":
                    if " ".join(c["out"].split()) != " ".join(txt.split()):
                        v("text-differs", "summary: tasgrid printed %r, printStats() gives %r" % (c["out"][:200], txt[:200]))
                else:
                    if txt not in c["out"] or other_word(txt) in c["out"]:
                        v("text-differs", "using-construct: tasgrid printed %r, isUsingConstruction() is %s" % (c["out"][:100], txt))
                digest_parts.append(sha(c["out"].encode()))
    elif M == "throw":
        if C == "ok":
            v("cli-succeeds-api-throws", "API: %s(%s); tasgrid exit 0, stdout=%s" % (m.get("exc"), m.get("what"), c["out"][:200].strip()))
        elif before is not None and after != before:
            v("failed-command-modified-grid", "tasgrid failed (%s) but rewrote the grid file" % C)
        digest_parts.append(str(m.get("exc")))
    elif M == "precond":
        digest_parts.append("precond")
    if is_mq and step.get("gf") and C == "ok" and M == "ok" and os.path.exists(gfile):
        # family actually built by the tool (it writes the grid file although the help says it does not)
        tp2 = os.path.join(d, "task2")
        with open(tp2, "w") as fh:
            fh.write("s cmd summary\ns gin %s\n" % gfile)
        f2 = (worker_ctx().srv.ask(tp2).get("g") or {}).get("family")
        if f2 and fam and f2 != fam:
            old = "; ".join(k + ": " + dtl for k, dtl in V)[:300]
            del V[:]
            v("wrong-family", "tasgrid built a %s grid, the documentation (class of the rule) asks for a %s grid; %s" % (f2, fam, old))
    res["digest"] = sha("|".join(digest_parts).encode())
    if not keep and not V:
        shutil.rmtree(d, ignore_errors=True)
    return res


def other_word(t):
    return "disabled" if t == "enabled" else "enabled"


def describe_file_diff(a, b):
    if a is None or b is None:
        return "missing"
    if a[:3] == b"TSG" or (b[:3] == b"TSG"):
        n = min(len(a), len(b))
        for i in range(n):
            if a[i] != b[i]:
                return "first differing byte at offset %d" % i
        return "common prefix of %d bytes" % n
    la, lb = a.decode("ascii", "replace").splitlines(), b.decode("ascii", "replace").splitlines()
    for i, (x, y) in enumerate(zip(la, lb)):
        if x != y:
            return "line %d: tasgrid %r vs API %r" % (i + 1, x[:90], y[:90])
    return "line counts %d vs %d" % (len(la), len(lb))


# ------------------------------------------------------------------ bookkeeping shared by the units
class Book:
    def __init__(self):
        self.execs = 0
        self.transitions = 0
        self.distinct = set()
        self.outcomes = {}
        self.sigcount = {}
        self.emitted = {}
        self.harness_errors = 0

    def record(self, unit, step, res, case):
        self.transitions += 1
        self.execs += 1
        fam = res.get("family") or case.get("family") or "none"
        self.distinct.add((step["name"], res["digest"]))
        k = "%s:%s:%s/%s" % (step["name"].split("~")[0], fam, res["cli"].split(" in ")[0], res["mir"])
        self.outcomes[k] = self.outcomes.get(k, 0) + 1
        if res.get("harness_error"):
            self.harness_errors += 1
            if self.harness_errors <= 3:
                emit({"t": "error", "what": res["harness_error"] + " argv=" + " ".join(res["argv"])})
        sigs = []
        for kind, detail in res["viol"]:
            sig = "C16:%s:%s:%s" % (step["name"], fam, kind)
            if kind.startswith("library-crash:"):
                sig = "C16:library-crash:%s:%s" % (fam, kind[len("library-crash:"):])
            elif kind == "matrix-missing":          # one defect per command, whatever the variant of the arguments
                sig = "C16:%s:%s:%s" % (step["name"].split("+")[0].split("~")[0], fam, kind)
            elif kind == "readonly-command-rewrote-grid":
                sig = "C16:%s:any:%s" % (step["name"].split("+")[0].split("~")[0], kind)
            sigs.append(sig)
            self.sigcount[sig] = self.sigcount.get(sig, 0) + 1
            if self.emitted.get(sig, 0) < 3:
                self.emitted[sig] = self.emitted.get(sig, 0) + 1
                emit({"t": "viol", "sig": sig, "unit": unit, "case": case, "detail": detail + " | argv: tasgrid " + " ".join(short(a) for a in res["argv"])})
        return sigs


def short(a):
    return os.path.basename(a) if a.startswith("/") else a


# ------------------------------------------------------------------ replay
def replay(vfile):
    v = json.load(open(vfile))
    case, want = v["case"], v.get("signature")
    os.makedirs(SCRATCH, exist_ok=True)
    book = Book()
    try:
        if case["kind"] == "script":
            fmt = case["fmt"]
            ctx = worker_ctx()
            cur = None
            steps = case["script"]
            for i, st in enumerate(steps):
                last = (i == len(steps) - 1)
                if last:
                    res = execute(st, fmt, cur, ctx.dir, "replay%d" % i, keep=True, fam_in=case.get("family"))
                    c2 = dict(case)
                    c2["family"] = case.get("family")
                    sigs = book.record("replay", st, res, case)
                    emit({"t": "note", "text": "replay: tasgrid %s -> %s ; mirror %s ; signatures %s" % (" ".join(short(a) for a in res["argv"]), res["cli"], res["mir"], sigs)})
                else:
                    # prefix of the script: the real tool only
                    d = os.path.join(ctx.dir, "pre%d" % i)
                    res = execute(st, fmt, cur, ctx.dir, "pre%d" % i, keep=True)
                    nxt = os.path.join(d, "g")
                    if not os.path.exists(nxt):
                        emit({"t": "note", "text": "replay: prefix step %d produced no grid file (%s)" % (i, res["cli"])})
                        break
                    cur = os.path.join(ctx.dir, "state%d" % i)
                    shutil.copyfile(nxt, cur)
        elif case["kind"] == "alias":
            for sig, detail in check_alias(case["name"], case["alias"]):
                emit({"t": "viol", "sig": sig, "unit": "names", "case": case, "detail": detail})
        elif case["kind"] == "option":
            for sig, detail in check_option(case, os.path.join(SCRATCH, "opt")):
                emit({"t": "viol", "sig": sig, "unit": "options", "case": case, "detail": detail})
    finally:
        for s in ALL_SERVERS:
            s.close()
        shutil.rmtree(SCRATCH, ignore_errors=True)
    emit({"t": "summary", "replay": True, "wanted": want})


# ------------------------------------------------------------------ documented names
GENERIC_SKIP = {"-help", "-version", "-log", "-cmakelog", "-listtypes", "-test", "-h", "--help", "-v", "-info", "-cmake", "-lt"}


def documented_commands():
    """(name, [aliases]) from `tasgrid -help` and from Doxygen/InterfaceCLI.md"""
    r = run_cli(["-help"], SCRATCH)
    names = {}
    on = False
    for line in r["out"].splitlines():
        if line.startswith("Commands"):
            on = True
            continue
        if line.startswith("Options"):
            break
        if on and line.strip().startswith("-"):
            tok = line.split()
            name = tok[0]
            al = []
            if len(tok) > 1 and tok[1].startswith("-"):
                al = [a for a in tok[1].split(",") if a]
            names.setdefault(name, [])
            names[name] += al
    try:
        md = open(os.path.join(REPO, "Doxygen", "InterfaceCLI.md")).read()
        for m in re.finditer(r"\./tasgrid (-[\w-]+)\s+->", md):
            names.setdefault(m.group(1), [])
    except OSError:
        pass
    return [(n, a) for n, a in sorted(names.items()) if n not in GENERIC_SKIP]


def help_of(word):
    r = run_cli([word, "help"], SCRATCH)
    lines = [l for l in r["out"].splitlines() if l.strip()]
    first = ""
    for i, l in enumerate(lines):
        if l.startswith("Commands") and i + 1 < len(lines):
            first = lines[i + 1].split()[0]
            break
    return r, first


def check_alias(name, alias):
    out = []
    r, first = help_of(alias)
    if "unknown command" in r["out"]:
        out.append(("C16:name:%s:unknown-command" % alias, "the documented command word %s (documented for %s) is rejected: %s" % (alias, name, r["out"].splitlines()[0] if r["out"] else "")))
    elif first and first != name:
        out.append(("C16:name:%s:bound-to-other-command" % alias, "shorthand %s is documented for %s but selects %s" % (alias, name, first)))
    return out


def option_probes():
    """(long option, documented shorthand) -> scripts that use the long spelling; the probe re-runs them with the shorthand"""
    mg = ["-makeglobal", "-dimensions", "2", "-outputs", "1", "-depth", "2", "-type", "level", "-onedim", "clenshaw-curtis", "-gridfile", "g", "-ascii"]
    load = ["-loadvalues", "-gridfile", "g", "-valsfile", "@vals", "-ascii"]
    P = {}
    for o in ("-dimensions", "-outputs", "-depth", "-type", "-onedim", "-gridfile"):
        P[o] = [mg]
    P["-order"] = [["-makelocalpoly", "-dimensions", "2", "-outputs", "1", "-depth", "2", "-order", "2", "-onedim", "localp", "-gridfile", "g", "-ascii"]]
    P["-conformaltype"] = P["-conformalfile"] = [mg + ["-conformaltype", "asin", "-conformalfile", "@conf"]]
    P["-anisotropyfile"] = [mg + ["-anisotropyfile", "@aniso"]]
    P["-transformfile"] = [mg + ["-transformfile", "@trans"]]
    P["-levellimitsfile"] = [mg + ["-levellimitsfile", "@lim"]]
    P["-valsfile"] = [mg, load]
    P["-xfile"] = P["-outputfile"] = [mg, load, ["-evaluate", "-gridfile", "g", "-xfile", "@x", "-outputfile", "o", "-ascii"]]
    P["-print"] = [mg, ["-getpoints", "-gridfile", "g", "-print"]]
    seq = ["-makesequence", "-dimensions", "2", "-outputs", "1", "-depth", "2", "-type", "level", "-onedim", "leja", "-gridfile", "g", "-ascii"]
    P["-refout"] = P["-mingrowth"] = [seq, load, ["-refineaniso", "-gridfile", "g", "-type", "iptotal", "-refout", "0", "-mingrowth", "3", "-ascii"]]
    lp = ["-makelocalpoly", "-dimensions", "2", "-outputs", "1", "-depth", "2", "-order", "1", "-onedim", "localp", "-gridfile", "g", "-ascii"]
    P["-tolerance"] = P["-reftype"] = [lp, load, ["-refinesurp", "-gridfile", "g", "-tolerance", "0.01", "-reftype", "classic", "-ascii"]]
    return P


def documented_options():
    r = run_cli(["-help"], SCRATCH)
    opts, on = [], False
    for line in r["out"].splitlines():
        if line.startswith("Options"):
            on = True
            continue
        if on and line.strip().startswith("-"):
            tok = line.split()
            if len(tok) > 1 and tok[1].startswith("-"):
                opts.append((tok[0], tok[1]))
    return opts


def run_option_script(script, spelled, long_opt, d):
    shutil.rmtree(d, ignore_errors=True)
    os.makedirs(d)
    write_matrix(os.path.join(d, "conf"), 1, 2, [4, 4], "ascii")
    write_matrix(os.path.join(d, "aniso"), 1, 2, [2, 1], "ascii")
    write_matrix(os.path.join(d, "lim"), 1, 2, [1, 2], "ascii")
    write_matrix(os.path.join(d, "trans"), 2, 2, [-1.0, 2.0, 0.5, 1.75], "ascii")
    write_matrix(os.path.join(d, "x"), 2, 2, [0.25, 0.5, -0.5, 0.125], "ascii")
    obs = []
    for cmd in script:
        argv = []
        for a in cmd:
            if a == long_opt:
                a = spelled
            if a == "@vals":
                # values for whatever the grid currently needs
                g = run_cli(["-getneeded", "-gridfile", "g", "-print"], d)
                nums = [t for t in g["out"].split()]
                rows = int(nums[0]) if nums and nums[0].isdigit() else 0
                if rows == 0:
                    g = run_cli(["-getpoints", "-gridfile", "g", "-print"], d)
                    nums = g["out"].split()
                    rows = int(nums[0]) if nums and nums[0].isdigit() else 0
                write_matrix(os.path.join(d, "vals"), rows, 1, [math.sin(1.0 + i) for i in range(rows)], "ascii")
                a = "vals"
            elif a.startswith("@"):
                a = a[1:]
            argv.append(a)
        r = run_cli(argv, d)
        obs.append((r["cls"], r["out"]))
    files = {f: sha(slurp(os.path.join(d, f)) or b"") for f in ("g", "o")}
    return obs, files


def check_option(case, d):
    long_opt, short_opt = case["long"], case["short"]
    script = option_probes().get(long_opt)
    if script is None:
        return []
    a = run_option_script(script, long_opt, long_opt, d + "_l")
    b = run_option_script(script, short_opt, long_opt, d + "_s")
    shutil.rmtree(d + "_l", ignore_errors=True)
    shutil.rmtree(d + "_s", ignore_errors=True)
    if a != b:
        la, lb = a[0][-1], b[0][-1]
        return [("C16:option:%s:%s:shorthand-differs" % (long_opt, short_opt),
                 "documented shorthand %s of %s does not behave like the long option: long -> %s, shorthand -> %s %s" % (short_opt, long_opt, la[0], lb[0], lb[1][:160].strip()))]
    return []


# ------------------------------------------------------------------ the search
def main():
    os.makedirs(SCRATCH, exist_ok=True)
    sdir = os.path.join(SCRATCH, "states")
    os.makedirs(sdir)
    for b in (TASGRID, MIRROR):
        if not os.path.exists(b):
            emit({"t": "error", "what": "missing binary " + b})
            return 0
    book = Book()
    pool = ThreadPoolExecutor(max_workers=WORKERS)
    units_total = units_done = 0
    exhaustive = True
    fmts = ["binary", "ascii"]

    # ---- unit: documented command names and option shorthands
    units_total += 1
    t0 = time.time()
    nprobe = 0
    ndist = set()
    for name, aliases in documented_commands():
        for al in [name] + aliases:
            nprobe += 1
            res = check_alias(name, al)
            ndist.add((al, len(res)))
            for sig, detail in res:
                emit({"t": "viol", "sig": sig, "unit": "names", "case": {"kind": "alias", "name": name, "alias": al}, "detail": detail})
    probes = option_probes()
    for lo, so in documented_options():
        if lo in probes:
            nprobe += 1
            case = {"kind": "option", "long": lo, "short": so}
            res = check_option(case, os.path.join(SCRATCH, "opt"))
            ndist.add((lo, so, len(res)))
            for sig, detail in res:
                emit({"t": "viol", "sig": sig, "unit": "options", "case": case, "detail": detail})
    emit({"t": "unit", "unit": "documented-names-and-shorthands", "states": 0, "transitions": 0, "execs": nprobe, "evals": nprobe, "distinct": len(ndist),
          "complete": True, "wall": round(time.time() - t0, 2)})
    units_done += 1

    # ---- unit: -makequadrature lattice (no grid file: depth 0 only)
    units_total += 1
    t0 = time.time()
    ql = [(st, f) for st in quadrature_lattice(TIER) for f in fmts]
    before_t = book.transitions
    dist0 = len(book.distinct)

    def run_q(i):
        st, f = ql[i]
        st = dict(st)
        st["gf"] = True
        ctx = worker_ctx()
        res = execute(st, f, None, ctx.dir, "q%d" % i, want_cand=False, keep=True)
        shutil.rmtree(res["dir"], ignore_errors=True)
        return res
    for i, res in enumerate(pool.map(run_q, range(len(ql)))):
        st, f = ql[i]
        book.record("makequadrature", st, res, {"kind": "script", "fmt": f, "script": [dict(st, gf=True)], "family": res.get("family")})
    emit({"t": "unit", "unit": "makequadrature", "states": 0, "transitions": book.transitions - before_t, "execs": book.transitions - before_t,
          "evals": book.transitions - before_t, "distinct": len(book.distinct) - dist0, "complete": True, "wall": round(time.time() - t0, 2)})
    units_done += 1

    # ---- breadth-first search over scripts
    states = {}      # (fmt, key) -> dict(path=file, info, cand, script)
    frontier = []
    depth_done = -1
    alpha_max = 0
    TAIL = ("update-small",)   # one extra level with this small alphabet, from the states that hold values and a pending refinement
    for depth in range(0, MAXDEPTH + 2):
        units_total += 1
        t0 = time.time()
        tr0, dist0 = book.transitions, len(book.distinct)
        if depth == 0:
            tasks = [(None, st, f) for st in make_lattice(TIER) for f in fmts]
        else:
            tasks = []
            for sk in frontier:
                s = states[sk]
                sts = steps_for(s["info"], s["cand"], TIER)
                if depth == MAXDEPTH + 1:
                    sts = [st for st in sts if st["name"] in TAIL] if (s["info"].get("nl", 0) > 0 and s["info"].get("nn", 0) > 0) else []
                alpha_max = max(alpha_max, len(sts))
                for st in sts:
                    tasks.append((sk, st, sk[0]))
        if past_deadline():
            emit({"t": "incomplete", "unit": "depth-%d" % depth})
            exhaustive = False
            break
        results = [None] * len(tasks)
        stop = threading.Event()

        def run_t(i):
            if stop.is_set() or past_deadline():
                stop.set()
                return None
            sk, st, f = tasks[i]
            ctx = worker_ctx()
            ctx.n += 1
            return execute(st, f, states[sk]["path"] if sk else None, ctx.dir, "t%d" % (ctx.n % 4), fam_in=(states[sk]["info"]["family"] if sk else None))
        nxt = []
        ndone = 0
        divergent = unexp = 0
        for i, res in enumerate(pool.map(run_t, range(len(tasks)))):
            if res is None:
                continue
            ndone += 1
            sk, st, f = tasks[i]
            script = (states[sk]["script"] if sk else []) + [st]
            case = {"kind": "script", "fmt": f, "script": script, "family": (states[sk]["info"]["family"] if sk else None)}
            book.record("depth-%d" % depth, st, res, case)
            if any(k.startswith("grid-differs") for k, _ in res["viol"]):
                divergent += 1
            if res.get("unexpandable"):
                unexp += 1
            nw = res.get("new")
            if nw is not None:
                nk = (f, nw["key"])
                if nk not in states:
                    p = os.path.join(sdir, "%s_%s" % (f[0], nw["key"]))
                    with open(p, "wb") as fh:
                        fh.write(nw["bytes"])
                    states[nk] = dict(path=p, info=nw["info"], cand=nw["cand"], script=script, depth=depth)
                    nxt.append(nk)
            res.pop("new", None)
        complete = (ndone == len(tasks))
        fams = {}
        for nk in nxt:
            fams[states[nk]["info"]["family"]] = fams.get(states[nk]["info"]["family"], 0) + 1
        emit({"t": "unit", "unit": "depth-%d" % depth, "states": len(nxt), "transitions": book.transitions - tr0, "execs": book.transitions - tr0,
              "evals": book.transitions - tr0, "distinct": len(book.distinct) - dist0, "complete": complete, "planned": len(tasks),
              "divergent_successors_not_expanded": divergent, "successors_not_expanded_because_write_or_getter_crashes_in_the_api": unexp, "new_states_by_family": fams, "wall": round(time.time() - t0, 2)})
        if nxt:
            sm = states[nxt[len(nxt) // 2]]
            emit({"t": "sample", "case": {"fmt": nxt[len(nxt) // 2][0], "script": [[s["cli"]] + [x for sc in s["scal"] for x in sc[0:1] + sc[3:4]] + [m[0] for m in s["mats"]] for s in sm["script"]],
                                          "grid": {k: sm["info"].get(k) for k in ("family", "rule", "outs", "np", "nn", "nl", "construct")}}})
        if not complete:
            emit({"t": "incomplete", "unit": "depth-%d" % depth})
            exhaustive = False
            break
        units_done += 1
        depth_done = depth
        frontier = sorted(nxt)
    pool.shutdown(wait=True)
    for s in ALL_SERVERS:
        s.close()
    for k, n in sorted(book.outcomes.items()):
        emit({"t": "outcome", "key": k, "n": n})
    for sig, n in sorted(book.sigcount.items()):
        if n > 3:
            emit({"t": "note", "text": "%s: %d occurrences (3 written out)" % (sig, n)})
    nb = sum(1 for k in states if k[0] == "binary")
    emit({"t": "note", "text": "distinct grid-file states: %d (%d binary, %d ascii); scripts completed up to make + %d command(s)" % (len(states), nb, len(states) - nb, max(depth_done, 0))})
    emit({"t": "summary", "units_total": units_total, "units_done": units_done, "exhaustive": exhaustive and depth_done >= MAXDEPTH + 1,
          "bound": "C16 tier=%s: all scripts make* (%d configurations x 2 grid formats) + up to %d command(s) over an alphabet of %s commands per state; completed depth %d; %d states, %d transitions"
                   % (TIER, len(make_lattice(TIER)), MAXDEPTH, "up to %d" % alpha_max, depth_done, len(states), book.transitions)})
    shutil.rmtree(SCRATCH, ignore_errors=True)
    return 0


if __name__ == "__main__":
    try:
        if REPLAY:
            replay(REPLAY)
        else:
            main()
    except Exception as e:  # noqa
        import traceback
        emit({"t": "error", "what": "explorer crashed: %s %s" % (e, traceback.format_exc()[-1500:])})
        shutil.rmtree(SCRATCH, ignore_errors=True)
    sys.exit(0)
