// cli_mirror - the API side of the C16 oracle (tasgrid command line tool == library API).
//
// For ONE tasgrid invocation described by a task file, this program performs the *documented* equivalent sequence of
// C++ API calls (mapping taken from Doxygen/InterfaceCLI.md, the `tasgrid <command> help` texts, the headers of
// InterfaceMATLAB/*.m and the Doxygen comments of TasmanianSparseGrid.hpp - not from tasgridWrapper.cpp), and writes
//   * the resulting grid with write() in BOTH formats (<gout>.bin, <gout>.asc),
//   * the result matrix in the documented matrix-file format (ASCII "rows cols\n..." with 17 digits, or "TSG"+2 ints+doubles),
//   * a status/info JSON: {"status":"ok"|"throw"|"precond", ...,"g":{description of the resulting grid}}.
// "precond" = the task asks for an API call whose documented precondition does not hold (behaviour undefined by the
// documentation, e.g. evaluate() without loaded values); the explorer then only demands that tasgrid does not crash.
//
// Input values are handed over by the explorer directly (it does not go through the matrix files that tasgrid reads, the
// matrix reader of the tool is part of what is being checked).
//
//   cli_mirror <task-file>          run one task (in a forked child, so that crashes become a status)
//   cli_mirror --server             read task-file paths from stdin, one per line; answer one line per task
//
// Task file: one item per line
//   s <key> <string>      i <key> <int>      d <key> <double>      iv <key> n v1..vn      m <key> rows cols v...
#include "TasmanianSparseGrid.hpp"
#include "vf.hpp"
#include <map>
#include <fstream>
#include <iostream>
#include <sstream>
#include <typeinfo>

using namespace TasGrid;

struct Mat { int rows = 0, cols = 0; std::vector<double> v; bool set = false; };
struct Task {
    std::map<std::string, std::string> s; std::map<std::string, long> i; std::map<std::string, double> d;
    std::map<std::string, std::vector<int>> iv; std::map<std::string, Mat> m;
    bool hs(const std::string &k) const{ return s.count(k) > 0; }
    bool hi(const std::string &k) const{ return i.count(k) > 0; }
    bool hd(const std::string &k) const{ return d.count(k) > 0; }
    bool hm(const std::string &k) const{ return m.count(k) > 0; }
    std::string gs(const std::string &k, const std::string &def = "") const{ auto it = s.find(k); return it == s.end() ? def : it->second; }
    long gi(const std::string &k, long def) const{ auto it = i.find(k); return it == i.end() ? def : it->second; }
    double gd(const std::string &k, double def) const{ auto it = d.find(k); return it == d.end() ? def : it->second; }
    std::vector<int> giv(const std::string &k) const{ auto it = iv.find(k); return it == iv.end() ? std::vector<int>() : it->second; }
};
static bool parse_task(const std::string &path, Task &t){
    std::ifstream f(path); if (!f.good()) return false; std::string line;
    while(std::getline(f, line)){
        if (line.empty()) continue; std::istringstream is(line); std::string kind, key; is >> kind >> key;
        if (kind == "s"){ std::string rest; std::getline(is, rest); if (!rest.empty() && rest[0] == ' ') rest = rest.substr(1); t.s[key] = rest; }
        else if (kind == "i"){ long v; is >> v; t.i[key] = v; }
        else if (kind == "d"){ std::string tok; is >> tok; t.d[key] = strtod(tok.c_str(), nullptr); }
        else if (kind == "iv"){ int n; is >> n; std::vector<int> v(n); for(auto &x : v) is >> x; t.iv[key] = v; }
        else if (kind == "m"){ Mat M; is >> M.rows >> M.cols; M.v.resize((size_t) M.rows * M.cols); for(auto &x : M.v){ std::string tok; is >> tok; x = strtod(tok.c_str(), nullptr); } M.set = true; t.m[key] = M; }
    }
    return true;
}

// ---------------------------------------------------------------- documented matrix-file format
static void write_matrix(const std::string &path, bool ascii, int rows, int cols, const double *data){
    if (path.empty()) return;
    if (ascii){
        FILE *f = fopen(path.c_str(), "w"); if (!f) return;
        fprintf(f, "%d %d\n", rows, cols);
        for(int i=0;i<rows;i++){ for(int j=0;j<cols;j++) fprintf(f, "%s%.17e", j ? " " : "", data[(size_t) i * cols + j]); fprintf(f, "\n"); }
        fclose(f);
    }else{
        FILE *f = fopen(path.c_str(), "wb"); if (!f) return;
        fwrite("TSG", 1, 3, f); fwrite(&rows, sizeof(int), 1, f); fwrite(&cols, sizeof(int), 1, f);
        if ((size_t) rows * cols > 0) fwrite(data, sizeof(double), (size_t) rows * cols, f);
        fclose(f);
    }
}
// sparse matrix as read by InterfaceMATLAB/tsgEvaluateHierarchy.m: TSG, rows, cols, nnz, pntr[rows+1], indx[nnz], vals[nnz]
static void write_sparse(const std::string &path, bool ascii, int rows, int cols, const std::vector<int> &pntr, const std::vector<int> &indx, const std::vector<double> &vals){
    if (path.empty()) return; int nnz = (int) indx.size();
    if (ascii){
        FILE *f = fopen(path.c_str(), "w"); if (!f) return;
        fprintf(f, "%d %d %d\n", rows, cols, nnz);
        for(size_t i=0;i<pntr.size();i++) fprintf(f, "%s%d", i ? " " : "", pntr[i]); fprintf(f, "\n");
        for(size_t i=0;i<indx.size();i++) fprintf(f, "%s%d", i ? " " : "", indx[i]); fprintf(f, "\n");
        for(size_t i=0;i<vals.size();i++) fprintf(f, "%s%.17e", i ? " " : "", vals[i]); fprintf(f, "\n");
        fclose(f);
    }else{
        FILE *f = fopen(path.c_str(), "wb"); if (!f) return;
        fwrite("TSG", 1, 3, f); fwrite(&rows, sizeof(int), 1, f); fwrite(&cols, sizeof(int), 1, f); fwrite(&nnz, sizeof(int), 1, f);
        if (!pntr.empty()) fwrite(pntr.data(), sizeof(int), pntr.size(), f);
        if (!indx.empty()) fwrite(indx.data(), sizeof(int), indx.size(), f);
        if (!vals.empty()) fwrite(vals.data(), sizeof(double), vals.size(), f);
        fclose(f);
    }
}

struct Precond { std::string what; };

static std::string family(const TasmanianSparseGrid &g){
    if (g.isGlobal()) return "global"; if (g.isSequence()) return "sequence"; if (g.isLocalPolynomial()) return "localp";
    if (g.isWavelet()) return "wavelet"; if (g.isFourier()) return "fourier"; return "empty";
}
static std::string describe(const TasmanianSparseGrid &g){
    vf::J j; j.s("family", family(g)).i("dims", g.getNumDimensions()).i("outs", g.getNumOutputs()).i("np", g.getNumPoints())
        .i("nn", g.getNumNeeded()).i("nl", g.getNumLoaded()).b("construct", g.isUsingConstruction());
    if (g.empty()) return j.str();
    j.s("rule", IO::getRuleString(g.getRule())).i("order", g.getOrder()).n("alpha", g.getAlpha()).n("beta", g.getBeta());
    std::vector<double> a, b; g.getDomainTransform(a, b); j.raw("a", vf::jarrd(a)).raw("b", vf::jarrd(b));
    j.b("conformal", g.isSetConformalTransformASIN()).raw("limits", vf::jarr(g.getLevelLimits()));
    // the points that a following -loadvalues has to provide values for
    std::vector<double> lp = (g.getNumNeeded() > 0) ? g.getNeededPoints() : g.getPoints();
    j.raw("lp", vf::jarrd(lp));
    return j.str();
}
// candidate points for a following -loadconstructed, computed on a copy (never touches the mirrored grid)
static std::string candidates(const TasmanianSparseGrid &g){
    std::vector<double> c;
    try{
        if (g.empty() || g.getNumOutputs() == 0) return "[]";
        TasmanianSparseGrid h(g);
        if (!h.isUsingConstruction()) h.beginConstruction();
        if (h.isLocalPolynomial() || h.isWavelet()) c = h.getCandidateConstructionPoints(1.E-3, refine_classic, -1);
        else c = h.getCandidateConstructionPoints(type_level, std::vector<int>((size_t) h.getNumDimensions(), 1));
        size_t cap = (size_t) 6 * h.getNumDimensions(); if (c.size() > cap) c.resize(cap);
    }catch(std::exception &){ c.clear(); }
    return vf::jarrd(c);
}

static std::vector<double> mat_or_empty(const Task &t, const std::string &k){ auto it = t.m.find(k); return it == t.m.end() ? std::vector<double>() : it->second.v; }

// performs the documented API calls of one command; returns through the JSON builder
static void perform(const Task &t, vf::J &res, int fd){
    const std::string cmd = t.gs("cmd");
    const bool ascii = t.gi("ascii", 0) != 0;
    const std::string of = t.gs("of"), gout = t.gs("gout");
    TasmanianSparseGrid g;
    bool wrote_grid = false, have_mat = false; std::string text;
    int mr = 0, mc = 0; std::vector<double> mv;
    auto set_mat = [&](int r, int c, std::vector<double> v){ mr = r; mc = c; mv = std::move(v); have_mat = true; };
    auto need_values = [&](const char *what){ if (g.getNumOutputs() == 0 || g.getNumLoaded() == 0) throw Precond{std::string(what) + " needs outputs and loaded values"}; };

    const bool is_make = (cmd.compare(0, 4, "make") == 0);
    if (!is_make) g = readGrid(t.gs("gin"));

    const int dims_in = g.getNumDimensions();
    auto xmat = [&]() -> const Mat& { static Mat none; auto it = t.m.find("x"); return it == t.m.end() ? none : it->second; };

    if (is_make){
        int dims = (int) t.gi("dim", 0), outs = (int) t.gi("out", -1), depth = (int) t.gi("depth", -1), order = (int) t.gi("order", 1);
        TypeDepth type = t.hs("type") ? IO::getDepthTypeString(t.gs("type")) : type_none;
        TypeOneDRule rule = t.hs("rule") ? IO::getRuleString(t.gs("rule")) : rule_none;
        double alpha = t.gd("alpha", 0.0), beta = t.gd("beta", 0.0);
        std::vector<int> aniso = t.giv("aniso"), limits = t.giv("limits");
        if (cmd == "makeglobal") g.makeGlobalGrid(dims, outs, depth, type, rule, aniso, alpha, beta, nullptr, limits);
        else if (cmd == "makesequence") g.makeSequenceGrid(dims, outs, depth, type, rule, aniso, limits);
        else if (cmd == "makelocalpoly") g.makeLocalPolynomialGrid(dims, outs, depth, order, rule, limits);
        else if (cmd == "makewavelet") g.makeWaveletGrid(dims, outs, depth, order, limits);
        else if (cmd == "makefourier") g.makeFourierGrid(dims, outs, depth, type, aniso, limits);
        else if (cmd == "makequadrature"){
            // "Make quadrature creates a grid with zero outputs and type that is based on the one dimensional rule"
            if (OneDimensionalMeta::isLocalPolynomial(rule)) g.makeLocalPolynomialGrid(dims, 0, depth, order, rule, limits);
            else if (OneDimensionalMeta::isWavelet(rule)) g.makeWaveletGrid(dims, 0, depth, order, limits);
            else if (OneDimensionalMeta::isFourier(rule)) g.makeFourierGrid(dims, 0, depth, type, aniso, limits);
            else g.makeGlobalGrid(dims, 0, depth, type, rule, aniso, alpha, beta, nullptr, limits);
        }else throw std::logic_error("mirror: unknown make command " + cmd);
        if (t.hm("transform")){ // matrix dims x 2: column a, column b
            const Mat &T = t.m.at("transform"); std::vector<double> a((size_t) T.rows), b((size_t) T.rows);
            for(int k=0;k<T.rows;k++){ a[k] = T.v[(size_t) 2*k]; b[k] = T.v[(size_t) 2*k+1]; }
            g.setDomainTransform(a, b);
        }
        if (t.iv.count("conformal")) g.setConformalTransformASIN(t.giv("conformal"));
        if (cmd == "makequadrature"){
            auto w = g.getQuadratureWeights(); auto p = g.getPoints(); int np = g.getNumPoints(), d = g.getNumDimensions();
            std::vector<double> M((size_t) np * (d + 1));
            for(int k=0;k<np;k++){ M[(size_t) k*(d+1)] = w[k]; for(int j=0;j<d;j++) M[(size_t) k*(d+1)+1+j] = p[(size_t) k*d+j]; }
            set_mat(np, d + 1, M);
        }else{
            set_mat(g.getNumPoints(), g.getNumDimensions(), g.getPoints());
            wrote_grid = true;
        }
    }else if (cmd == "update"){
        g.updateGrid((int) t.gi("depth", -1), IO::getDepthTypeString(t.gs("type")), t.giv("aniso"));
        set_mat(g.getNumNeeded(), g.getNumDimensions(), g.getNeededPoints()); // help: "-outputfile or -print output the new points of the grid"
        wrote_grid = true;
    }else if (cmd == "setconformal"){
        g.setConformalTransformASIN(t.giv("conformal")); wrote_grid = true;
    }else if (cmd == "getquadrature"){
        auto w = g.getQuadratureWeights(); auto p = g.getPoints(); int np = g.getNumPoints(), d = g.getNumDimensions();
        std::vector<double> M((size_t) np * (d + 1));
        for(int k=0;k<np;k++){ M[(size_t) k*(d+1)] = w[k]; for(int j=0;j<d;j++) M[(size_t) k*(d+1)+1+j] = p[(size_t) k*d+j]; }
        set_mat(np, d + 1, M);
    }else if (cmd == "getinterweights" || cmd == "getdiffweights"){
        const Mat &X = xmat(); int np = g.getNumPoints(); int per = (cmd == "getinterweights") ? np : np * dims_in;
        std::vector<double> M;
        for(int k=0;k<X.rows;k++){
            std::vector<double> x(X.v.begin() + (size_t) k * X.cols, X.v.begin() + (size_t) (k+1) * X.cols);
            std::vector<double> w = (cmd == "getinterweights") ? g.getInterpolationWeights(x) : g.getDifferentiationWeights(x);
            M.insert(M.end(), w.begin(), w.end());
        }
        set_mat(X.rows, per, M);
    }else if (cmd == "getpoints"){
        set_mat(g.getNumPoints(), dims_in, g.getPoints());
    }else if (cmd == "getneeded"){
        set_mat(g.getNumNeeded(), dims_in, g.getNeededPoints());
    }else if (cmd == "loadvalues"){
        if (g.getNumOutputs() == 0) throw Precond{"loadNeededValues on a grid without outputs"};
        g.loadNeededValues(mat_or_empty(t, "vals")); wrote_grid = true;
    }else if (cmd == "evaluate"){
        need_values("evaluateBatch"); const Mat &X = xmat(); if (X.cols != dims_in) throw Precond{"evaluateBatch does not check the size of x"};
        std::vector<double> y; g.evaluateBatch(X.v, y); set_mat(X.rows, g.getNumOutputs(), y);
    }else if (cmd == "integrate"){
        need_values("integrate"); std::vector<double> q; g.integrate(q); set_mat(1, g.getNumOutputs(), q); res.b("vec", true);
    }else if (cmd == "differentiate"){
        need_values("differentiate"); const Mat &X = xmat(); if (X.cols != dims_in) throw Precond{"x of the wrong size"};
        std::vector<double> M;
        for(int k=0;k<X.rows;k++){
            std::vector<double> x(X.v.begin() + (size_t) k * X.cols, X.v.begin() + (size_t) (k+1) * X.cols), jac;
            g.differentiate(x, jac); M.insert(M.end(), jac.begin(), jac.end());
        }
        set_mat(X.rows, g.getNumOutputs() * dims_in, M);
    }else if (cmd == "evalhierarchyd"){
        const Mat &X = xmat(); if (X.cols != dims_in) throw Precond{"x of the wrong size"};
        std::vector<double> y = g.evaluateHierarchicalFunctions(X.v);
        set_mat(X.rows, g.getNumPoints() * (g.isFourier() ? 2 : 1), y);
    }else if (cmd == "evalhierarchys"){
        const Mat &X = xmat(); if (X.cols != dims_in) throw Precond{"x of the wrong size"};
        std::vector<int> pntr, indx; std::vector<double> vals;
        g.evaluateSparseHierarchicalFunctions(X.v, pntr, indx, vals);
        write_sparse(of, ascii, X.rows, g.getNumPoints(), pntr, indx, vals);
        res.b("wrote_mat", true).i("mat_rows", X.rows).i("mat_cols", g.getNumPoints());
        std::vector<double> flat; flat.push_back(X.rows); flat.push_back(g.getNumPoints()); flat.push_back((double) indx.size());
        for(int v : pntr) flat.push_back(v); for(int v : indx) flat.push_back(v); for(double v : vals) flat.push_back(v);
        res.raw("flat", vf::jarrd(flat));
    }else if (cmd == "gethsupport"){
        set_mat(g.getNumPoints(), dims_in, g.getHierarchicalSupport());
    }else if (cmd == "getanisotropy"){
        TypeDepth type = IO::getDepthTypeString(t.gs("type"));
        std::vector<int> w = g.estimateAnisotropicCoefficients(type, (int) t.gi("refout", -1));
        set_mat(1, (int) w.size(), std::vector<double>(w.begin(), w.end())); res.b("vec", true);
    }else if (cmd == "refineaniso" || cmd == "refinesurp" || cmd == "refine"){
        std::vector<int> limits = t.giv("limits"); int refout = (int) t.gi("refout", -1);
        bool aniso = (cmd == "refineaniso");
        // InterfaceCLI.md: "-refine will call anisotropic refinement on Global, Sequence, and Fourier grids, and surplus refinement for Local Polynomial and Wavelet grids"
        if (cmd == "refine") aniso = (g.isGlobal() || g.isSequence() || g.isFourier());
        if (aniso){
            g.setAnisotropicRefinement(IO::getDepthTypeString(t.gs("type")), (int) t.gi("mingrowth", 1), refout, limits);
        }else if (g.isLocalPolynomial() || g.isWavelet()){
            g.setSurplusRefinement(t.gd("tol", 0.0), IO::getTypeRefinementString(t.gs("reftype")), refout, limits, mat_or_empty(t, "scale"));
        }else{
            g.setSurplusRefinement(t.gd("tol", 0.0), refout, limits);
        }
        set_mat(g.getNumNeeded(), dims_in, g.getNeededPoints()); wrote_grid = true;
    }else if (cmd == "cancelrefine"){
        g.clearRefinement(); if (g.isUsingConstruction()) g.finishConstruction(); // InterfaceMATLAB.md: clearRefinement()/finishConstruction()
        wrote_grid = true;
    }else if (cmd == "mergerefine"){
        g.mergeRefinement(); wrote_grid = true;
    }else if (cmd == "getconstructpnts"){
        if (!g.isUsingConstruction()) g.beginConstruction(); // tsgGetCandidateConstruction*.m: "this will call the C++ method beginConstruction()"
        std::vector<int> limits = t.giv("limits"); int refout = (int) t.gi("refout", -1); std::vector<double> p;
        if (g.isLocalPolynomial() || g.isWavelet())
            p = g.getCandidateConstructionPoints(t.gd("tol", 0.0), IO::getTypeRefinementString(t.gs("reftype")), refout, limits, mat_or_empty(t, "scale"));
        else if (t.iv.count("aniso")) p = g.getCandidateConstructionPoints(IO::getDepthTypeString(t.gs("type")), t.giv("aniso"), limits);
        else p = g.getCandidateConstructionPoints(IO::getDepthTypeString(t.gs("type")), refout, limits);
        set_mat((int) (p.size() / (size_t) dims_in), dims_in, p); wrote_grid = true;
    }else if (cmd == "loadconstructed"){
        if (g.getNumOutputs() == 0) throw Precond{"loadConstructedPoints on a grid without outputs"};
        const Mat &X = xmat(); if (X.cols != dims_in) throw Precond{"x of the wrong size"};
        if (!g.isUsingConstruction()) g.beginConstruction(); // tsgLoadConstructedPoints.m: "this will call the C++ method beginConstruction()"
        g.loadConstructedPoints(X.v, mat_or_empty(t, "vals")); wrote_grid = true;
    }else if (cmd == "getcoefficients"){
        if (g.getNumOutputs() == 0 || g.getNumLoaded() == 0) throw Precond{"getHierarchicalCoefficients() is documented to return nullptr (no outputs or no loaded points)"};
        const double *c = g.getHierarchicalCoefficients();
        if (c == nullptr) throw Precond{"getHierarchicalCoefficients() returns nullptr (no outputs or no loaded points)"};
        int np = g.getNumPoints(), no = g.getNumOutputs();
        if (g.isFourier()){ // CLI format: real and imaginary parts interleaved, twice as many columns
            std::vector<double> M((size_t) 2 * np * no);
            for(int p=0;p<np;p++) for(int k=0;k<no;k++){ M[(size_t) p*2*no + 2*k] = c[(size_t) p*no + k]; M[(size_t) p*2*no + 2*k + 1] = c[(size_t) (np + p)*no + k]; }
            set_mat(np, 2 * no, M);
        }else set_mat(np, no, std::vector<double>(c, c + (size_t) np * no));
    }else if (cmd == "setcoefficients"){
        if (g.getNumOutputs() == 0) throw Precond{"setHierarchicalCoefficients on a grid without outputs"};
        const Mat &C = t.m.at("vals"); int np = g.getNumPoints(), no = g.getNumOutputs();
        if (g.isFourier() && C.rows == np && C.cols == 2 * no){ // interleaved on the command line, split (real block, imaginary block) in the API
            std::vector<double> c((size_t) 2 * np * no);
            for(int p=0;p<np;p++) for(int k=0;k<no;k++){ c[(size_t) p*no + k] = C.v[(size_t) p*2*no + 2*k]; c[(size_t) (np + p)*no + k] = C.v[(size_t) p*2*no + 2*k + 1]; }
            g.setHierarchicalCoefficients(c);
        }else g.setHierarchicalCoefficients(C.v);
        wrote_grid = true;
    }else if (cmd == "getpoly"){
        std::string ty = t.gs("type"); bool interp = (!ty.empty() && ty[0] == 'i');
        std::vector<int> p = g.getGlobalPolynomialSpace(interp);
        set_mat((int) (p.size() / (size_t) dims_in), dims_in, std::vector<double>(p.begin(), p.end()));
    }else if (cmd == "getpointsindexes" || cmd == "getneededindexes"){
        bool needed = (cmd == "getneededindexes");
        const int *p = needed ? g.getNeededIndexes() : g.getPointsIndexes();
        int n = needed ? g.getNumNeeded() : g.getNumPoints();
        if (p == nullptr && n > 0) throw Precond{"index array is null"};
        set_mat(n, dims_in, std::vector<double>(p, p + (size_t) n * dims_in));
    }else if (cmd == "summary"){
        std::ostringstream os; g.printStats(os); text = os.str();
    }else if (cmd == "using-construct"){
        text = g.isUsingConstruction() ? "enabled" : "disabled";
    }else throw std::logic_error("mirror: unknown command " + cmd);

    if (have_mat){ write_matrix(of, ascii, mr, mc, mv.data()); res.b("wrote_mat", true).i("mat_rows", mr).i("mat_cols", mc).raw("flat", vf::jarrd(mv)); }
    // primary result: exactly what the command is documented to produce (grid in the requested format, result matrix)
    if (wrote_grid && !gout.empty()) g.write((gout + (ascii ? ".asc" : ".bin")).c_str(), ascii ? mode_ascii : mode_binary);
    res.b("wrote_grid", wrote_grid).s("text", text);
    { vf::J first = res; first.s("status", "ok").b("extras", false); vf::wr(fd, first.str() + "\n"); }
    // extras for the explorer (state key, description of the state, inputs of later commands); a crash here is not a verdict
    if (wrote_grid && !gout.empty()) g.write((gout + (ascii ? ".bin" : ".asc")).c_str(), ascii ? mode_binary : mode_ascii);
    res.raw("g", describe(g));
    if (t.gi("want_cand", 0)) res.raw("cand", candidates(g));
    res.b("extras", true);
}

static std::string run_task(const std::string &path, int fd){
    Task t; if (!parse_task(path, t)) return vf::J().s("status", "error").s("what", "cannot read task " + path).str();
    vf::J res;
    try{
        perform(t, res, fd); res.s("status", "ok");
    }catch(Precond &p){
        vf::J r; r.s("status", "precond").s("what", p.what); return r.str();
    }catch(std::logic_error &e){
        if (std::string(e.what()).compare(0, 7, "mirror:") == 0){ vf::J r; r.s("status", "error").s("what", e.what()); return r.str(); }
        vf::J r; r.s("status", "throw").s("exc", dynamic_cast<std::invalid_argument*>(&e) ? "invalid_argument" : (dynamic_cast<std::out_of_range*>(&e) ? "out_of_range" : "logic_error")).s("what", e.what()); return r.str();
    }catch(std::runtime_error &e){
        vf::J r; r.s("status", "throw").s("exc", "runtime_error").s("what", e.what()); return r.str();
    }catch(std::exception &e){
        vf::J r; r.s("status", "throw").s("exc", "exception").s("what", e.what()); return r.str();
    }
    return res.str();
}

// runs the task in a forked child; the answer is one JSON line
static std::string run_forked(const std::string &path, double timeout){
    vf::Outcome o = vf::run_child([&](int fd){ vf::wr(fd, run_task(path, fd) + "\n"); }, timeout);
    // the child prints the primary result first and the complete result last (one line each)
    std::vector<std::string> lines; { std::istringstream is(o.out); std::string l; while(std::getline(is, l)) if (!l.empty() && l.back() == '}') lines.push_back(l); }
    if (o.kind == vf::Outcome::OK && !lines.empty()) return lines.back();
    if (!lines.empty()){ // the primary part finished, the extras crashed
        std::string first = lines.front(); first.pop_back();
        return first + ",\"extras_crash\":" + vf::jesc(o.kind == vf::Outcome::SANITIZER ? o.sanitizer_class() : o.describe()) + "}";
    }
    vf::J r; r.s("status", "crash").s("kind", o.describe());
    if (o.kind == vf::Outcome::SANITIZER) r.s("class", o.sanitizer_class());
    r.s("stderr", o.err.substr(0, 1500)); r.s("partial", o.out.substr(0, 200));
    return r.str();
}

int main(int argc, char **argv){
    vf::Args A(argc, argv);
    double timeout = A.getd("--timeout", 30.0);
    if (A.has("--server")){
        std::string line;
        while(std::getline(std::cin, line)){
            if (line.empty()) continue; if (line == "quit") break;
            std::string ans = run_forked(line, timeout);
            for(char &c : ans) if (c == '\n') c = ' ';
            ans += "\n"; vf::wr(1, ans);
        }
        return 0;
    }
    if (argc < 2){ fprintf(stderr, "usage: cli_mirror <task> | --server\n"); return 2; }
    std::string ans = run_forked(argv[1], timeout); ans += "\n"; vf::wr(1, ans);
    return 0;
}
