// tgrid.hpp - Tasmanian-specific common code: configuration lattice, grid factory, observation vector,
// model value functions and *independent* reference models of the 1-D hierarchies (closed formulas on
// coordinates, no library calls).
#ifndef TGRID_HPP
#define TGRID_HPP
#include "vf.hpp"
#include "TasmanianSparseGrid.hpp"
#include <map>
#include <set>
#include <algorithm>

namespace tg {
using namespace TasGrid;

enum Family { F_GLOBAL = 0, F_SEQUENCE, F_LOCALP, F_WAVELET, F_FOURIER };
inline const char* famname(int f){ static const char *n[] = {"global","sequence","localp","wavelet","fourier"}; return n[f]; }

inline std::string depthname(TypeDepth t){ for(auto &p : IO::getStringToDepthMap()) if (p.second == t) return p.first; return "none"; }
inline std::string refname(TypeRefinement t){ for(auto &p : IO::getStringToRefinementMap()) if (p.second == t) return p.first; return "none"; }

struct Cfg {
    int fam = F_GLOBAL; int dims = 1, outs = 1, depth = 1; TypeDepth type = type_level; TypeOneDRule rule = rule_clenshawcurtis;
    int order = 1; std::vector<int> aw; double alpha = 0, beta = 0; std::vector<int> limits; std::vector<double> ta, tb; std::vector<int> conformal;
    std::string custom;
    std::string str() const{
        std::ostringstream o; o.precision(17);
        o << "fam=" << famname(fam) << ";rule=" << IO::getRuleString(rule) << ";d=" << dims << ";o=" << outs << ";depth=" << depth
          << ";type=" << depthname(type) << ";order=" << order;
        auto iv = [&](const char *k, const std::vector<int> &v){ if (!v.empty()){ o << ";" << k << "="; for(size_t i=0;i<v.size();i++) o << (i?",":"") << v[i]; } };
        iv("aw", aw); iv("lim", limits); iv("conf", conformal);
        if (alpha != 0 || beta != 0) o << ";ab=" << alpha << "," << beta;
        if (!ta.empty()){ o << ";ta="; for(size_t i=0;i<ta.size();i++) o << (i?",":"") << ta[i]; o << ";tb="; for(size_t i=0;i<tb.size();i++) o << (i?",":"") << tb[i]; }
        if (!custom.empty()) o << ";custom=" << custom;
        return o.str();
    }
    static Cfg parse(const std::string &s){
        Cfg c; std::map<std::string,std::string> kv; size_t p = 0;
        while(p < s.size()){ size_t e = s.find(';', p); if (e == std::string::npos) e = s.size(); std::string t = s.substr(p, e - p); size_t q = t.find('='); if (q != std::string::npos) kv[t.substr(0,q)] = t.substr(q+1); p = e + 1; }
        auto ints = [](const std::string &v){ std::vector<int> r; std::stringstream ss(v); std::string t; while(std::getline(ss, t, ',')) r.push_back(atoi(t.c_str())); return r; };
        auto dbls = [](const std::string &v){ std::vector<double> r; std::stringstream ss(v); std::string t; while(std::getline(ss, t, ',')) r.push_back(atof(t.c_str())); return r; };
        for(int f=0; f<5; f++) if (kv["fam"] == famname(f)) c.fam = f;
        c.rule = IO::getRuleString(kv["rule"]); c.dims = atoi(kv["d"].c_str()); c.outs = atoi(kv["o"].c_str()); c.depth = atoi(kv["depth"].c_str());
        c.type = IO::getDepthTypeString(kv["type"]); c.order = atoi(kv["order"].c_str());
        if (kv.count("aw")) c.aw = ints(kv["aw"]); if (kv.count("lim")) c.limits = ints(kv["lim"]); if (kv.count("conf")) c.conformal = ints(kv["conf"]);
        if (kv.count("ab")){ auto d = dbls(kv["ab"]); c.alpha = d[0]; c.beta = d[1]; }
        if (kv.count("ta")){ c.ta = dbls(kv["ta"]); c.tb = dbls(kv["tb"]); }
        if (kv.count("custom")) c.custom = kv["custom"];
        return c;
    }
};

// custom-tabulated rule given as an object (not a file): 3 levels of Gauss-Legendre nodes (1, 2, 3 points), the description is the interesting part:
// "tabobj:1" an ordinary text, "tabobj:2" the empty string (documented as possible), "tabobj:3" a text that starts with blanks
inline CustomTabulated table_object(int variant){
    const double s3 = std::sqrt(1.0 / 3.0), s5 = std::sqrt(3.0 / 5.0);
    std::vector<std::vector<double>> nodes = {{0.0}, {-s3, s3}, {-s5, 0.0, s5}}, weights = {{2.0}, {1.0, 1.0}, {5.0 / 9.0, 8.0 / 9.0, 5.0 / 9.0}};
    const char *desc[] = {"", "three Gauss-Legendre levels", "", "   indented description"};
    return CustomTabulated(std::vector<int>{1, 2, 3}, std::vector<int>{1, 3, 5}, std::move(nodes), std::move(weights), std::string(desc[(variant >= 1 && variant <= 3) ? variant : 1]));
}
inline void make(TasmanianSparseGrid &g, const Cfg &c){
    if (c.fam == F_GLOBAL && c.custom.compare(0, 7, "tabobj:") == 0){
        g.makeGlobalGrid(c.dims, c.outs, c.depth, c.type, table_object(atoi(c.custom.c_str() + 7)), c.aw, c.limits);
        if (!c.ta.empty()) g.setDomainTransform(c.ta, c.tb);
        if (!c.conformal.empty()) g.setConformalTransformASIN(c.conformal);
        return;
    }
    switch(c.fam){
        case F_GLOBAL:   g.makeGlobalGrid(c.dims, c.outs, c.depth, c.type, c.rule, c.aw, c.alpha, c.beta, c.custom.empty() ? nullptr : c.custom.c_str(), c.limits); break;
        case F_SEQUENCE: g.makeSequenceGrid(c.dims, c.outs, c.depth, c.type, c.rule, c.aw, c.limits); break;
        case F_LOCALP:   g.makeLocalPolynomialGrid(c.dims, c.outs, c.depth, c.order, c.rule, c.limits); break;
        case F_WAVELET:  g.makeWaveletGrid(c.dims, c.outs, c.depth, c.order, c.limits); break;
        default:         g.makeFourierGrid(c.dims, c.outs, c.depth, c.type, c.aw, c.limits); break;
    }
    if (!c.ta.empty()) g.setDomainTransform(c.ta, c.tb);
    if (!c.conformal.empty()) g.setConformalTransformASIN(c.conformal);
}

inline bool nonNestedGlobal(const TasmanianSparseGrid &g){ return g.isGlobal() && OneDimensionalMeta::isNonNested(g.getRule()); }

// ---------------------------------------------------------------- model value functions
// generic smooth non-symmetric function of x with 'outs' outputs; kind selects a family
inline double model(int kind, const double *x, int d, int k){
    double s = 0.3 + 0.1 * k;
    switch(kind){
        case 0: for(int j=0;j<d;j++) s += (j + 1.3) * std::sin(1.1 * x[j] + 0.2 * k + j) + 0.25 * x[j] * x[(j+1)%d]; return s;
        case 1: for(int j=0;j<d;j++) s += (0.7 + 0.3 * j + 0.1 * k) * x[j]; return s;       // affine (member of every reproduced space with linears)
        case 2: return 1.0 + 0.5 * k;                                                     // constant
        case 3: for(int j=0;j<d;j++) s += std::exp(-(1.5 + k) * (x[j] - 0.3) * (x[j] - 0.3)) * (j + 1); return s; // peaked (drives adaptivity)
        case 5: return model(0, x, d, k) * ((k == 0) ? 0.01 : 3.0 + k);                  // outputs of very different magnitude (per-output normalisation matters)
        case 7: { double t = 0; for(int j=0;j<d;j++) t += (double)(j + 1 + k) * x[j]; return std::exp(-t * t) + std::sin(3.0 * t + (double) k) + 0.5 * std::sin(17.0 * x[0] - 11.0 * x[d-1]); } // oscillatory: slow convergence of iterative solvers
        case 6: for(int j=0;j<d;j++) s += std::abs(x[j] - 0.3137 - 0.05 * j) * (1.0 + k) + std::sqrt(std::abs(x[j] + 0.4219)) + ((x[j] > -0.7071) ? 0.5 : 0.0); return s; // kinks, a root singularity and a jump: deep levels keep sizeable coefficients                  // outputs of very different magnitude (per-output normalisation matters)
        case 8: return s + std::abs(x[0] + 0.5 * x[d > 1 ? 1 : 0] - 0.2) + 0.3 * x[d-1] * k; // kink along an oblique plane: classic refinement in >= 2-D leaves points without some of their parents (incomplete hierarchy)
        default: for(int j=0;j<d;j++) s += std::cos(2.0 * M_PI * x[j] * (j + 1)) + 0.5 * std::sin(2.0 * M_PI * x[j]) * (k + 1); return s; // periodic
    }
}
inline std::vector<double> model_values(int kind, const std::vector<double> &x, int d, int outs){
    size_t n = d ? x.size() / d : 0; std::vector<double> v(n * outs);
    for(size_t i=0;i<n;i++) for(int k=0;k<outs;k++) v[i*outs+k] = model(kind, &x[i*d], d, k);
    return v;
}

// ---------------------------------------------------------------- observation vector (public getters only, bit-exact)
struct ObsOpt { bool values = true, coeffs = true, meta = true; };
inline std::string obs(const TasmanianSparseGrid &g, const ObsOpt &opt = ObsOpt()){
    std::ostringstream o;
    if (g.empty()){ return "EMPTY"; }
    int d = g.getNumDimensions(), outs = g.getNumOutputs(), nl = g.getNumLoaded(), nn = g.getNumNeeded();
    o << (g.isGlobal()?"global":g.isSequence()?"sequence":g.isLocalPolynomial()?"localp":g.isWavelet()?"wavelet":"fourier")
      << " rule=" << IO::getRuleString(g.getRule()) << " d=" << d << " o=" << outs << " order=" << g.getOrder()
      << " ab=" << vf::hexd(g.getAlpha()) << "," << vf::hexd(g.getBeta()) << " nl=" << nl << " nn=" << nn << " np=" << g.getNumPoints() << " constr=" << g.isUsingConstruction();
    if (opt.meta){
        o << " lim="; for(int v : g.getLevelLimits()) o << v << ",";
        o << " tr=" << g.isSetDomainTransfrom(); if (g.isSetDomainTransfrom()){ std::vector<double> a, b; g.getDomainTransform(a, b); for(double v : a) o << vf::hexd(v) << ","; o << "/"; for(double v : b) o << vf::hexd(v) << ","; }
        o << " conf=" << g.isSetConformalTransformASIN(); if (g.isSetConformalTransformASIN()) for(int v : g.getConformalTransformASIN()) o << v << ",";
        if (g.getRule() == rule_customtabulated) o << " custom=" << g.getCustomRuleDescription();
    }
    o << " |L:"; if (nl > 0) for(double v : g.getLoadedPoints()) o << vf::hexd(v) << ",";
    o << " |N:"; if (nn > 0) for(double v : g.getNeededPoints()) o << vf::hexd(v) << ",";
    if (opt.values && nl > 0 && outs > 0){ o << " |V:"; const double *v = g.getLoadedValues(); if (v) for(size_t i=0;i<(size_t) nl * outs;i++) o << vf::hexd(v[i]) << ","; else o << "null"; }
    if (opt.coeffs && nl > 0 && outs > 0){ o << " |C:"; const double *c = g.getHierarchicalCoefficients(); size_t n = (size_t) nl * outs * (g.isFourier() ? 2 : 1); if (c) for(size_t i=0;i<n;i++) o << vf::hexd(c[i]) << ","; else o << "null"; }
    return o.str();
}
inline std::string bytes(const TasmanianSparseGrid &g, bool binary){ std::stringstream ss; g.write(ss, binary); return ss.str(); }

// ---------------------------------------------------------------- coordinate helpers
typedef std::vector<double> Pt;
inline std::vector<Pt> split(const std::vector<double> &x, int d){ std::vector<Pt> r; for(size_t i=0;i+d<=x.size(); i+=d) r.push_back(Pt(x.begin()+i, x.begin()+i+d)); return r; }
// canonical coordinate of a transformed point for [-1,1]-based rules
inline double to_canonical(double x, double a, double b){ return (2.0 * x - a - b) / (b - a); }
inline long dy(double xc){ return std::lround(xc * 1048576.0); } // dyadic key (exact for levels <= 20)

// ---------------------------------------------------------------- reference 1-D hierarchies for the polynomial local rules
// Works on canonical coordinates in [-1,1] encoded as dyadic keys (x * 2^20).
struct RefLocal {
    TypeOneDRule rule; int order;
    enum : long { ONE = 1048576 };
    bool tree_only; // true: direct kid/parent tree used by refinement (semilocalp then behaves like localp); false: full ancestry incl. step-parents
    RefLocal(TypeOneDRule r, int ord, bool tree = false) : rule((r == rule_semilocalp && ord < 2) ? rule_localp : r), order(ord), tree_only(tree){}
    // level of a node, -1 if not a node of the rule
    int level(long k) const{
        if (k < -ONE || k > ONE) return -1;
        if (rule == rule_localp0){
            if (k == -ONE || k == ONE) return -1;
            if (k == 0) return 0;
            for(int l = 1; l <= 20; l++){ long step = ONE >> l; if (k % step == 0) return ((k / step) % 2 != 0) ? l : -1; }
            return -1;
        }
        if (rule == rule_localpb){
            if (k == -ONE || k == ONE) return 0;
            if (k == 0) return 1;
        }else{ // localp, semilocalp
            if (k == 0) return 0;
            if (k == -ONE || k == ONE) return 1;
        }
        for(int l = 2; l <= 21; l++){ long step = ONE >> (l - 1); if (step == 0) return -1; if (k % step == 0) return l; }
        return -1;
    }
    // half-width of the support used for the parent/child relation (closed interval around the node), in key units; <0 => whole domain
    long support(long k) const{
        int l = level(k);
        if (rule == rule_localp0) return ONE >> l;
        if (rule == rule_localpb){ if (l == 0) return -1; return ONE >> (l - 1); }
        if (rule == rule_semilocalp && l == 1 && !tree_only) return -1;     // the two boundary functions are global quadratics
        if (l == 0) return ONE; if (l == 1) return ONE;           // localp: hat functions on [-1,1] / [-2,0],[0,2]
        return ONE >> (l - 1);
    }
    // geometric definition: p is a parent of q iff level(p) = level(q) - 1 and q lies in the closed support of p
    std::vector<long> parents(long q) const{
        std::vector<long> r; int l = level(q); if (l <= 0) return r;
        for(long p : nodes_at(l - 1)){ long s = support(p); if (s < 0 || (q >= p - s && q <= p + s)) r.push_back(p); }
        return r;
    }
    std::vector<long> children(long p) const{
        std::vector<long> r; int l = level(p); long s = support(p);
        for(long q : nodes_at(l + 1)) if (s < 0 || (q >= p - s && q <= p + s)) r.push_back(q);
        return r;
    }
    std::vector<long> nodes_at(int l) const{
        std::vector<long> r; if (l < 0 || l > 19) return r;
        if (rule == rule_localp0){ long step = ONE >> l; for(long k = -ONE + step; k < ONE; k += 2 * step) r.push_back(k); if (l == 0){ r.clear(); r.push_back(0); } return r; }
        if (rule == rule_localpb){ if (l == 0){ r.push_back(-ONE); r.push_back(ONE); return r; } if (l == 1){ r.push_back(0); return r; } }
        else { if (l == 0){ r.push_back(0); return r; } if (l == 1){ r.push_back(-ONE); r.push_back(ONE); return r; } }
        long step = ONE >> (l - 1); for(long k = -ONE + step; k < ONE; k += 2 * step) r.push_back(k);
        return r;
    }
};

// reference 1-D hierarchy of the wavelet rule (orders 1 and 3) on dyadic keys: nodes are the dyadic points of [-1,1]; "depth" of a node is 0 for 0 and +-1,
// otherwise the number of binary digits; order 1: level = depth; order 3: the five points of depth <= 1 form level 0, level = depth - 1 afterwards.
// Children: a node of depth >= 1 has the two neighbours of the next depth; -1 and +1 have the one inner neighbour; 0 has the two nodes of the first depth
// that is not part of level 0 (+-1/2 for order 1, +-1/4 for order 3).
struct RefWavelet {
    int order; enum : long { ONE = 1048576 };
    explicit RefWavelet(int ord) : order(ord){}
    int depth(long k) const{ if (k < -ONE || k > ONE) return -1; if (k == 0 || k == ONE || k == -ONE) return 0; for(int l = 1; l <= 20; l++) if (k % (ONE >> l) == 0) return l; return -1; }
    int level(long k) const{ int dd = depth(k); if (dd < 0) return -1; return (order == 1) ? dd : std::max(0, dd - 1); }
    std::vector<long> children(long k) const{
        std::vector<long> r; int dd = depth(k); if (dd < 0 || dd >= 19) return r;
        long first = (order == 1) ? ONE / 2 : ONE / 4;
        if (k == 0){ r.push_back(-first); r.push_back(first); return r; }
        if (k == -ONE){ r.push_back(-ONE + first); return r; }
        if (k == ONE){ r.push_back(ONE - first); return r; }
        long h = ONE >> (dd + 1); r.push_back(k - h); r.push_back(k + h); return r;
    }
};

} // namespace tg
#endif
