// vf.hpp - common machinery for the /verif harnesses (no Tasmanian dependency):
//   JSON-lines output, forked children with watchdog (sanitizer reports / signals / hangs become outcomes),
//   dynamic parallel work units over forked workers, digests, deadline handling.
#ifndef VF_HPP
#define VF_HPP
#include <string>
#include <vector>
#include <sstream>
#include <functional>
#include <cstdio>
#include <cstdlib>
#include <cstring>
#include <cstdint>
#include <cmath>
#include <ctime>
#include <unistd.h>
#include <fcntl.h>
#include <poll.h>
#include <signal.h>
#include <sys/wait.h>
#include <sys/mman.h>
#include <sys/stat.h>
#include <sys/time.h>

extern "C" const char *__asan_default_options() __attribute__((weak));
extern "C" const char *__asan_default_options(){ return "detect_leaks=0:exitcode=77:abort_on_error=0:allocator_may_return_null=0:handle_abort=0:detect_stack_use_after_return=0"; }
extern "C" const char *__ubsan_default_options() __attribute__((weak));
extern "C" const char *__ubsan_default_options(){ return "print_stacktrace=0:halt_on_error=1:exitcode=78"; }
extern "C" const char *__tsan_default_options() __attribute__((weak));
extern "C" const char *__tsan_default_options(){ return "exitcode=79:halt_on_error=0:report_signal_unsafe=0"; }

namespace vf {

inline double now(){ struct timeval tv; gettimeofday(&tv, nullptr); return tv.tv_sec + 1e-6 * tv.tv_usec; }

// ---------------------------------------------------------------- JSON helpers
inline std::string jesc(const std::string &s){
    std::string o; o.reserve(s.size() + 2); o += '"';
    for(unsigned char c : s){
        switch(c){
            case '"': o += "\\\""; break; case '\\': o += "\\\\"; break; case '\n': o += "\\n"; break;
            case '\r': o += "\\r"; break; case '\t': o += "\\t"; break;
            default: if (c < 0x20 || c >= 0x7f){ char b[8]; snprintf(b, sizeof(b), "\\u%04x", c); o += b; } else o += (char) c;
        }
    }
    o += '"'; return o;
}
inline std::string jnum(double v){ if (std::isnan(v) || std::isinf(v)) return jesc(std::isnan(v) ? "nan" : (v > 0 ? "inf" : "-inf")); char b[40]; snprintf(b, sizeof(b), "%.17g", v); return b; }
template<typename T> inline std::string jarr(const std::vector<T> &v){ std::ostringstream o; o << "["; for(size_t i=0;i<v.size();i++){ if (i) o << ","; o << v[i]; } o << "]"; return o.str(); }
inline std::string jarrd(const std::vector<double> &v){ std::string o = "["; for(size_t i=0;i<v.size();i++){ if (i) o += ","; o += jnum(v[i]); } return o + "]"; }
inline std::string jarrs(const std::vector<std::string> &v){ std::string o = "["; for(size_t i=0;i<v.size();i++){ if (i) o += ","; o += jesc(v[i]); } return o + "]"; }
// object builder:  J().s("k","v").n("x",1).raw("arr","[1,2]").str()
struct J {
    std::string o; bool first = true;
    J(){ o = "{"; }
    J& key(const char *k){ if (!first) o += ","; first = false; o += jesc(k); o += ":"; return *this; }
    J& s(const char *k, const std::string &v){ key(k); o += jesc(v); return *this; }
    J& n(const char *k, double v){ key(k); o += jnum(v); return *this; }
    J& i(const char *k, long long v){ key(k); o += std::to_string(v); return *this; }
    J& b(const char *k, bool v){ key(k); o += v ? "true" : "false"; return *this; }
    J& raw(const char *k, const std::string &v){ key(k); o += v; return *this; }
    std::string str() const{ return o + "}"; }
};

// ---------------------------------------------------------------- output (one JSON object per line)
static int out_fd = 1;
inline void emit(const std::string &line){
    std::string l = line; l += "\n"; const char *p = l.data(); size_t n = l.size();
    while(n > 0){ ssize_t w = ::write(out_fd, p, n); if (w <= 0){ if (errno == EINTR) continue; break; } p += w; n -= (size_t) w; }
}
inline void emit(const J &j){ emit(j.str()); }
// standard records
inline void violation(const std::string &sig, const std::string &unit, const std::string &case_json, const std::string &detail){
    emit(J().s("t","viol").s("sig",sig).s("unit",unit).raw("case",case_json).s("detail",detail));
}

// ---------------------------------------------------------------- digests
inline uint64_t fnv(const void *data, size_t n, uint64_t h = 1469598103934665603ULL){
    const unsigned char *p = (const unsigned char*) data; for(size_t i=0;i<n;i++){ h ^= p[i]; h *= 1099511628211ULL; } return h;
}
inline uint64_t mix(uint64_t h){ h ^= h >> 33; h *= 0xff51afd7ed558ccdULL; h ^= h >> 33; h *= 0xc4ceb9fe1a85ec53ULL; h ^= h >> 33; return h; }
inline std::string digest(const std::string &s){
    uint64_t a = fnv(s.data(), s.size()), b = 0x9e3779b97f4a7c15ULL;
    for(size_t i=0;i<s.size();i++){ b = (b ^ (unsigned char) s[i]) * 0x100000001b3ULL; b = (b << 13) | (b >> 51); }
    char buf[40]; snprintf(buf, sizeof(buf), "%016llx%016llx", (unsigned long long) mix(a), (unsigned long long) mix(b ^ s.size())); return buf;
}
inline std::string hexd(double v){ char b[40]; snprintf(b, sizeof(b), "%a", v); return b; }

// ---------------------------------------------------------------- forked child with watchdog
struct Outcome {
    enum Kind { OK, EXIT, SIGNAL, TIMEOUT, SANITIZER } kind = OK;
    int code = 0;            // exit code or signal number
    std::string out;         // what the child wrote to its result pipe
    std::string err;         // head of the child's stderr (sanitizer report)
    std::string describe() const{
        switch(kind){ case OK: return "ok"; case EXIT: return "exit(" + std::to_string(code) + ")"; case SIGNAL: return "signal(" + std::to_string(code) + ")";
                      case TIMEOUT: return "timeout"; default: return "sanitizer"; } }
    // short stable classification of a sanitizer report, e.g. "heap-buffer-overflow in getIJKdelta"
    std::string sanitizer_class() const{
        std::string kind_s = "unknown", fn = "?";
        size_t p = err.find("AddressSanitizer: ");
        if (p != std::string::npos){ size_t e = err.find_first_of(" \n", p + 18); kind_s = err.substr(p + 18, e - (p + 18)); }
        else if ((p = err.find("runtime error: ")) != std::string::npos){ size_t e = err.find('\n', p); kind_s = "ub:" + err.substr(p + 15, std::min<size_t>(e - (p + 15), 50)); }
        else if ((p = err.find("ThreadSanitizer: ")) != std::string::npos){ size_t e = err.find_first_of("(\n", p + 17); kind_s = "tsan:" + err.substr(p + 17, e - (p + 17)); while(!kind_s.empty() && kind_s.back() == ' ') kind_s.pop_back(); }
        // first frame inside Tasmanian code
        size_t q = 0; while((q = err.find(" in ", q)) != std::string::npos){
            size_t e = err.find('\n', q); std::string line = err.substr(q + 4, e - (q + 4));
            if (line.find("TasGrid") != std::string::npos || line.find("TasDREAM") != std::string::npos || line.find("TasOptimization") != std::string::npos || line.find("/repo") != std::string::npos || line.find("Tasgrid") != std::string::npos){
                size_t par = line.find('('); std::string f = line.substr(0, par == std::string::npos ? line.find(' ') : par);
                size_t t = f.find('<'); if (t != std::string::npos) f = f.substr(0, t);
                fn = f; break; }
            q = e == std::string::npos ? err.size() : e;
        }
        return kind_s + " in " + fn;
    }
};

// Runs body(result_fd) in a forked child. The child may write any text to result_fd and must return (then _exit(0)).
// timeout_s is a wall-clock limit. cpu_limit_s > 0 additionally limits the CPU time of the child (ITIMER_PROF; SIGPROF terminates it) and is reported
// as TIMEOUT as well: a limit on CPU time does not shrink when the machine is loaded or slow to schedule, a runaway loop still runs into it.
inline Outcome run_child(const std::function<void(int)> &body, double timeout_s, double cpu_limit_s = 0.0){
    int pr[2], pe[2]; if (pipe(pr) || pipe(pe)){ perror("pipe"); exit(2); }
    pid_t pid = fork();
    if (pid < 0){ perror("fork"); exit(2); }
    if (pid == 0){
        close(pr[0]); close(pe[0]); dup2(pe[1], 2); close(pe[1]);
        if (cpu_limit_s > 0){ struct itimerval it; memset(&it, 0, sizeof(it)); it.it_value.tv_sec = (time_t) std::floor(cpu_limit_s); it.it_value.tv_usec = (suseconds_t) ((cpu_limit_s - std::floor(cpu_limit_s)) * 1e6); setitimer(ITIMER_PROF, &it, nullptr); }
        body(pr[1]);
        _exit(0);
    }
    close(pr[1]); close(pe[1]);
    Outcome o; double deadline = now() + timeout_s; bool open_r = true, open_e = true; bool timed_out = false;
    char buf[65536];
    while(open_r || open_e){
        struct pollfd fds[2]; int n = 0; int ir = -1, ie = -1;
        if (open_r){ fds[n].fd = pr[0]; fds[n].events = POLLIN; ir = n++; }
        if (open_e){ fds[n].fd = pe[0]; fds[n].events = POLLIN; ie = n++; }
        double left = deadline - now(); if (left <= 0){ timed_out = true; break; }
        int rc = poll(fds, n, (int) std::min(left * 1000.0 + 1, 1e9));
        if (rc < 0){ if (errno == EINTR) continue; break; }
        if (rc == 0){ timed_out = true; break; }
        if (ir >= 0 && (fds[ir].revents & (POLLIN | POLLHUP | POLLERR))){ ssize_t r = read(pr[0], buf, sizeof(buf)); if (r > 0) o.out.append(buf, r); else open_r = false; }
        if (ie >= 0 && (fds[ie].revents & (POLLIN | POLLHUP | POLLERR))){ ssize_t r = read(pe[0], buf, sizeof(buf)); if (r > 0){ if (o.err.size() < 16384) o.err.append(buf, r); } else open_e = false; }
    }
    if (timed_out){ kill(pid, SIGKILL); }
    close(pr[0]); close(pe[0]);
    int st = 0; while(waitpid(pid, &st, 0) < 0 && errno == EINTR){}
    bool san = o.err.find("Sanitizer") != std::string::npos || o.err.find("runtime error:") != std::string::npos;
    if (cpu_limit_s > 0 && WIFSIGNALED(st) && WTERMSIG(st) == SIGPROF) timed_out = true;
    if (timed_out){ o.kind = Outcome::TIMEOUT; }
    else if (san){ o.kind = Outcome::SANITIZER; o.code = WIFEXITED(st) ? WEXITSTATUS(st) : -WTERMSIG(st); }
    else if (WIFSIGNALED(st)){ o.kind = Outcome::SIGNAL; o.code = WTERMSIG(st); }
    else if (WIFEXITED(st) && WEXITSTATUS(st) != 0){ o.kind = Outcome::EXIT; o.code = WEXITSTATUS(st); }
    return o;
}
inline void wr(int fd, const std::string &s){ const char *p = s.data(); size_t n = s.size(); while(n > 0){ ssize_t w = ::write(fd, p, n); if (w <= 0){ if (errno == EINTR) continue; return; } p += w; n -= (size_t) w; } }

// ---------------------------------------------------------------- global deadline
static double g_deadline = 0; // absolute; 0 = none
inline bool past_deadline(){ return g_deadline > 0 && now() > g_deadline; }

// ---------------------------------------------------------------- parallel work units (forked workers, dynamic distribution)
// fn(unit_index) runs in a worker process; it emits JSON lines with vf::emit (redirected to a per-worker file).
// Returns the number of units that were started; units not started because of the deadline are reported.
inline size_t parallel_units(size_t nunits, int nworkers, const std::function<void(size_t)> &fn, const char *tmpdir = "out/tmp"){
    if (nworkers < 1) nworkers = 1;
    { std::string cmd = std::string("mkdir -p ") + tmpdir; int rc = system(cmd.c_str()); (void) rc; }
    long *counter = (long*) mmap(nullptr, 4096, PROT_READ | PROT_WRITE, MAP_SHARED | MAP_ANONYMOUS, -1, 0);
    counter[0] = 0; counter[1] = 0; // next unit, finished units
    std::vector<pid_t> pids; std::vector<std::string> files;
    fflush(stdout);
    for(int w = 0; w < nworkers; w++){
        std::string f = std::string(tmpdir) + "/w." + std::to_string(getpid()) + "." + std::to_string(w) + ".jsonl"; files.push_back(f);
        pid_t p = fork();
        if (p == 0){
            int fd = open(f.c_str(), O_WRONLY | O_CREAT | O_TRUNC, 0644); if (fd < 0) _exit(3); out_fd = fd;
            while(true){
                if (past_deadline()) break;
                long u = __sync_fetch_and_add(&counter[0], 1); if ((size_t) u >= nunits) break;
                fn((size_t) u);
                __sync_fetch_and_add(&counter[1], 1);
            }
            close(fd); _exit(0);
        }
        pids.push_back(p);
    }
    bool worker_failed = false;
    for(size_t w = 0; w < pids.size(); w++){ int st; while(waitpid(pids[w], &st, 0) < 0 && errno == EINTR){} if (!WIFEXITED(st) || WEXITSTATUS(st) != 0){ worker_failed = true; emit(J().s("t","error").s("what","worker process died: status " + std::to_string(st))); } }
    for(auto &f : files){ FILE *fp = fopen(f.c_str(), "r"); if (fp){ char buf[65536]; size_t r; while((r = fread(buf, 1, sizeof(buf), fp)) > 0){ const char *p = buf; size_t n = r; while(n > 0){ ssize_t wv = ::write(out_fd, p, n); if (wv <= 0) break; p += wv; n -= (size_t) wv; } } fclose(fp); } unlink(f.c_str()); }
    size_t done = (size_t) counter[1]; (void) worker_failed;
    munmap(counter, 4096);
    return done;
}

// ---------------------------------------------------------------- argument helpers
struct Args {
    std::vector<std::string> a;
    Args(int argc, char **argv){ for(int i=1;i<argc;i++) a.push_back(argv[i]); }
    bool has(const std::string &k) const{ for(auto &x : a) if (x == k) return true; return false; }
    std::string get(const std::string &k, const std::string &def = "") const{ for(size_t i=0;i+1<a.size();i++) if (a[i] == k) return a[i+1]; return def; }
    long geti(const std::string &k, long def) const{ std::string v = get(k); return v.empty() ? def : atol(v.c_str()); }
    double getd(const std::string &k, double def) const{ std::string v = get(k); return v.empty() ? def : atof(v.c_str()); }
};
inline std::string slurp(const std::string &path){ FILE *f = fopen(path.c_str(), "rb"); if (!f) return ""; std::string s; char b[65536]; size_t r; while((r = fread(b, 1, sizeof(b), f)) > 0) s.append(b, r); fclose(f); return s; }

// minimal extraction of a field from a flat JSON object produced by J (for --replay): returns raw token text
inline std::string jget(const std::string &json, const std::string &key){
    std::string k = "\"" + key + "\":"; size_t p = json.find(k); if (p == std::string::npos) return ""; p += k.size();
    while(p < json.size() && json[p] == ' ') p++;
    if (json[p] == '"'){ std::string o; for(size_t i=p+1;i<json.size();i++){ if (json[i] == '\\' && i+1 < json.size()){ char c = json[++i]; o += (c=='n')?'\n':(c=='t')?'\t':c; } else if (json[i] == '"') break; else o += json[i]; } return o; }
    if (json[p] == '[' || json[p] == '{'){ int depth = 0; size_t i = p; bool instr = false; for(; i<json.size(); i++){ char c = json[i]; if (instr){ if (c == '\\') i++; else if (c == '"') instr = false; continue; } if (c == '"') instr = true; else if (c == '[' || c == '{') depth++; else if (c == ']' || c == '}'){ depth--; if (depth == 0){ i++; break; } } } return json.substr(p, i - p); }
    size_t e = json.find_first_of(",}", p); return json.substr(p, e - p);
}
inline std::vector<long> jints(const std::string &arr){ std::vector<long> v; const char *p = arr.c_str(); while(*p){ if ((*p >= '0' && *p <= '9') || *p == '-'){ char *e; v.push_back(strtol(p, &e, 10)); p = e; } else p++; } return v; }
inline std::vector<double> jdoubles(const std::string &arr){ std::vector<double> v; const char *p = arr.c_str(); while(*p){ if ((*p >= '0' && *p <= '9') || *p == '-' || *p == '.'){ char *e; v.push_back(strtod(p, &e)); p = e; } else p++; } return v; }

} // namespace vf
#endif
