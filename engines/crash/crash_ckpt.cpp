// crash_ckpt.cpp - engine E-D `crash`: fault enumeration of the checkpoint protocol of TasGrid::constructSurrogate (property C17).
//
// The executable itself defines fopen64/fopen/write/writev/fclose/close/rename/unlink, so every file-system operation that the
// library issues on the checkpoint files (through libstdc++'s std::ofstream / std::ifstream) is a numbered *event*.
//   run 0      : the construction runs to the end in a forked child; the event log (kind, file, bytes), the model calls and a copy of
//                both checkpoint files at the end of every checkpoint episode are recorded  -> reference model of "acknowledged work".
//   kill point : for every event k (and, inside every write of n bytes, for byte offsets 0 < b < n) a fresh child repeats the same
//                construction and _exit()s immediately before event k (after the first b bytes of it). Stream buffers are lost, bytes
//                handed to write() survive: process death, not power loss.
//   recovery   : a second fresh child (clean heap, fresh grid object) calls constructSurrogate again with the same file name and a
//                model that logs every call; it reports the first checkpoint image it writes (= the state it recovered), the model
//                calls, the final grid.
//   oracle     : see judge().
#include "vf.hpp"
#include "TasmanianSparseGrid.hpp"
#include "tsgConstructSurrogate.hpp"
#include <dlfcn.h>
#include <sys/uio.h>
#include <sys/personality.h>
#include <dirent.h>
#include <pthread.h>
#include <map>
#include <set>
#include <algorithm>

using namespace TasGrid;

// =============================================================================================== interposition layer
namespace fs {
enum Kind { OPEN_R = 0, OPEN_W, WRITE, CLOSE, RENAME, UNLINK };
static const char *kname[] = {"open-r", "open-w", "write", "close", "rename", "unlink"};
static const char *fname[] = {"main", "old", "other"};
struct Ev { int kind; int file; long n; };
inline bool mutating(const Ev &e){ return e.kind == OPEN_W || e.kind == WRITE || e.kind == RENAME || e.kind == UNLINK; }

static volatile bool active = false;   // events are counted only while the library code under test runs in a child
static std::string dir;                // scratch directory of this worker (tracked prefix)
static std::string main_path;          // checkpoint file name handed to constructSurrogate
static long count = 0;                 // events so far in this process
static long kill_at = -1, kill_off = 0;// die before event kill_at (after kill_off bytes of it when it is a write)
static const std::vector<Ev> *expect = nullptr; // replayed children check every event against the recorded log (determinism)
static bool record = false;            // run 0: print the event log
static int report_fd = -1;
static std::map<FILE*, int> files;     // tracked streams -> file id
static std::map<int, int> fds;         // tracked descriptors -> file id
static pthread_mutex_t mtx = PTHREAD_MUTEX_INITIALIZER;
// capture of the bytes written to the main file by the recovery run (first complete open-w .. close episode)
static bool capture = false; static bool cap_open = false, cap_done = false; static std::string cap_cur, cap_first;

typedef FILE* (*fopen_t)(const char*, const char*);
typedef int (*fclose_t)(FILE*);
typedef ssize_t (*write_t)(int, const void*, size_t);
typedef ssize_t (*writev_t)(int, const struct iovec*, int);
typedef int (*close_t)(int);
typedef int (*rename_t)(const char*, const char*);
typedef int (*unlink_t)(const char*);
template<typename T> static T real(const char *name){ void *p = dlsym(RTLD_NEXT, name); if (!p) _exit(99); return (T) p; }
static ssize_t rwrite(int fd, const void *b, size_t n){ static write_t f = nullptr; if (!f) f = real<write_t>("write"); return f(fd, b, n); }
static void rwrite_all(int fd, const char *p, size_t n){ while(n > 0){ ssize_t w = rwrite(fd, p, n); if (w <= 0){ if (errno == EINTR) continue; return; } p += w; n -= (size_t) w; } }
static void say(const std::string &s){ if (report_fd >= 0) rwrite_all(report_fd, s.data(), s.size()); }

static int file_id(const char *path){
    if (!path || dir.empty()) return -1;
    std::string p(path);
    if (p.compare(0, dir.size() + 1, dir + "/") != 0) return -1;
    if (p == main_path) return 0;
    if (p == main_path + "_old") return 1;
    return 2;
}
// called before the operation takes effect; returns the number of bytes of a write that may be performed (n = all of it)
static long event(int kind, int file, long n, const char *data){
    if (!active) return n;
    pthread_mutex_lock(&mtx);
    count++;
    if (record){ char b[96]; int l = snprintf(b, sizeof(b), "E %d %d %ld\n", kind, file, n); say(std::string(b, l)); }
    if (expect){
        bool ok = (size_t) count <= expect->size() && (*expect)[count-1].kind == kind && (*expect)[count-1].file == file && (*expect)[count-1].n == n;
        if (!ok){ char b[160]; int l = snprintf(b, sizeof(b), "NONDET %ld %d %d %ld\n", count, kind, file, n); say(std::string(b, l)); _exit(43); }
    }
    if (count == kill_at){
        long done = 0;
        if (kind == WRITE && kill_off > 0 && data){ done = std::min(kill_off, n); /* the caller performs the partial write */ pthread_mutex_unlock(&mtx); return -done - 1; }
        char b[160]; int l = snprintf(b, sizeof(b), "DIED %ld %d %d %ld 0\n", count, kind, file, n); say(std::string(b, l));
        _exit(42);
    }
    pthread_mutex_unlock(&mtx);
    return n;
}
static void die_after_partial(int kind, int file, long n, long done){
    char b[160]; int l = snprintf(b, sizeof(b), "DIED %ld %d %d %ld %ld\n", count, kind, file, n, done); say(std::string(b, l));
    _exit(42);
}
} // namespace fs

extern "C" {
static FILE* fopen_common(const char *name, const char *path, const char *mode){
    static fs::fopen_t f64 = nullptr, f32 = nullptr;
    fs::fopen_t &f = (name[5] == '6') ? f64 : f32; if (!f) f = fs::real<fs::fopen_t>(name);
    int id = fs::active ? fs::file_id(path) : -1;
    if (id < 0) return f(path, mode);
    bool w = mode && (strchr(mode, 'w') || strchr(mode, 'a') || strchr(mode, '+'));
    fs::event(w ? fs::OPEN_W : fs::OPEN_R, id, 0, nullptr);
    FILE *r = f(path, mode);
    if (r){ pthread_mutex_lock(&fs::mtx); fs::files[r] = id; fs::fds[fileno(r)] = id;
            if (fs::capture && id == 0 && w && !fs::cap_done){ fs::cap_open = true; fs::cap_cur.clear(); }
            pthread_mutex_unlock(&fs::mtx); }
    return r;
}
FILE* fopen64(const char *path, const char *mode){ return fopen_common("fopen64", path, mode); }
FILE* fopen(const char *path, const char *mode){ return fopen_common("fopen", path, mode); }
int fclose(FILE *fp){
    static fs::fclose_t f = nullptr; if (!f) f = fs::real<fs::fclose_t>("fclose");
    int id = -1;
    if (fs::active){ pthread_mutex_lock(&fs::mtx); auto it = fs::files.find(fp); if (it != fs::files.end()) id = it->second; pthread_mutex_unlock(&fs::mtx); }
    if (id < 0) return f(fp);
    fs::event(fs::CLOSE, id, 0, nullptr);
    pthread_mutex_lock(&fs::mtx); fs::fds.erase(fileno(fp)); fs::files.erase(fp);
    if (fs::capture && id == 0 && fs::cap_open){ fs::cap_open = false; if (!fs::cap_done){ fs::cap_done = true; fs::cap_first = fs::cap_cur; } }
    pthread_mutex_unlock(&fs::mtx);
    return f(fp);
}
ssize_t write(int fd, const void *buf, size_t n){
    int id = -1;
    if (fs::active){ pthread_mutex_lock(&fs::mtx); auto it = fs::fds.find(fd); if (it != fs::fds.end()) id = it->second; pthread_mutex_unlock(&fs::mtx); }
    if (id < 0) return fs::rwrite(fd, buf, n);
    long allow = fs::event(fs::WRITE, id, (long) n, (const char*) buf);
    if (allow < 0){ long done = -allow - 1; fs::rwrite_all(fd, (const char*) buf, (size_t) done); fs::die_after_partial(fs::WRITE, id, (long) n, done); }
    if (fs::capture && id == 0 && fs::cap_open) fs::cap_cur.append((const char*) buf, n);
    return fs::rwrite(fd, buf, n);
}
ssize_t writev(int fd, const struct iovec *iov, int cnt){
    static fs::writev_t f = nullptr; if (!f) f = fs::real<fs::writev_t>("writev");
    int id = -1;
    if (fs::active){ pthread_mutex_lock(&fs::mtx); auto it = fs::fds.find(fd); if (it != fs::fds.end()) id = it->second; pthread_mutex_unlock(&fs::mtx); }
    if (id < 0) return f(fd, iov, cnt);
    std::string flat; for(int i=0;i<cnt;i++) flat.append((const char*) iov[i].iov_base, iov[i].iov_len);
    long allow = fs::event(fs::WRITE, id, (long) flat.size(), flat.data());
    if (allow < 0){ long done = -allow - 1; fs::rwrite_all(fd, flat.data(), (size_t) done); fs::die_after_partial(fs::WRITE, id, (long) flat.size(), done); }
    if (fs::capture && id == 0 && fs::cap_open) fs::cap_cur.append(flat);
    return f(fd, iov, cnt);
}
int close(int fd){
    static fs::close_t f = nullptr; if (!f) f = fs::real<fs::close_t>("close");
    int id = -1;
    if (fs::active){ pthread_mutex_lock(&fs::mtx); auto it = fs::fds.find(fd); if (it != fs::fds.end()) id = it->second; pthread_mutex_unlock(&fs::mtx); }
    if (id < 0) return f(fd);
    // descriptors of tracked streams are closed by fclose (which is the event); a direct close is an event of its own
    bool via_stream = false; pthread_mutex_lock(&fs::mtx); for(auto &kv : fs::files) if (fileno(kv.first) == fd) via_stream = true; pthread_mutex_unlock(&fs::mtx);
    if (!via_stream){ fs::event(fs::CLOSE, id, 0, nullptr); pthread_mutex_lock(&fs::mtx); fs::fds.erase(fd); pthread_mutex_unlock(&fs::mtx); }
    return f(fd);
}
int rename(const char *a, const char *b){
    static fs::rename_t f = nullptr; if (!f) f = fs::real<fs::rename_t>("rename");
    int ia = fs::active ? fs::file_id(a) : -1, ib = fs::active ? fs::file_id(b) : -1;
    if (ia >= 0 || ib >= 0) fs::event(fs::RENAME, ib >= 0 ? ib : ia, ia >= 0 ? ia : 2, nullptr);
    return f(a, b);
}
int unlink(const char *a){
    static fs::unlink_t f = nullptr; if (!f) f = fs::real<fs::unlink_t>("unlink");
    int ia = fs::active ? fs::file_id(a) : -1;
    if (ia >= 0) fs::event(fs::UNLINK, ia, 0, nullptr);
    return f(a);
}
} // extern "C"

// raw file helpers of the harness itself (never events: open/read are not interposed, fs::active is false in the parent)
static bool raw_slurp(const std::string &path, std::string &out){
    out.clear(); int fd = ::open(path.c_str(), O_RDONLY); if (fd < 0) return false;
    char b[65536]; ssize_t r; while((r = ::read(fd, b, sizeof(b))) > 0) out.append(b, (size_t) r);
    ::close(fd); return true;
}
static void raw_rm(const std::string &path){ static fs::unlink_t f = nullptr; if (!f) f = fs::real<fs::unlink_t>("unlink"); f(path.c_str()); }
static std::string tohex(const std::string &s){ static const char *h = "0123456789abcdef"; std::string o; o.reserve(2 * s.size()); for(unsigned char c : s){ o += h[c >> 4]; o += h[c & 15]; } return o; }
static std::string unhex(const std::string &s){ std::string o; auto v = [](char c){ return (c >= 'a') ? c - 'a' + 10 : c - '0'; }; for(size_t i=0;i+1<s.size(); i+=2) o += (char) ((v(s[i]) << 4) | v(s[i+1])); return o; }


// vf::run_child with a resident-set limit: a restart that parses a torn file may loop on a garbage count allocating memory for ever
// (hundreds of MB per second); sanitizer options cannot bound that in a forked child, so the parent polls /proc/<pid>/statm.
static long g_rss_growth_mb = 32;
static long g_rss_limit_mb = 250; // set per child: resident size of the forking worker + g_rss_growth_mb
static long self_rss_mb(){ int fd = ::open("/proc/self/statm", O_RDONLY); if (fd < 0) return 100; char sb[128]; ssize_t r = ::read(fd, sb, sizeof(sb) - 1); ::close(fd); long size = 0, res = 0; if (r > 0){ sb[r] = 0; if (sscanf(sb, "%ld %ld", &size, &res) == 2) return res * (sysconf(_SC_PAGESIZE) / 1024) / 1024; } return 100; }
static vf::Outcome run_child_limited(const std::function<void(int)> &body, double timeout_s, bool *runaway){
    using namespace vf;
    if (runaway) *runaway = false;
    g_rss_limit_mb = self_rss_mb() + g_rss_growth_mb;
    int pr[2], pe[2]; if (pipe(pr) || pipe(pe)){ perror("pipe"); exit(2); }
    pid_t pid = fork();
    if (pid < 0){ perror("fork"); exit(2); }
    if (pid == 0){ close(pr[0]); close(pe[0]); dup2(pe[1], 2); close(pe[1]); body(pr[1]); _exit(0); }
    close(pr[1]); close(pe[1]);
    Outcome o; double deadline = now() + timeout_s; bool open_r = true, open_e = true; bool timed_out = false;
    char buf[65536]; char statm[64]; snprintf(statm, sizeof(statm), "/proc/%d/statm", (int) pid); long page_kb = sysconf(_SC_PAGESIZE) / 1024;
    while(open_r || open_e){
        struct pollfd fds[2]; int n = 0; int ir = -1, ie = -1;
        if (open_r){ fds[n].fd = pr[0]; fds[n].events = POLLIN; ir = n++; }
        if (open_e){ fds[n].fd = pe[0]; fds[n].events = POLLIN; ie = n++; }
        double left = deadline - now(); if (left <= 0){ timed_out = true; break; }
        int rc = poll(fds, n, (int) std::min(left * 1000.0 + 1, 10.0));
        if (rc < 0){ if (errno == EINTR) continue; break; }
        if (rc == 0){
            int sfd = ::open(statm, O_RDONLY); if (sfd >= 0){ char sb[128]; ssize_t r = ::read(sfd, sb, sizeof(sb) - 1); ::close(sfd);
                if (r > 0){ sb[r] = 0; long size = 0, res = 0; if (sscanf(sb, "%ld %ld", &size, &res) == 2 && res * page_kb / 1024 > g_rss_limit_mb){ timed_out = true; if (runaway) *runaway = true; break; } } }
            continue;
        }
        if (ir >= 0 && (fds[ir].revents & (POLLIN | POLLHUP | POLLERR))){ ssize_t r = read(pr[0], buf, sizeof(buf)); if (r > 0) o.out.append(buf, r); else open_r = false; }
        if (ie >= 0 && (fds[ie].revents & (POLLIN | POLLHUP | POLLERR))){ ssize_t r = read(pe[0], buf, sizeof(buf)); if (r > 0){ if (o.err.size() < 16384) o.err.append(buf, r); } else open_e = false; }
    }
    if (timed_out){ kill(pid, SIGKILL); }
    close(pr[0]); close(pe[0]);
    int st = 0; while(waitpid(pid, &st, 0) < 0 && errno == EINTR){}
    bool san = o.err.find("Sanitizer") != std::string::npos || o.err.find("runtime error:") != std::string::npos;
    if (timed_out){ o.kind = Outcome::TIMEOUT; }
    else if (san){ o.kind = Outcome::SANITIZER; o.code = WIFEXITED(st) ? WEXITSTATUS(st) : -WTERMSIG(st); }
    else if (WIFSIGNALED(st)){ o.kind = Outcome::SIGNAL; o.code = WTERMSIG(st); }
    else if (WIFEXITED(st) && WEXITSTATUS(st) != 0){ o.kind = Outcome::EXIT; o.code = WEXITSTATUS(st); }
    return o;
}

// =============================================================================================== scenarios
enum { FAM_LOCALP = 0, FAM_WAVELET, FAM_SEQUENCE, FAM_GLOBAL, FAM_FOURIER, NFAM };
static const char *famname[] = {"localp", "wavelet", "sequence", "global", "fourier"};
struct Scn {
    int fam = 0, budget = 6, batch = 1, parallel = 0;
    int rule2 = 0;   // 1: Global grid with rule rleja-shifted-even (two nodes on level 0: the first tensor is complete only after 2^d samples, checkpoints are written before that)
    int rjobs = 0;   // > 0: the RESTART runs in parallel mode with this many worker threads (the run that is killed stays sequential and deterministic: its event log defines the
                     // kill points); what is checked about the restart - nothing acknowledged is recomputed, the budget holds, the final surrogate interpolates - has to hold for every schedule
    int depth0 = 0;  // > 0: depth of the initial grid (Global / Fourier): its tensors then hold several points beyond the lower tensors, which the reader of the construction data has to re-associate
    int preload = 0; // > 0: the grid handed to constructSurrogate is a local polynomial grid of this depth with all its values loaded (>= 1000 points:
                     // constructSurrogate then keeps new samples in its CompleteStorage, so the checkpoints carry a non-empty sample store); budget = additional samples
    std::string name() const{ return std::string(famname[fam]) + "/budget" + std::to_string(budget) + "/batch" + std::to_string(batch) + (parallel ? "/parallel1" : "/sequential") + (preload ? "/preloaded" + std::to_string(preload) : "") + (depth0 ? "/depth" + std::to_string(depth0) : "") + (rjobs ? "/restart-parallel" + std::to_string(rjobs) : "") + (rule2 ? "/rleja-shifted-even" : ""); }
    vf::J json() const{ vf::J j; j.s("fam", famname[fam]).i("budget", budget).i("batch", batch).i("parallel", parallel).i("preload", preload).i("depth0", depth0).i("rjobs", rjobs).i("rule2", rule2); return j; }
};
static const int DIMS = 2;
static const int PRELOAD_DEPTH = 8;
// smooth, non-symmetric, bounded away from zero (a silently zero-filled sample can never look right)
static double model_value(int fam, const double *x){
    if (fam == FAM_FOURIER) return 3.0 + std::cos(2.0 * M_PI * x[0]) + 0.5 * std::sin(2.0 * M_PI * (x[0] + 2.0 * x[1])) + 0.25 * std::cos(4.0 * M_PI * x[1]);
    return 3.0 + std::exp(-1.5 * (x[0] - 0.3) * (x[0] - 0.3)) + 0.5 * std::sin(1.1 * x[1] + 0.2) + 0.25 * x[0] * x[1];
}
static void make_grid(TasmanianSparseGrid &g, const Scn &s){
    switch(s.fam){
        case FAM_LOCALP:   g.makeLocalPolynomialGrid(DIMS, 1, s.preload ? s.preload : 1, 1, rule_localp);
                           if (s.preload){ std::vector<double> x = g.getNeededPoints(), y(x.size() / DIMS); for(size_t i=0;i<y.size();i++) y[i] = model_value(s.fam, &x[i * DIMS]); g.loadNeededValues(y); }
                           break;
        case FAM_WAVELET:  g.makeWaveletGrid(DIMS, 1, 0, 1); break;
        case FAM_SEQUENCE: g.makeSequenceGrid(DIMS, 1, 1, type_level, rule_rleja); break;
        case FAM_GLOBAL:   g.makeGlobalGrid(DIMS, 1, s.depth0 ? s.depth0 : 1, type_level, s.rule2 ? rule_rlejashiftedeven : rule_clenshawcurtis); break;
        default:           g.makeFourierGrid(DIMS, 1, s.depth0 ? s.depth0 : 1, type_level); break;
    }
}
static size_t g_jobs = 1; // worker threads of the parallel mode (1 except for the parallel restarts)
template<bool par> static void construct_t(const Scn &s, TasmanianSparseGrid &g, ModelSignature m, const std::string &fn){
    size_t budget = (size_t) s.budget + (size_t) g.getNumLoaded(), batch = (size_t) s.batch; // the budget counts the points the grid already has
    switch(s.fam){
        case FAM_LOCALP: case FAM_WAVELET:
            constructSurrogate<par, no_initial_guess>(m, budget, g_jobs, batch, g, 1.E-6, refine_classic, -1, std::vector<int>(), fn); break;
        case FAM_SEQUENCE:  // user supplied anisotropic weights
            constructSurrogate<par, no_initial_guess>(m, budget, g_jobs, batch, g, type_iptotal, std::vector<int>{1, 2}, std::vector<int>(), fn); break;
        case FAM_GLOBAL:    // anisotropy estimated from output 0
            constructSurrogate<par, no_initial_guess>(m, budget, g_jobs, batch, g, type_iptotal, 0, std::vector<int>(), fn); break;
        default:
            constructSurrogate<par, no_initial_guess>(m, budget, g_jobs, batch, g, type_iptotal, std::vector<int>{1, 1}, std::vector<int>(), fn); break;
    }
}
static void construct(const Scn &s, TasmanianSparseGrid &g, ModelSignature m, const std::string &fn){
    if (s.parallel || g_jobs > 1) construct_t<mode_parallel>(s, g, m, fn); else construct_t<mode_sequential>(s, g, m, fn);
}

typedef std::vector<long long> Key; // a point, coordinates rounded to 1e-12
static Key key_of(const double *x){ Key k(DIMS); for(int j=0;j<DIMS;j++) k[j] = std::llround(x[j] * 1.0e12); return k; }
static std::string key_str(const Key &k){ std::string s = "("; for(size_t j=0;j<k.size();j++){ if (j) s += ","; char b[40]; snprintf(b, sizeof(b), "%.6g", k[j] * 1.0e-12); s += b; } return s + ")"; }

// records the sizes of the individual ostream::write calls = field boundaries of the binary format (only used to pick the quick-tier offsets)
struct RecBuf : std::streambuf {
    std::vector<long> cuts; std::string data;
    std::streamsize xsputn(const char *s, std::streamsize n) override{ data.append(s, (size_t) n); cuts.push_back((long) data.size()); return n; }
    int overflow(int c) override{ if (c != EOF){ data.push_back((char) c); cuts.push_back((long) data.size()); } return c; }
};

// =============================================================================================== child bodies
// What a child tells its parent (one line each):  E kind file n | M x.. | I episode file exists hex | B episode cut.. |
//   S len digest | R nl np valbad maxerr | P x.. | X type \t what | DIED k kind file n off | NONDET ..
static std::string g_slug(const std::string &w){
    std::string o; int words = 0; bool in = false;
    for(char c : w){ if (isalpha((unsigned char) c) || c == '_'){ if (!in){ if (words >= 8) break; if (!o.empty()) o += '-'; in = true; words++; } o += (char) tolower(c); } else in = false; }
    if (o.compare(0, 6, "error-") == 0) o = o.substr(6);
    return o.empty() ? "none" : o;
}
static void final_report(const Scn &s, TasmanianSparseGrid &g, int fd){
    int nl = g.getNumLoaded(), np = g.getNumPoints(); long valbad = 0; double maxerr = 0;
    std::ostringstream p; p << "P";
    if (nl > 0){
        std::vector<double> pts = g.getLoadedPoints(); const double *vals = g.getLoadedValues(); std::vector<double> y;
        g.evaluateBatch(pts, y);
        for(int i=0;i<nl;i++){
            double e = model_value(s.fam, &pts[(size_t) i * DIMS]);
            if (!(std::fabs(vals[i] - e) <= 1e-13 * std::fabs(e))) valbad++;
            double d = std::fabs(y[i] - e); if (!(d <= maxerr)) maxerr = d;
            for(int j=0;j<DIMS;j++) p << " " << vf::hexd(pts[(size_t) i * DIMS + j]);
        }
    }
    std::ostringstream r; r << "R " << nl << " " << np << " " << valbad << " " << vf::hexd(maxerr) << "\n" << p.str() << "\n";
    vf::wr(fd, r.str());
}
// runs the construction in this (child) process; mode 0 = run 0 (record), 1 = crash run (kill plan set by the caller), 2 = recovery run
static void child_run(const Scn &s, int mode, int fd, const std::vector<fs::Ev> *expect, long kill_at, long kill_off){
    fs::report_fd = fd; fs::count = 0; fs::kill_at = kill_at; fs::kill_off = kill_off; fs::expect = expect; fs::record = (mode == 0); fs::capture = (mode == 2);
    fs::cap_open = fs::cap_done = false; fs::cap_cur.clear(); fs::cap_first.clear(); fs::files.clear(); fs::fds.clear();
    int episode = 0;
    auto snapshot = [&](int ep){ // run 0: copy of both files at the end of a checkpoint episode
        bool was = fs::active; fs::active = false;
        for(int f=0; f<2; f++){ std::string c; bool ex = raw_slurp(fs::main_path + (f ? "_old" : ""), c); vf::wr(fd, "I " + std::to_string(ep) + " " + std::to_string(f) + " " + (ex ? "1 " : "0 ") + tohex(c) + "\n"); }
        fs::active = was;
    };
    ModelSignature model = [&](std::vector<double> const &x, std::vector<double> &y, size_t){
        pthread_mutex_lock(&fs::mtx);
        if (mode == 0) snapshot(episode);
        episode++;
        if (mode != 1){ std::string l = "M"; for(double v : x){ l += " "; l += vf::hexd(v); } l += "\n"; fs::say(l); }
        pthread_mutex_unlock(&fs::mtx);
        size_t n = x.size() / DIMS; y.resize(n);
        for(size_t i=0;i<n;i++) y[i] = model_value(s.fam, &x[i * DIMS]);
    };
    TasmanianSparseGrid g; make_grid(g, s);
    g_jobs = (mode == 2 && s.rjobs > 0) ? (size_t) s.rjobs : 1;
    if (mode == 0) vf::wr(fd, "G " + std::to_string(g.getNumLoaded()) + "\n");
    std::string xt, xw;
    fs::active = true;
    try{ construct(s, g, model, fs::main_path); }
    catch(std::length_error &e){ xt = "length_error"; xw = e.what(); }
    catch(std::out_of_range &e){ xt = "out_of_range"; xw = e.what(); }
    catch(std::invalid_argument &e){ xt = "invalid_argument"; xw = e.what(); }
    catch(std::logic_error &e){ xt = "logic_error"; xw = e.what(); }
    catch(std::runtime_error &e){ xt = "runtime_error"; xw = e.what(); }
    catch(std::bad_alloc &e){ xt = "bad_alloc"; xw = e.what(); }
    catch(std::exception &e){ xt = "exception"; xw = e.what(); }
    catch(...){ xt = "unknown"; xw = ""; }
    fs::active = false;
    if (mode == 2) vf::wr(fd, fs::cap_done ? "S " + std::to_string(fs::cap_first.size()) + " " + vf::digest(fs::cap_first) + "\n" : std::string("S none\n"));
    if (!xt.empty()){ for(char &c : xw) if (c == '\n' || c == '\t') c = ' '; vf::wr(fd, "X " + xt + "\t" + xw + "\n"); return; }
    if (mode == 0){
        snapshot(episode);
        // field boundaries of every image (quick-tier offset selection only)
        for(int ep = 0; ep <= episode; ep++){ /* images are re-read by the parent; boundaries are computed there */ }
    }
    if (mode == 1){ vf::wr(fd, "COMPLETED " + std::to_string(fs::count) + "\n"); return; }
    try{ final_report(s, g, fd); }catch(std::exception &e){ vf::wr(fd, std::string("X final-report\t") + e.what() + "\n"); }
}

// =============================================================================================== reference model (run 0)
struct Ref {
    Scn s; bool ok = false; std::string err;
    std::vector<fs::Ev> ev;                 // FS events, event k is ev[k-1]
    std::vector<int> ev_ep;                 // checkpoint episode of each event (episode e = events issued after e model calls)
    int nep = 0;                            // number of episodes = model calls + 1
    std::vector<long> f, l;                 // first / last mutating event of the episode (1-based, 0 = none)
    std::vector<std::string> img[2]; std::vector<char> has[2]; // both files at the end of each episode
    std::vector<std::vector<Key>> calls;    // model calls
    std::vector<std::set<Key>> before;      // samples returned by the model before episode e
    std::map<std::string, int> by_digest;   // digest of a main image -> latest episode with that image
    int base = 0;                           // points loaded in the grid before the construction started
    int nl = 0, np = 0; long valbad = 0; double maxerr = 0; std::set<Key> final_pts;
    std::vector<std::vector<long>> cuts;    // field boundaries per episode image (may be empty)
    std::string sig;                        // digest of the whole reference run (determinism check)
};
static std::vector<Key> parse_pts(const std::string &line){ // after the tag
    std::vector<double> v; const char *p = line.c_str(); while(*p){ while(*p == ' ') p++; if (!*p) break; char *e; double d = strtod(p, &e); if (e == p) break; v.push_back(d); p = e; }
    std::vector<Key> r; for(size_t i=0;i+DIMS<=v.size(); i+=DIMS) r.push_back(key_of(&v[i])); return r;
}
static double g_child_timeout = 20.0;
static void clean_dir(){
    DIR *d = opendir(fs::dir.c_str()); if (!d) return; struct dirent *e; std::vector<std::string> names;
    while((e = readdir(d))){ std::string n = e->d_name; if (n != "." && n != "..") names.push_back(n); }
    closedir(d); for(auto &n : names) raw_rm(fs::dir + "/" + n);
}
static Ref reference_run(const Scn &s, bool with_cuts = true){
    Ref R; R.s = s; clean_dir();
    vf::Outcome o = vf::run_child([&](int fd){ child_run(s, 0, fd, nullptr, -1, 0); }, 60.0);
    if (o.kind != vf::Outcome::OK){ R.err = "reference run failed: " + o.describe() + " " + o.err.substr(0, 600); return R; }
    std::istringstream in(o.out); std::string line; int ep = 0; bool have_r = false;
    std::map<std::pair<int,int>, std::pair<bool,std::string>> imgs;
    while(std::getline(in, line)){
        if (line.empty()) continue;
        if (line[0] == 'E'){ fs::Ev e; sscanf(line.c_str() + 2, "%d %d %ld", &e.kind, &e.file, &e.n); R.ev.push_back(e); R.ev_ep.push_back(ep); }
        else if (line[0] == 'M'){ R.calls.push_back(parse_pts(line.substr(1))); ep++; }
        else if (line[0] == 'I'){ int e, f, ex; char *q; e = (int) strtol(line.c_str() + 2, &q, 10); f = (int) strtol(q, &q, 10); ex = (int) strtol(q, &q, 10); while(*q == ' ') q++; imgs[{e, f}] = {ex != 0, unhex(q)}; }
        else if (line[0] == 'G'){ R.base = atoi(line.c_str() + 2); }
        else if (line[0] == 'X'){ R.err = "reference run threw: " + line.substr(2); return R; }
        else if (line[0] == 'R'){ char me[64]; sscanf(line.c_str() + 2, "%d %d %ld %63s", &R.nl, &R.np, &R.valbad, me); R.maxerr = strtod(me, nullptr); have_r = true; }
        else if (line[0] == 'P'){ for(auto &k : parse_pts(line.substr(1))) R.final_pts.insert(k); }
    }
    if (!have_r){ R.err = "reference run gave no final report"; return R; }
    R.nep = ep + 1; R.f.assign(R.nep, 0); R.l.assign(R.nep, 0);
    for(size_t i=0;i<R.ev.size();i++) if (fs::mutating(R.ev[i])){ int e = R.ev_ep[i]; if (!R.f[e]) R.f[e] = (long) i + 1; R.l[e] = (long) i + 1; }
    std::set<Key> acc; R.before.resize(R.nep);
    for(int e=0; e<R.nep; e++){ R.before[e] = acc; if (e < (int) R.calls.size()) for(auto &k : R.calls[e]) acc.insert(k); }
    for(int f=0; f<2; f++){ R.img[f].resize(R.nep); R.has[f].assign(R.nep, 0); }
    for(int e=0; e<R.nep; e++) for(int f=0; f<2; f++){ auto it = imgs.find({e, f}); if (it == imgs.end()){ R.err = "missing image of episode " + std::to_string(e); return R; } R.has[f][e] = it->second.first; R.img[f][e] = it->second.second; }
    for(int e=0; e<R.nep; e++) if (R.has[0][e]) R.by_digest[vf::digest(R.img[0][e])] = e;
    // field boundaries: re-serialise each image through a recording stream buffer (selection heuristic of the quick tier, not an oracle)
    R.cuts.resize(R.nep);
    if (with_cuts){
        vf::Outcome c = vf::run_child([&](int fd){
            for(int e=0; e<R.nep; e++){
                if (!R.has[0][e] || R.img[0][e].empty()) continue;
                const std::string &img = R.img[0][e];
                try{ std::istringstream is(img); TasmanianSparseGrid g; g.read(is, mode_binary); RecBuf rb; std::ostream os(&rb); g.write(os, mode_binary);
                     if (img.compare(0, rb.data.size(), rb.data) == 0){ std::string l = "B " + std::to_string(e); for(long c2 : rb.cuts) l += " " + std::to_string(c2); l += " " + std::to_string(rb.data.size() + 16) + "\n"; vf::wr(fd, l); } }catch(...){}
            }
        }, 60.0);
        if (c.kind == vf::Outcome::OK){ std::istringstream cin2(c.out); std::string l; while(std::getline(cin2, l)) if (l.size() > 2 && l[0] == 'B'){ auto v = vf::jints(l.substr(1)); if (!v.empty() && v[0] >= 0 && v[0] < R.nep) R.cuts[v[0]].assign(v.begin() + 1, v.end()); } }
    }
    std::string sg; for(auto &e : R.ev) sg += std::to_string(e.kind) + "," + std::to_string(e.file) + "," + std::to_string(e.n) + ";";
    for(int e=0; e<R.nep; e++) sg += vf::digest(R.img[0][e]) + (R.has[1][e] ? vf::digest(R.img[1][e]) : "-");
    for(auto &c : R.calls) for(auto &k : c) sg += key_str(k);
    R.sig = vf::digest(sg);
    R.ok = true; return R;
}

// =============================================================================================== kill points and the oracle
struct KP { long k; long b; };
static std::vector<KP> kill_points(const Ref &R, bool every_byte){
    std::vector<KP> v; long N = (long) R.ev.size();
    for(long k=1; k<=N; k++){
        v.push_back({k, 0});
        const fs::Ev &e = R.ev[k-1];
        if (e.kind != fs::WRITE || e.n <= 1) continue;
        std::set<long> offs;
        // position of this write inside the image of its file: bytes written earlier in the same open-episode
        int ep = R.ev_ep[k-1]; long base = 0; for(long q=k-1; q>=1 && R.ev_ep[q-1] == ep && R.ev[q-1].kind == fs::WRITE && R.ev[q-1].file == e.file; q--) base += R.ev[q-1].n;
        long img = (long) R.img[0][ep].size(); bool small = img <= 4096;
        if ((every_byte && small) || e.n <= 64){ for(long b=1; b<e.n; b++) offs.insert(b); }
        else{
            offs.insert(1); offs.insert(e.n - 1);
            long stride = small ? 24 : 512; for(long b=stride; b<e.n; b+=stride) offs.insert(b);
            for(long c : R.cuts[ep]) for(long d=-1; d<=1; d++){ long b = c - base + d; if (b >= 1 && b < e.n) offs.insert(b); }
            if (!small && every_byte) for(long p2 = std::max(0L, img - 320); p2 < img; p2++){ long b = p2 - base; if (b >= 1 && b < e.n) offs.insert(b); } // the trailing sample store, every byte
        }
        for(long b : offs) v.push_back({k, b});
    }
    v.push_back({N + 1, 0}); // death after the last event (the run had finished): the restart must have nothing left to do
    return v;
}
static int last_completed(const Ref &R, long k){ int L = -1; for(int e=0; e<R.nep; e++) if (R.l[e] > 0 && R.l[e] < k) L = e; return L; }
static std::string phase_of(const Ref &R, const KP &kp, int L){
    if (L < 0) return "first-checkpoint";
    if (kp.k > (long) R.ev.size()) return "after-completion";
    int e = R.ev_ep[kp.k-1];
    if (R.f[e] == 0 || kp.k < R.f[e] || (kp.k == R.f[e] && kp.b == 0) || kp.k > R.l[e]) return "idle";
    return "in-checkpoint";
}
// class of a file found on disk after the death, relative to the last completed checkpoint L
static std::string disk_class(const Ref &R, bool exists, const std::string &c, int L){
    if (!exists) return "missing"; if (c.empty()) return "empty";
    int best = -2; for(int e=0; e<R.nep; e++) if (R.has[0][e] && R.img[0][e] == c) best = e;
    if (best >= 0) return best > L ? "ckpt-new" : (best == L ? "ckpt-last" : "ckpt-stale");
    for(int e=0; e<R.nep; e++) if (R.has[0][e] && R.img[0][e].size() > c.size() && R.img[0][e].compare(0, c.size(), c) == 0) return "torn";
    return "other";
}
struct Verdict {
    std::vector<std::pair<std::string,std::string>> viol; // signature, detail
    std::string outcome_key, digest; long evals = 0; std::string disk, phase, result;
};
struct Recov { vf::Outcome o; bool runaway = false; bool has_s = false; long s_len = -1; std::string s_dig; std::vector<std::vector<Key>> calls; bool has_r = false; int nl = 0, np = 0; long valbad = 0; double maxerr = 0; std::string xt, xw; std::set<Key> pts; };
static Recov parse_recov(const vf::Outcome &o){
    Recov r; r.o = o; std::istringstream in(o.out); std::string line;
    while(std::getline(in, line)){
        if (line.empty()) continue;
        if (line[0] == 'M') r.calls.push_back(parse_pts(line.substr(1)));
        else if (line[0] == 'S'){ r.has_s = true; if (line != "S none"){ char d[80]; sscanf(line.c_str() + 2, "%ld %79s", &r.s_len, d); r.s_dig = d; } }
        else if (line[0] == 'X'){ size_t t = line.find('\t'); r.xt = line.substr(2, t == std::string::npos ? std::string::npos : t - 2); r.xw = (t == std::string::npos) ? "" : line.substr(t + 1); }
        else if (line[0] == 'R'){ char me[64]; sscanf(line.c_str() + 2, "%d %d %ld %63s", &r.nl, &r.np, &r.valbad, me); r.maxerr = strtod(me, nullptr); r.has_r = true; }
        else if (line[0] == 'P'){ for(auto &k : parse_pts(line.substr(1))) r.pts.insert(k); }
    }
    return r;
}
static std::string san_kind(const vf::Outcome &o){
    if (o.err.find("requested allocation size") != std::string::npos) return "allocation-size-too-big"; // a garbage size read from a torn file (stands for bad_alloc / OOM)
    if (o.err.find("out of memory") != std::string::npos || o.err.find("out-of-memory") != std::string::npos) return "out-of-memory";
    std::string c = o.sanitizer_class(); size_t p = c.find(" in "); if (p != std::string::npos) c = c.substr(0, p);
    std::string s; for(char ch : c){ if (isdigit((unsigned char) ch)) continue; s += (ch == ' ' || ch == ':' || ch == '\'') ? '-' : ch; }
    while(s.find("--") != std::string::npos) s.erase(s.find("--"), 1);
    return s.substr(0, 60);
}
static Verdict judge(const Ref &R, const KP &kp, bool main_ex, const std::string &main_c, bool old_ex, const std::string &old_c, const Recov &rc){
    Verdict V; const Scn &s = R.s; int L = last_completed(R, kp.k);
    V.phase = phase_of(R, kp, L);
    std::string dm = disk_class(R, main_ex, main_c, L), dold = disk_class(R, old_ex, old_c, L);
    V.disk = dm + "+" + dold;
    std::string where_disk = V.phase + ":main=" + dm + ",old=" + dold;   // writer-side invariant: both files matter
    std::string where = V.phase + ":main=" + dm;                             // reader side: what the restart found in <name>
    std::ostringstream ctx; ctx << s.name() << ": death before event " << kp.k << "/" << R.ev.size();
    if (kp.k <= (long) R.ev.size()) ctx << " (" << fs::kname[R.ev[kp.k-1].kind] << " " << fs::fname[R.ev[kp.k-1].file] << ", " << R.ev[kp.k-1].n << " bytes) after " << kp.b << " bytes of it";
    ctx << "; last completed checkpoint = " << L << " holding " << (L >= 0 ? R.before[L].size() : 0) << " samples; on disk: main " << dm << " (" << main_c.size() << " B), old " << dold << " (" << old_c.size() << " B). ";
    // ---- (1) writer side: once a checkpoint has completed, one of the two files always holds a complete checkpoint that is at least as new
    V.evals++;
    bool intact = (dm == "ckpt-new" || dm == "ckpt-last" || dold == "ckpt-new" || dold == "ckpt-last");
    if (L >= 0 && !intact) V.viol.push_back({"C17:disk:no-intact-checkpoint:" + where_disk, ctx.str() + "Neither file holds a complete checkpoint: the acknowledged samples exist nowhere on disk."});
    // ---- (2) the restart
    std::string res, start = "unknown"; std::set<Key> recomputed; size_t ncalls = 0; for(auto &c : rc.calls) ncalls += c.size();
    int start_ep = -1;
    if (rc.has_s && rc.s_len >= 0){ auto it = R.by_digest.find(rc.s_dig); if (it == R.by_digest.end()) start = "non-checkpoint"; else { start_ep = it->second; start = (start_ep > L) ? "new" : (start_ep == L ? "last" : ((start_ep == 0 || R.img[0][start_ep] == R.img[0][0]) ? "scratch" : "stale")); } }
    if (L >= 0) for(auto &c : rc.calls) for(auto &k : c) if (R.before[L].count(k)) recomputed.insert(k);
    V.evals++;
    if (rc.o.kind == vf::Outcome::TIMEOUT) res = "runaway"; // no return within the watchdog, or resident memory growing past the limit
    else if (rc.o.kind == vf::Outcome::SANITIZER) res = "sanitizer:" + san_kind(rc.o);
    else if (rc.o.kind == vf::Outcome::SIGNAL) res = "signal:" + std::to_string(rc.o.code);
    else if (rc.o.kind == vf::Outcome::EXIT) res = "exit:" + std::to_string(rc.o.code);
    else if (!rc.xt.empty()) res = "throws:" + rc.xt + (rc.xt == "runtime_error" ? ":" + g_slug(rc.xw) : ""); // messages of length_error etc. belong to libstdc++
    else if (!rc.has_r) res = "no-report";
    if (!res.empty()){
        V.viol.push_back({"C17:restart:" + res + ":" + where, ctx.str() + "The restart did not return normally: " + res + (rc.o.kind == vf::Outcome::TIMEOUT ? (rc.runaway ? " (killed when its resident memory had grown by " + std::to_string(g_rss_growth_mb) + " MB to " + std::to_string(g_rss_limit_mb) + " MB while reading the checkpoint; a normal restart allocates a few hundred KB)" : " (no return within " + std::to_string((int) g_child_timeout) + " s; a normal restart takes ~20 ms)") : "") + (rc.xw.empty() ? "" : " what=\"" + rc.xw + "\"") + (rc.o.err.empty() ? "" : " stderr: " + rc.o.err.substr(0, 700))});
    }else{
        std::ostringstream d; d << ctx.str() << "Restart: start state = " << start << (start_ep >= 0 ? " (checkpoint " + std::to_string(start_ep) + ")" : "") << ", " << rc.calls.size() << " model calls / " << ncalls << " samples, "
                                 << recomputed.size() << " of them already acknowledged, final loaded points " << rc.nl << ", bad values " << rc.valbad << ", max nodal error " << rc.maxerr << ". ";
        // (2a) starts from a completed checkpoint, never from a mixture / zero-filled state
        V.evals++;
        if (start == "non-checkpoint"){ res = "starts-from-non-checkpoint-state"; V.viol.push_back({"C17:restart:" + res + ":" + where, d.str() + "The state the restart continued from (its first checkpoint image) equals no checkpoint of the original run."}); }
        // (2b) re-computes at most what came after the last completed checkpoint
        V.evals++;
        if (!recomputed.empty()){
            std::string r2 = "recomputes-acknowledged-samples:start=" + start; if (res.empty()) res = r2;
            std::string lst; int q = 0; for(auto &k : recomputed){ if (q++ < 6) lst += key_str(k); }
            V.viol.push_back({"C17:restart:" + r2 + ":" + where, d.str() + "Samples contained in the last completed checkpoint were computed again: " + lst});
        }
        // (2c) budget
        V.evals++;
        size_t have = (start_ep >= 0) ? R.before[start_ep].size() : 0; std::set<Key> fresh; for(auto &c : rc.calls) for(auto &k : c) if (start_ep < 0 || !R.before[start_ep].count(k)) fresh.insert(k);
        if (rc.nl > s.budget + R.base || have + fresh.size() > (size_t) s.budget){
            if (res.empty()) res = "budget-exceeded:start=" + start;
            // the overrun is a function of the recovered state, not of where the process died: the signature names the start state and the grid family
            V.viol.push_back({"C17:restart:budget-exceeded:start=" + start + ":" + famname[s.fam], d.str() + "Budget " + std::to_string(s.budget) + " exceeded: " + std::to_string(have) + " samples in the recovered state + " + std::to_string(fresh.size()) + " new ones."});
        }
        // (2d) every loaded value is the model value, the surrogate is nodal
        V.evals++;
        double tol = (s.fam == FAM_WAVELET) ? 1e-7 : 1e-9;
        if (rc.valbad > 0){ if (res.empty()) res = "final-values-wrong"; V.viol.push_back({"C17:restart:final-values-wrong:" + where, d.str() + "Loaded values differ from the model at their points (corrupted or zero-filled samples)."}); }
        else if (!(rc.maxerr <= tol)){ if (res.empty()) res = "final-not-interpolating"; V.viol.push_back({"C17:restart:final-not-interpolating:" + where, d.str() + "The final surrogate does not reproduce the model at the loaded points."}); }
        // (2e) nothing to do after a completed run
        if (res.empty()) res = "ok:start=" + start;
    }
    V.result = res;
    V.outcome_key = V.phase + "|disk=" + V.disk + "|" + res + (L >= 0 && !intact ? "|no-intact-ckpt" : "");
    std::string dg = s.name() + "|" + start + "|" + res + "|" + rc.xw + "|calls:"; for(auto &c : rc.calls){ for(auto &k : c) dg += key_str(k); dg += "/"; } dg += "|re:"; for(auto &k : recomputed) dg += key_str(k);
    dg += "|nl=" + std::to_string(rc.nl);
    V.digest = vf::digest(dg);
    return V;
}

// one kill point on the real code: crash child + recovery child
struct KPResult { bool ok = false; std::string err; Verdict V; };
static KPResult run_kill_point(const Ref &R, const KP &kp){
    KPResult out; clean_dir();
    vf::Outcome c = vf::run_child([&](int fd){ child_run(R.s, 1, fd, &R.ev, kp.k, kp.b); }, g_child_timeout);
    bool past_end = kp.k > (long) R.ev.size();
    if (past_end){ if (c.kind != vf::Outcome::OK || c.out.find("COMPLETED") == std::string::npos){ out.err = "uninterrupted replay did not complete: " + c.describe() + " " + c.out.substr(0, 200) + c.err.substr(0, 300); return out; } }
    else{
        if (!(c.kind == vf::Outcome::EXIT && c.code == 42)){ out.err = "crash child ended with " + c.describe() + " instead of dying at event " + std::to_string(kp.k) + ": " + c.out.substr(0, 200) + c.err.substr(0, 300); return out; }
        long k = 0, n = 0, off = 0; int kind = 0, file = 0; size_t p = c.out.find("DIED "); if (p == std::string::npos || sscanf(c.out.c_str() + p + 5, "%ld %d %d %ld %ld", &k, &kind, &file, &n, &off) != 5 || k != kp.k || off != kp.b){ out.err = "crash child died elsewhere: " + c.out.substr(0, 200); return out; }
    }
    std::string mc, oc; bool mex = raw_slurp(fs::main_path, mc), oex = raw_slurp(fs::main_path + "_old", oc);
    bool runaway = false;
    vf::Outcome r = run_child_limited([&](int fd){ child_run(R.s, 2, fd, nullptr, -1, 0); }, g_child_timeout, &runaway);
    Recov rc = parse_recov(r); rc.runaway = runaway;
    out.V = judge(R, kp, mex, mc, oex, oc, rc); out.ok = true;
    return out;
}
static std::string case_json(const Ref &R, const KP &kp){
    vf::J j = R.s.json(); j.i("k", kp.k).i("b", kp.b).i("events", (long long) R.ev.size());
    if (kp.k <= (long) R.ev.size()) j.s("event", std::string(fs::kname[R.ev[kp.k-1].kind]) + " " + fs::fname[R.ev[kp.k-1].file] + " " + std::to_string(R.ev[kp.k-1].n));
    return j.str();
}
// violations that need no crash: read off the reference run
static void reference_checks(const Ref &R, long &evals){
    const Scn &s = R.s; std::string cj = s.json().i("k", 0).i("b", 0).str();
    int done = 0, lastc = -1, prev = -1; for(int e=0; e<R.nep; e++) if (R.l[e] > 0){ done++; prev = lastc; lastc = e; }
    evals++;
    if (done >= 2){
        int e = R.nep - 1;
        if (!R.has[1][e]) vf::violation("C17:disk:no-backup-file:after-complete-run", s.name(), cj, s.name() + ": " + std::to_string(done) + " checkpoints were written, yet the documented backup file <name>_old does not exist after the run.");
        else if (R.img[1][e] != R.img[0][prev] && R.img[1][e] != R.img[0][lastc]) vf::violation("C17:disk:backup-is-not-a-checkpoint:after-complete-run", s.name(), cj, s.name() + ": <name>_old exists after the run but equals neither of the two last checkpoints.");
    }
    // the reference model of acknowledged work assumes the documented cadence: a checkpoint is written after every job (model call)
    evals++;
    for(int e=1; e<R.nep; e++) if (R.l[e] == 0 || !R.has[0][e] || R.img[0][e] == R.img[0][e-1]){
        vf::violation("C17:reference-run:no-checkpoint-after-model-call", s.name(), cj, s.name() + ": after model call " + std::to_string(e) + " of " + std::to_string(R.nep - 1) + " no new checkpoint was written before the next call / the end of the run; a crash would lose a sample that was obtained more than one job ago."); break; }
    evals++;
    if (R.nl > s.budget + R.base || (int) R.before[R.nep-1].size() > s.budget) vf::violation("C17:reference-run:budget-exceeded", s.name(), cj, s.name() + ": the uninterrupted run computed " + std::to_string(R.before[R.nep-1].size()) + " samples / loaded " + std::to_string(R.nl) + " points with budget " + std::to_string(s.budget));
    evals++;
    if (R.valbad > 0 || !(R.maxerr <= ((s.fam == FAM_WAVELET) ? 1e-7 : 1e-9))) vf::violation("C17:reference-run:final-not-interpolating", s.name(), cj, s.name() + ": the uninterrupted run ends with nodal error " + std::to_string(R.maxerr) + ", bad values " + std::to_string(R.valbad));
}

// =============================================================================================== main
static std::vector<Scn> scenarios(const std::string &tier){
    std::vector<Scn> v; bool th = (tier == "thorough");
    std::vector<int> fams = th ? std::vector<int>{FAM_LOCALP, FAM_WAVELET, FAM_SEQUENCE, FAM_GLOBAL, FAM_FOURIER} : std::vector<int>{FAM_LOCALP, FAM_GLOBAL};
    for(int budget : {6, 12}){
        for(int f : fams) for(int batch : {1, 2}){ Scn s; s.fam = f; s.budget = budget; s.batch = batch; v.push_back(s); }
        if (th && budget == 6) for(int f : {FAM_LOCALP, FAM_GLOBAL}) for(int batch : {1, 2}){ Scn s; s.fam = f; s.budget = 6; s.batch = batch; s.parallel = 1; v.push_back(s); }
        // the only way to a NON-EMPTY sample store in the checkpoint: a grid that already holds >= 1000 points (quick: batch 1 only, reduced torn offsets)
        if (budget == 6) for(int batch : (th ? std::vector<int>{1, 2} : std::vector<int>{1})){ Scn s; s.fam = FAM_LOCALP; s.budget = 4; s.batch = batch; s.preload = PRELOAD_DEPTH; v.push_back(s); }
    }
    // a rule with two nodes on its lowest level: checkpoints exist before the first tensor is complete
    { Scn s; s.fam = FAM_GLOBAL; s.budget = 6; s.batch = 1; s.rule2 = 1; v.push_back(s); }
    // parallel restarts (the remaining budget is then smaller than workers x batch near the end of the run)
    { Scn s; s.fam = FAM_SEQUENCE; s.budget = 12; s.batch = 1; s.rjobs = 4; v.push_back(s); }
    { Scn s; s.fam = FAM_LOCALP; s.budget = 6; s.batch = 2; s.rjobs = 2; v.push_back(s); }
    if (th){ { Scn s; s.fam = FAM_GLOBAL; s.budget = 12; s.batch = 2; s.rjobs = 3; v.push_back(s); } { Scn s; s.fam = FAM_WAVELET; s.budget = 12; s.batch = 1; s.rjobs = 4; v.push_back(s); } }
    // deeper initial grids: initial tensors with four and more points of their own, a restart in the middle of such a tensor
    { Scn s; s.fam = FAM_GLOBAL; s.budget = 16; s.batch = 1; s.depth0 = 2; v.push_back(s); }
    if (th){ { Scn s; s.fam = FAM_FOURIER; s.budget = 24; s.batch = 1; s.depth0 = 2; v.push_back(s); } { Scn s; s.fam = FAM_GLOBAL; s.budget = 16; s.batch = 2; s.depth0 = 2; v.push_back(s); } }
    return v;
}
static std::string g_scratch;
static void set_worker_dir(){
    fs::dir = g_scratch + "/w" + std::to_string(getpid()); fs::main_path = fs::dir + "/ckpt";
    mkdir(fs::dir.c_str(), 0755);
}

int main(int argc, char **argv){
    vf::Args A(argc, argv);
    // sanitizer reports of recovery children are outcomes and there are thousands of them: no symbolisation while exploring (1-3 s each),
    // full reports when one case is replayed; allocations of garbage sizes are capped so that 16 workers cannot exhaust the machine.
    if (!getenv("CRASH_CKPT_REEXEC")){
        std::string o = std::string(__asan_default_options()) + ":max_allocation_size_mb=64" + (A.has("--replay") ? "" : ":symbolize=0");
        setenv("ASAN_OPTIONS", o.c_str(), 1); setenv("CRASH_CKPT_REEXEC", "1", 1);
        // what a restart does with a torn file depends on uninitialised stack words (F19); a fixed address-space layout keeps that reproducible from run to run
        personality(ADDR_NO_RANDOMIZE);
        execv("/proc/self/exe", argv);
    }
    std::string tier = A.get("--tier", "quick");
    double dl = A.getd("--deadline", 0); if (dl > 0) vf::g_deadline = vf::now() + dl;
    int workers = (int) A.geti("--workers", 8);
    if (system("mkdir -p out/tmp")){}
    g_scratch = "out/tmp/crash." + std::to_string(getpid()); mkdir(g_scratch.c_str(), 0755);
    auto cleanup = [&](){ std::string cmd = "rm -rf " + g_scratch; if (system(cmd.c_str())){} };

    if (A.has("--replay")){
        std::string v = vf::slurp(A.get("--replay")), cs = vf::jget(v, "case"); Scn s; std::string fam = vf::jget(cs, "fam");
        for(int f=0; f<NFAM; f++) if (fam == famname[f]) s.fam = f;
        s.budget = atoi(vf::jget(cs, "budget").c_str()); s.batch = atoi(vf::jget(cs, "batch").c_str()); s.parallel = atoi(vf::jget(cs, "parallel").c_str()); s.preload = atoi(vf::jget(cs, "preload").c_str()); s.depth0 = atoi(vf::jget(cs, "depth0").c_str()); s.rjobs = atoi(vf::jget(cs, "rjobs").c_str()); s.rule2 = atoi(vf::jget(cs, "rule2").c_str());
        KP kp{atol(vf::jget(cs, "k").c_str()), atol(vf::jget(cs, "b").c_str())};
        set_worker_dir(); Ref R = reference_run(s);
        if (!R.ok){ vf::emit(vf::J().s("t","error").s("what", R.err)); cleanup(); return 0; }
        long ev = 0;
        if (kp.k == 0) reference_checks(R, ev);
        else{ KPResult r = run_kill_point(R, kp); if (!r.ok) vf::emit(vf::J().s("t","error").s("what", r.err)); else for(auto &vv : r.V.viol) vf::violation(vv.first, s.name(), case_json(R, kp), vv.second); }
        vf::emit(vf::J().s("t","summary").s("replay", s.name())); cleanup(); return 0;
    }

    bool every_byte = (tier == "thorough") || A.has("--every-byte");
    std::vector<Scn> S = scenarios(tier);
    if (!A.get("--only").empty()){ std::vector<Scn> T; for(auto &s : S) if (s.name().find(A.get("--only")) != std::string::npos) T.push_back(s); S = T; }
    // reference runs (twice: the enumeration below is only meaningful when the construction is deterministic)
    set_worker_dir();
    std::vector<Ref> refs; std::vector<std::vector<KP>> kps; long ref_evals = 0;
    for(auto &s : S){
        Ref R = reference_run(s);
        if (!R.ok){ vf::emit(vf::J().s("t","error").s("what", s.name() + ": " + R.err)); continue; }
        Ref R2 = reference_run(s, false);
        if (!R2.ok || R2.sig != R.sig){ vf::emit(vf::J().s("t","note").s("text", s.name() + ": the event history is not deterministic, scenario left to the schedule explorer (C18)")); vf::emit(vf::J().s("t","incomplete").s("unit", s.name())); continue; }
        reference_checks(R, ref_evals);
        kps.push_back(kill_points(R, every_byte)); refs.push_back(R);
    }
    // work units: chunks of kill points
    const size_t CH = 40; struct WU { size_t r, a, b; }; std::vector<WU> W;
    for(size_t r=0; r<refs.size(); r++) for(size_t a=0; a<kps[r].size(); a+=CH) W.push_back({r, a, std::min(kps[r].size(), a + CH)});
    // (scenarios are listed with the small budgets first, so a deadline leaves whole scenarios finished)
    double t0 = vf::now();
    vf::parallel_units(W.size(), workers, [&](size_t ui){
        const WU &w = W[ui]; const Ref &R = refs[w.r]; set_worker_dir();
        std::ostringstream part; std::map<std::string, long> oc; std::map<std::string, double> tm; std::set<std::string> dg, sigs; long evals = 0, execs = 0, nviol = 0, harness_err = 0;
        for(size_t i=w.a; i<w.b; i++){
            const KP &kp = kps[w.r][i]; double tk = vf::now();
            KPResult r = run_kill_point(R, kp); tk = vf::now() - tk;
            if (r.ok){ std::string cls = r.V.result.substr(0, r.V.result.find(":start")); tm[cls] += tk; }
            if (!r.ok){ harness_err++; vf::emit(vf::J().s("t","error").s("what", R.s.name() + " kill point " + std::to_string(kp.k) + "/" + std::to_string(kp.b) + ": " + r.err)); continue; }
            execs++; evals += r.V.evals; oc[r.V.outcome_key]++; dg.insert(r.V.digest);
            for(auto &vv : r.V.viol){ nviol++; oc["VIOL " + vv.first]++; if (sigs.insert(vv.first).second) vf::violation(vv.first, R.s.name(), case_json(R, kp), vv.second); }
        }
        clean_dir(); rmdir(fs::dir.c_str());
        part << "U " << w.r << " " << execs << " " << evals << " " << nviol << "\n";
        for(auto &d : dg) part << "D " << d << "\n";
        for(auto &o : oc) part << "O " << o.second << " " << o.first << "\n";
        for(auto &o : tm) part << "T " << o.second << " " << o.first << "\n";
        std::string pf = g_scratch + "/part." + std::to_string(ui); int fd = ::open(pf.c_str(), O_WRONLY | O_CREAT | O_TRUNC, 0644); if (fd >= 0){ vf::wr(fd, part.str()); ::close(fd); }
    });
    // aggregate per scenario
    std::vector<long> execs(refs.size(), 0), evals(refs.size(), 0), nviol(refs.size(), 0), chunks_done(refs.size(), 0), chunks_total(refs.size(), 0), kp_done(refs.size(), 0);
    std::vector<std::set<std::string>> dgs(refs.size()); std::map<std::string, long> outcomes; std::map<std::string, double> times;
    for(size_t ui=0; ui<W.size(); ui++){
        chunks_total[W[ui].r]++;
        std::string c; if (!raw_slurp(g_scratch + "/part." + std::to_string(ui), c)) continue;
        chunks_done[W[ui].r]++; kp_done[W[ui].r] += (long) (W[ui].b - W[ui].a);
        std::istringstream in(c); std::string line;
        while(std::getline(in, line)){
            if (line[0] == 'U'){ long r, a, b, d; sscanf(line.c_str() + 2, "%ld %ld %ld %ld", &r, &a, &b, &d); execs[W[ui].r] += a; evals[W[ui].r] += b; nviol[W[ui].r] += d; }
            else if (line[0] == 'D') dgs[W[ui].r].insert(line.substr(2));
            else if (line[0] == 'O'){ char *q; long n = strtol(line.c_str() + 2, &q, 10); outcomes[std::string(q + 1)] += n; }
            else if (line[0] == 'T'){ char *q; double n = strtod(line.c_str() + 2, &q); times[std::string(q + 1)] += n; }
        }
    }
    size_t units_done = 0;
    for(size_t r=0; r<refs.size(); r++){
        const Ref &R = refs[r]; bool complete = chunks_done[r] == chunks_total[r]; if (complete) units_done++;
        long writes = 0, wbytes = 0; for(auto &e : R.ev) if (e.kind == fs::WRITE){ writes++; wbytes += e.n; }
        vf::emit(vf::J().s("t","unit").s("unit", R.s.name()).i("states", (long long) kp_done[r]).i("transitions", (long long) R.ev.size()).i("execs", execs[r]).i("evals", evals[r] + (r == 0 ? ref_evals : 0))
                 .i("distinct", (long long) dgs[r].size()).i("kill_points_total", (long long) kps[r].size()).i("events", (long long) R.ev.size()).i("checkpoints", (long long) std::count_if(R.l.begin(), R.l.end(), [](long x){ return x > 0; }))
                 .i("write_events", writes).i("bytes_written", wbytes).i("model_calls", (long long) R.calls.size()).i("violating_kill_point_checks", nviol[r]).b("complete", complete));
        if (!complete) vf::emit(vf::J().s("t","incomplete").s("unit", R.s.name()));
        // samples of explored cases: a kill point in the middle of the history
        const KP &kp = kps[r][kps[r].size() / 2]; vf::emit(vf::J().s("t","sample").raw("case", case_json(R, kp)));
    }
    for(auto &o : outcomes) vf::emit(vf::J().s("t","outcome").s("key", o.first).i("n", o.second));
    std::string bound = "tier=" + tier + ": " + std::to_string(refs.size()) + " scenarios (family x budget {6,12} x batch {1,2}" + (tier == "thorough" ? " + parallel mode with 1 worker thread (budget 6) + local polynomial grid preloaded with >= 1000 points (non-empty sample store, 4 further samples)" : " + one local polynomial scenario preloaded with >= 1000 points (non-empty sample store)") + "); every file-system event of the recorded history is a kill point; torn writes at "
                       + (every_byte ? "every byte offset of every checkpoint <= 4 KiB; larger checkpoints: offsets {1, n-1, every field boundary -1/0/+1, every 512th byte, every byte of the last 320 bytes (sample store)}" : "offsets {1, n-1, every field boundary -1/0/+1, every 24th byte} (all offsets for writes <= 64 bytes)") + "; death after completion included";
    { std::string tt; for(auto &o : times){ char b[64]; snprintf(b, sizeof(b), "%.1f", o.second); tt += o.first + "=" + b + "s "; } vf::emit(vf::J().s("t","note").s("text", "worker time by restart result class: " + tt)); }
    vf::emit(vf::J().s("t","note").s("text", "wall of the enumeration: " + std::to_string(vf::now() - t0) + " s"));
    vf::emit(vf::J().s("t","summary").i("units_total", (long long) S.size()).i("units_done", (long long) units_done).s("bound", bound).b("exhaustive", units_done == S.size() && !vf::past_deadline()));
    cleanup();
    return 0;
}
