// env_dream - engine E-E for C15 (DREAM sampling): the random-number source, the domain test, the probability function and
// the user update are scripted/logging callbacks; answer strings over {0, 1/4, 1/2, 3/4, 1} are enumerated (exhaustively up to
// a length, then with <= k deviations from the default answer 1/2 over several iterations); a reference Metropolis/DE step
// written here (no code shared with the library) is replayed on the logged callback values.
#include "TasmanianDREAM.hpp"
#include "envenum.hpp"
using namespace ee;

static std::string g_tier = "quick";

// ---------------------------------------------------------------- configuration
struct Cfg {
    int n = 2, d = 1, form = 0, upd = 0, diff = 1, dom = 0, pdf = 0;
    std::string str() const{ std::ostringstream o; o << "chains=" << n << ";dims=" << d << ";form=" << (form ? "log" : "reg") << ";update=" << upd << ";diff=" << diff << ";domain=" << dom << ";pdf=" << pdf; return o.str(); }
    static Cfg parse(const std::string &s){ Cfg c; auto get = [&](const char *k)->std::string{ size_t p = s.find(std::string(k) + "="); if (p == std::string::npos) return ""; p += strlen(k) + 1; size_t e = s.find(';', p); return s.substr(p, e == std::string::npos ? std::string::npos : e - p); };
        c.n = atoi(get("chains").c_str()); c.d = atoi(get("dims").c_str()); c.form = (get("form") == "log"); c.upd = atoi(get("update").c_str()); c.diff = atoi(get("diff").c_str()); c.dom = atoi(get("domain").c_str()); c.pdf = atoi(get("pdf").c_str()); return c; }
    int upd_draws() const{ return upd == 0 ? 0 : upd == 1 ? d : upd == 2 ? 2 * ((d + 1) / 2) : 1; }
    int len1() const{ return n * (2 + upd_draws()) + n; } // most draws one iteration can consume
    double w() const{ return diff == 0 ? 0.0 : diff == 1 ? 1.0 : 0.5; }
    uint64_t hash() const{ return vf::mix((uint64_t)(n + 4 * (d + 4 * (form + 2 * (upd + 4 * (diff + 4 * (dom + 4 * pdf))))))); }
    static const char* updname(int u){ const char *n[4] = {"none", "uniform", "gaussian", "user"}; return n[u]; }
};
static const double MAG_UNIFORM = 0.4, MAG_GAUSS = 0.3;
static const int MAXN = 3, MAXD = 2;
static std::vector<double> init_state(const Cfg &c){ std::vector<double> s((size_t)(c.n * c.d)); for(int i=0;i<c.n;i++) for(int j=0;j<c.d;j++) s[(size_t)(i * c.d + j)] = (j == 0) ? 0.1 + 0.3 * i : -0.2 + 0.25 * i; return s; }
// a second initial state inside both non-empty domains (used by the setState edits between two runs)
static std::vector<double> second_state(const Cfg &c){ std::vector<double> s((size_t)(c.n * c.d)); for(int i=0;i<c.n;i++) for(int j=0;j<c.d;j++) s[(size_t)(i * c.d + j)] = (j == 0) ? 0.55 - 0.2 * i : 0.1 + 0.15 * i; return s; }
// state edits between two SampleDREAM calls: every public mutator of TasmanianDREAM that is meant for users
static const int NEDIT = 8;
static const char *EDITNAME[NEDIT] = {"none", "setState-vector", "setState-callable", "clearPDFvalues", "clearHistory", "setPDFvalues-callable", "setPDFvalues-vector", "expandHistory"};
// the environment's own domain test and probability function (deterministic)
static bool my_domain(const Cfg &c, const double *x){
    if (c.dom == 2) return false;
    if (c.dom == 0){ for(int j=0;j<c.d;j++) if (x[j] < -1.0 || x[j] > 1.0) return false; return true; }
    double v = x[0] + (c.d > 1 ? 0.5 * x[1] : 0.0); return v >= 0.0;
}
// pdf 3: the library's own posterior(model, LikelihoodGaussIsotropic, uniform_prior) composition (deterministic, one value per candidate strip)
static TasDREAM::LikelihoodGaussIsotropic g_likely;
static void init_posterior(){ g_likely.setData(0.05, std::vector<double>{0.3, 0.2}); }
static void posterior_eval(const Cfg &c, const std::vector<double> &cand, std::vector<double> &vals){
    using namespace TasDREAM; int d = c.d;
    DreamModel model = [d](const std::vector<double> &x, std::vector<double> &outs)->void{ size_t m = x.size() / (size_t) d; outs.resize(2 * m); for(size_t i=0;i<m;i++){ double x0 = x[i * (size_t) d]; outs[2*i] = x0; outs[2*i+1] = x0 * x0 + (d > 1 ? x[i * (size_t) d + 1] : 0.0); } };
    if (c.form) posterior<logform>(model, g_likely, uniform_prior)(cand, vals); else posterior<regform>(model, g_likely, uniform_prior)(cand, vals);
}
static double my_pdf(const Cfg &c, const double *x){
    if (c.pdf == 3){ std::vector<double> cand(x, x + c.d), v(1); posterior_eval(c, cand, v); return v[0]; }
    if (c.pdf == 0) return c.form ? std::log(0.7) : 0.7;
    if (c.pdf == 1){ const double ctr[2] = {0.3, 0.1}; double r2 = 0; for(int j=0;j<c.d;j++) r2 += (x[j] - ctr[j]) * (x[j] - ctr[j]); return c.form ? -8.0 * r2 : std::exp(-8.0 * r2); }
    const double lo[2] = {0.05, -0.25}, hi[2] = {0.5, 0.25}; bool in = true; for(int j=0;j<c.d;j++) if (!(x[j] >= lo[j] && x[j] <= hi[j])) in = false;
    if (!in) return c.form ? -std::numeric_limits<double>::infinity() : 0.0;
    return c.form ? std::log(1.0 + x[0]) : 1.0 + x[0];
}
static void my_user_update(const Cfg &c, double *x, double u){ x[0] += 0.3 * (2.0 * u - 1.0); if (c.d > 1) x[1] -= 0.15 * (2.0 * u - 1.0); }

// ---------------------------------------------------------------- event log of the environment (flat storage)
struct Ev { char t; bool ans; uint32_t off, nx, ny; }; // R: x={value}; I: x=arg, ans; P: x=candidates, y=values; U: x=before, y=after
struct Log {
    std::vector<Ev> ev; std::vector<double> data;
    void add(char t, bool ans, const double *x, size_t nx, const double *y, size_t ny){ ev.push_back({t, ans, (uint32_t) data.size(), (uint32_t) nx, (uint32_t) ny}); data.insert(data.end(), x, x + nx); if (ny) data.insert(data.end(), y, y + ny); }
    const double* x(const Ev &e) const{ return data.data() + e.off; } const double* y(const Ev &e) const{ return data.data() + e.off + e.nx; }
};
struct RunObs { std::vector<double> state, pv, hist, hpdf; double rate = 0; size_t nhist = 0; };
struct EditObs { bool done = false, ready = false; std::vector<double> state; size_t nhist = 0, hist_size = 0; };
struct Exec { Log log; std::vector<size_t> run_begin, run_end, draws_begin; std::vector<RunObs> obs; EditObs eo; Str used; std::string thrown; };
typedef std::vector<std::pair<int,int>> Runs;

// runs the calls on one TasmanianDREAM object; 'edit' (if any) is applied between the first and the second call; start_second: the object is initialised with the second state
static void run_library(const Cfg &c, const Runs &runs, const Str &s, Exec &ex, int edit = 0, bool start_second = false){
    using namespace TasDREAM;
    Script sc; sc.reset(s);
    Log &log = ex.log; log.ev.reserve(64); log.data.reserve(256);
    auto rng = [&]()->double{ double v = sc.next(); log.add('R', false, &v, 1, nullptr, 0); return v; };
    DreamDomain lib_cube = hypercube(std::vector<double>((size_t) c.d, -1.0), std::vector<double>((size_t) c.d, 1.0));
    auto inside = [&](const std::vector<double> &x)->bool{ bool a = (c.dom == 0) ? lib_cube(x) : my_domain(c, x.data()); log.add('I', a, x.data(), x.size(), nullptr, 0); return a; };
    auto pdf = [&](const std::vector<double> &cand, std::vector<double> &vals)->void{ size_t m = cand.size() / (size_t) c.d; if (c.pdf == 3) posterior_eval(c, cand, vals); else for(size_t i=0;i<m && i<vals.size();i++) vals[i] = my_pdf(c, &cand[i * (size_t) c.d]); log.add('P', false, cand.data(), cand.size(), vals.data(), vals.size()); };
    auto user = [&](std::vector<double> &x)->void{ double before[MAXD] = {0, 0}; std::copy_n(x.begin(), std::min<size_t>(x.size(), MAXD), before); double u = rng(); my_user_update(c, x.data(), u); log.add('U', false, before, x.size(), x.data(), x.size()); };
    std::function<double(void)> diff = (c.diff == 0) ? std::function<double(void)>(const_percent<0>) : (c.diff == 1) ? std::function<double(void)>(const_one) : std::function<double(void)>(const_percent<50>);
    TasmanianDREAM state(c.n, c.d);
    state.setState(start_second ? second_state(c) : init_state(c));
    try{
        for(size_t ri=0; ri<runs.size(); ri++){
            auto &r = runs[ri];
            if (ri == 1 && edit > 0){
                std::vector<double> v2 = second_state(c);
                switch(edit){
                    case 1: state.setState(v2); break;
                    case 2: { size_t q = 0; state.setState([&](double *x){ for(int j=0;j<c.d;j++) x[j] = v2[q * (size_t) c.d + (size_t) j]; q++; }); break; }
                    case 3: state.clearPDFvalues(); break;
                    case 4: state.clearHistory(); break;
                    case 5: state.setPDFvalues(pdf); break;
                    case 6: { std::vector<double> vals((size_t) c.n); const std::vector<double> &cur = state.getChainState(); for(int i=0;i<c.n;i++) vals[(size_t) i] = my_pdf(c, &cur[(size_t)(i * c.d)]); state.setPDFvalues(vals); break; }
                    case 7: state.expandHistory(2); break;
                    default: break;
                }
                ex.eo.done = true; ex.eo.ready = state.isPDFReady(); ex.eo.state = state.getChainState(); ex.eo.nhist = state.getNumHistory(); ex.eo.hist_size = state.getHistory().size();
            }
            ex.run_begin.push_back(log.ev.size()); ex.draws_begin.push_back(sc.pos);
            if (c.upd == 3){
                if (c.form) SampleDREAM<logform>(r.first, r.second, pdf, inside, state, user, diff, rng); else SampleDREAM<regform>(r.first, r.second, pdf, inside, state, user, diff, rng);
            }else{
                TypeDistribution dist = (c.upd == 1) ? dist_uniform : (c.upd == 2) ? dist_gaussian : dist_null; double mag = (c.upd == 1) ? MAG_UNIFORM : (c.upd == 2) ? MAG_GAUSS : 0.0;
                if (c.form) SampleDREAM<logform>(r.first, r.second, pdf, inside, state, dist, mag, diff, rng); else SampleDREAM<regform>(r.first, r.second, pdf, inside, state, dist, mag, diff, rng);
            }
            ex.obs.emplace_back(); RunObs &o = ex.obs.back(); o.state = state.getChainState(); if (state.isPDFReady()) for(int i=0;i<c.n;i++) o.pv.push_back(state.getPDFvalue((size_t) i));
            o.hist = state.getHistory(); o.hpdf = state.getHistoryPDF(); o.rate = state.getAcceptanceRate(); o.nhist = state.getNumHistory();
            ex.run_end.push_back(log.ev.size());
        }
    }catch(std::exception &e){ ex.thrown = e.what(); }
    ex.used = sc.used;
}

// ---------------------------------------------------------------- the same calls through the exported C entry point tsgDreamSample() (what the Python module uses)
extern "C" void tsgDreamSample(int form, int num_burnup, int num_collect, void (*distribution)(int, int, const double[], double[], int*), void* state_pntr,
                               void *domain_grid, double domain_lower[], double dommain_upper[], int (*domain_callback)(int, const double[]),
                               const char* iupdate_type, double iupdate_magnitude, void (*iupdate_callback)(int, double[], int*),
                               int dupdate_percent, double (*dupdate_callback)(), const char* random_type, int random_seed, double (*random_callback)(), int *err);
static std::function<void(const std::vector<double>&, std::vector<double>&)> *cw_pdf = nullptr; static std::function<bool(const std::vector<double>&)> *cw_inside = nullptr;
static std::function<void(std::vector<double>&)> *cw_user = nullptr; static std::function<double(void)> *cw_rng = nullptr; static int cw_d = 1;
static void cwf_pdf(int m, int d, const double x[], double y[], int *err){ std::vector<double> cand(x, x + (size_t) m * d), vals((size_t) m); (*cw_pdf)(cand, vals); std::copy(vals.begin(), vals.end(), y); *err = 0; }
static int cwf_inside(int d, const double x[]){ std::vector<double> v(x, x + d); return (*cw_inside)(v) ? 1 : 0; }
static void cwf_user(int d, double x[], int *err){ std::vector<double> v(x, x + d); (*cw_user)(v); std::copy(v.begin(), v.end(), x); *err = 0; }
static void cwf_noop(int, double[], int *err){ *err = 0; }
static double cwf_rng(){ return (*cw_rng)(); }
static double cwf_one(){ return 1.0; }
static void run_library_c(const Cfg &c, const Runs &runs, const Str &s, Exec &ex, bool start_second){
    using namespace TasDREAM;
    Script sc; sc.reset(s);
    Log &log = ex.log; log.ev.reserve(64); log.data.reserve(256);
    std::function<double(void)> rng = [&]()->double{ double v = sc.next(); log.add('R', false, &v, 1, nullptr, 0); return v; };
    DreamDomain lib_cube = hypercube(std::vector<double>((size_t) c.d, -1.0), std::vector<double>((size_t) c.d, 1.0));
    std::function<bool(const std::vector<double>&)> inside = [&](const std::vector<double> &x)->bool{ bool a = (c.dom == 0) ? lib_cube(x) : my_domain(c, x.data()); log.add('I', a, x.data(), x.size(), nullptr, 0); return a; };
    std::function<void(const std::vector<double>&, std::vector<double>&)> pdf = [&](const std::vector<double> &cand, std::vector<double> &vals)->void{ size_t m = cand.size() / (size_t) c.d; if (c.pdf == 3) posterior_eval(c, cand, vals); else for(size_t i=0;i<m && i<vals.size();i++) vals[i] = my_pdf(c, &cand[i * (size_t) c.d]); log.add('P', false, cand.data(), cand.size(), vals.data(), std::min(vals.size(), m)); };
    std::function<void(std::vector<double>&)> user = [&](std::vector<double> &x)->void{ double before[MAXD] = {0, 0}; std::copy_n(x.begin(), std::min<size_t>(x.size(), MAXD), before); double u = rng(); my_user_update(c, x.data(), u); log.add('U', false, before, x.size(), x.data(), x.size()); };
    cw_pdf = &pdf; cw_inside = &inside; cw_user = &user; cw_rng = &rng; cw_d = c.d;
    TasmanianDREAM state(c.n, c.d); state.setState(start_second ? second_state(c) : init_state(c));
    for(size_t ri=0; ri<runs.size(); ri++){
        auto &r = runs[ri]; int err = 0;
        ex.run_begin.push_back(log.ev.size()); ex.draws_begin.push_back(sc.pos);
        const char *ut = (c.upd == 1) ? "uniform" : (c.upd == 2) ? "gaussian" : "null"; double mag = (c.upd == 1) ? MAG_UNIFORM : (c.upd == 2) ? MAG_GAUSS : 0.0;
        int percent = (c.diff == 0) ? 0 : (c.diff == 1) ? -1 : 50;
        tsgDreamSample(c.form ? 1 : 0, r.first, r.second, cwf_pdf, (void*) &state, nullptr, nullptr, nullptr, cwf_inside, ut, mag, (c.upd == 3) ? cwf_user : cwf_noop, percent, cwf_one, "callback", 7, cwf_rng, &err);
        if (err != 0){ ex.thrown = "tsgDreamSample returned error " + std::to_string(err); break; }
        ex.obs.emplace_back(); RunObs &o = ex.obs.back(); o.state = state.getChainState(); if (state.isPDFReady()) for(int i=0;i<c.n;i++) o.pv.push_back(state.getPDFvalue((size_t) i));
        o.hist = state.getHistory(); o.hpdf = state.getHistoryPDF(); o.rate = state.getAcceptanceRate(); o.nhist = state.getNumHistory();
        ex.run_end.push_back(log.ev.size());
    }
    ex.used = sc.used;
}
// C entry point and C++ call: same callbacks with the same arguments in the same order, same final books
static bool same_exec(const Exec &a, const Exec &b){
    if (a.thrown != b.thrown || a.log.ev.size() != b.log.ev.size() || a.log.data.size() != b.log.data.size() || a.obs.size() != b.obs.size()) return false;
    for(size_t i=0;i<a.log.ev.size();i++) if (a.log.ev[i].t != b.log.ev[i].t) return false;
    if (!a.log.data.empty() && memcmp(a.log.data.data(), b.log.data.data(), a.log.data.size() * sizeof(double)) != 0) return false;
    for(size_t r=0;r<a.obs.size();r++) if (!same_bits(a.obs[r].state, b.obs[r].state) || !same_bits(a.obs[r].pv, b.obs[r].pv) || !same_bits(a.obs[r].hist, b.obs[r].hist) || !same_bits(a.obs[r].hpdf, b.obs[r].hpdf) || a.obs[r].nhist != b.obs[r].nhist) return false;
    return true;
}

// ---------------------------------------------------------------- reference model: one DREAM iteration (differential evolution proposal + Metropolis)
// The same stepper either *replays* a logged execution (every callback answer is taken from the log and the arguments the library
// passed are compared with what the model expects) or *simulates* (answers come from the environment functions; used to name the
// role of every draw of an answer string without running the library).
struct Ref {
    const Cfg &c; bool replay; const Log *log = nullptr; size_t pos = 0, end = 0; Script sc; std::string roles; // roles: j k u a per draw
    std::vector<double> S, pv; bool pv_ready = false; std::vector<double> hist, hpdf; long accepted = 0, moves = 0, outside = 0, iters = 0;
    std::string fail_sig, fail_detail; // first lock-step failure
    struct IterRec { double before[MAXN * MAXD], props[MAXN * MAXD]; char in[MAXN], acc[MAXN]; bool collected; size_t draws; }; std::vector<IterRec> its;
    Ref(const Cfg &cfg, bool rp, bool start_second = false) : c(cfg), replay(rp){ S = start_second ? second_state(cfg) : init_state(cfg); its.reserve(8); }
    // documented effect of the edits: setState replaces the chains and leaves the pdf values NOT ready (the next SampleDREAM must call the probability
    // function on the current state before the first Metropolis test), the history is kept; clearPDFvalues: state kept, not ready; clearHistory: only the
    // history and the acceptance counter go; setPDFvalues: values (re)computed for the current state; expandHistory: nothing observable
    bool apply_edit(int e, size_t seg_begin, size_t seg_end){
        size_t n = (size_t) c.n, d = (size_t) c.d;
        if (e == 1 || e == 2){ S = second_state(c); pv_ready = false; }
        else if (e == 3){ pv_ready = false; }
        else if (e == 4){ hist.clear(); hpdf.clear(); accepted = 0; }
        else if (e == 5){
            if (replay){ pos = seg_begin; end = seg_end; if (!expect('P', "probability-call-of-setPDFvalues")) return false; const Ev &ev = log->ev[pos++]; if (ev.nx != n * d || ev.ny != n || !same_bits_n(log->x(ev), S.data(), n * d)) return fail("C15:setPDFvalues-candidates", "setPDFvalues(callable) evaluated " + vstr(log->x(ev), ev.nx) + " instead of the state " + vstr(S)); pv.assign(log->y(ev), log->y(ev) + n); seg_begin = pos; }
            else { pv.resize(n); for(size_t i=0;i<n;i++) pv[i] = my_pdf(c, &S[i * d]); }
            pv_ready = true;
        }
        else if (e == 6){ pv.resize(n); for(size_t i=0;i<n;i++) pv[i] = my_pdf(c, &S[i * d]); pv_ready = true; }
        if (replay && seg_begin != seg_end) return fail("C15:edit-makes-callbacks", "the edit made " + std::to_string(seg_end - seg_begin) + " unexpected callbacks");
        return true;
    }
    bool fail(const std::string &sig, const std::string &detail){ if (fail_sig.empty()){ fail_sig = sig; fail_detail = detail; } return false; }
    const Ev* peek(){ return (replay && pos < end) ? &log->ev[pos] : nullptr; }
    bool expect(char t, const char *what){ const Ev *e = peek(); if (!e) return fail(std::string("C15:lockstep:missing-") + what, std::string("the library stopped calling back where the model expects ") + what); if (e->t != t) return fail(std::string("C15:lockstep:expected-") + what, std::string("model expects ") + what + " but the library made a callback of kind " + e->t); return true; }
    bool R(char role, double &v){ roles += role; if (!replay){ v = sc.next(); return true; } if (!expect('R', "draw")) return false; v = log->x(log->ev[pos++])[0]; return true; }
    size_t chain_index(double r) const{ size_t k = (size_t)(r * (double) c.n); if (k >= (size_t) c.n) k = (size_t) c.n - 1; return k; }
    bool iteration(bool collected){
        size_t n = (size_t) c.n, d = (size_t) c.d; its.emplace_back(); IterRec &rec = its.back(); std::copy(S.begin(), S.end(), rec.before); rec.collected = collected;
        for(size_t i=0;i<n;i++){
            double r1, r2; if (!R('j', r1) || !R('k', r2)) return false;
            size_t j = chain_index(r1), k = chain_index(r2); double w = c.w();
            double base[MAXD], prop[MAXD]; for(size_t q=0;q<d;q++) base[q] = S[i * d + q];
            if (w != 0.0) for(size_t q=0;q<d;q++) base[q] += w * (S[k * d + q] - S[j * d + q]);
            for(size_t q=0;q<d;q++) prop[q] = base[q];
            if (c.upd == 1){ for(size_t q=0;q<d;q++){ double u; if (!R('u', u)) return false; prop[q] += MAG_UNIFORM * (2.0 * u - 1.0); } }
            else if (c.upd == 2){ double g = 0; for(size_t q=0;q<d;q++){ if (q % 2 == 0){ double u1, u2; if (!R('u', u1) || !R('u', u2)) return false; double rad = MAG_GAUSS * std::sqrt(-2.0 * std::log(u1)), t = 2.0 * M_PI * u2; prop[q] += rad * std::cos(t); g = rad * std::sin(t); } else prop[q] += g; } }
            else if (c.upd == 3){
                double u; if (!R('u', u)) return false;
                if (replay){ if (!expect('U', "user-update")) return false; const Ev &e = log->ev[pos++]; if (e.nx != d || !close_n(log->x(e), base, d)) return fail("C15:proposal-formula:before-update", "chain " + std::to_string(i) + ": the user update received " + vstr(log->x(e), e.nx) + " but s_i + w (s_k - s_j) = " + vstr(base, d) + " (j=" + std::to_string(j) + ", k=" + std::to_string(k) + ")"); for(size_t q=0;q<d;q++) prop[q] = log->y(e)[q]; }
                else my_user_update(c, prop, u);
            }
            bool in;
            if (replay){ if (!expect('I', "domain-test")) return false; const Ev &e = log->ev[pos++];
                if (e.nx != d || !close_n(log->x(e), prop, d)) return fail(std::string("C15:proposal-formula:") + Cfg::updname(c.upd), "chain " + std::to_string(i) + ": the domain test received " + vstr(log->x(e), e.nx) + " but the model proposal s_i + w (s_k - s_j) + update is " + vstr(prop, d) + " (j=" + std::to_string(j) + ", k=" + std::to_string(k) + ", w=" + std::to_string(w) + ")");
                for(size_t q=0;q<d;q++) prop[q] = log->x(e)[q]; in = e.ans;
            }else in = my_domain(c, prop);
            for(size_t q=0;q<d;q++) rec.props[i * d + q] = prop[q]; rec.in[i] = in; rec.acc[i] = 0; if (!in) outside++;
        }
        double cands[MAXN * MAXD], vals[MAXN]; size_t nc = 0; for(size_t i=0;i<n;i++) if (rec.in[i]){ for(size_t q=0;q<d;q++) cands[nc * d + q] = rec.props[i * d + q]; nc++; }
        if (nc > 0){
            if (replay){ if (!expect('P', "probability-call")) return false; const Ev &e = log->ev[pos++];
                if (e.nx != nc * d || !same_bits_n(log->x(e), cands, nc * d)) return fail("C15:pdf-candidates-mismatch", "the probability function received " + vstr(log->x(e), e.nx) + " but the in-domain proposals are " + vstr(cands, nc * d));
                if (e.ny != nc) return fail("C15:pdf-values-size", "values vector of size " + std::to_string(e.ny) + " for " + std::to_string(nc) + " candidates"); for(size_t m=0;m<nc;m++) vals[m] = log->y(e)[m];
            }else{ for(size_t m=0;m<nc;m++) vals[m] = my_pdf(c, &cands[m * d]); }
        }else if (replay){ const Ev *e = peek(); if (e && e->t == 'P') return fail("C15:pdf-called-with-no-candidate", "all proposals left the domain but the probability function was called"); }
        double nS[MAXN * MAXD], npv[MAXN]; std::copy(S.begin(), S.end(), nS); std::copy(pv.begin(), pv.end(), npv); size_t m = 0; long acc_now = 0;
        for(size_t i=0;i<n;i++){
            if (!rec.in[i]) continue;
            double pn = vals[m++], po = pv[i]; bool acc;
            if (pn > po) acc = true;
            else{ double u; if (!R('a', u)) return false; acc = c.form ? (pn - po >= std::log(u)) : (pn / po >= u); }
            if (acc){ for(size_t q=0;q<d;q++) nS[i * d + q] = rec.props[i * d + q]; npv[i] = pn; acc_now++; rec.acc[i] = 1; }
        }
        std::copy(nS, nS + n * d, S.begin()); std::copy(npv, npv + n, pv.begin()); moves += acc_now; iters++;
        if (collected){ hist.insert(hist.end(), S.begin(), S.end()); hpdf.insert(hpdf.end(), pv.begin(), pv.end()); accepted += acc_now; }
        rec.draws = roles.size();
        return true;
    }
    std::function<bool(size_t)> after_iteration; // called with the index of the iteration record; returning false stops the run (the caller reported)
    bool run(int burn, int collect){
        size_t n = (size_t) c.n, d = (size_t) c.d;
        if (!pv_ready){
            if (replay){ const Ev *pe = peek(); if (!pe || pe->t != 'P') return fail("C15:pdf-values-not-recomputed", std::string("the pdf values are not ready (fresh or re-initialised state, or cleared values): the run has to start with the probability function on the current state, but the library continues with ") + (pe ? std::string(1, pe->t) : std::string("no callback at all"))); const Ev &e = log->ev[pos++]; if (e.nx != n * d || e.ny != n || !same_bits_n(log->x(e), S.data(), n * d)) return fail("C15:initial-pdf-candidates", "initial probability call on " + vstr(log->x(e), e.nx) + " instead of the state " + vstr(S)); pv.assign(log->y(e), log->y(e) + n); }
            else{ pv.resize(n); for(size_t i=0;i<n;i++) pv[i] = my_pdf(c, &S[i * d]); }
            pv_ready = true;
        }
        int total = std::max(burn, 0) + std::max(collect, 0);
        for(int t=0;t<total;t++){ if (!iteration(t >= burn)) return false; if (after_iteration && !after_iteration(its.size() - 1)) return false; }
        if (replay && pos != end) return fail("C15:lockstep:extra-callbacks", "the library made " + std::to_string(end - pos) + " callbacks more than one run of the model (next kind " + log->ev[pos].t + ")");
        return true;
    }
};

// ---------------------------------------------------------------- cases
struct Case { char kind; Runs runs; Str s; int edit; int second; }; // kind E: runs[0]; edit; runs[1].  second: the object starts from the second initial state
static std::string runs_json(const Runs &r){ std::string o = "["; for(size_t i=0;i<r.size();i++){ if (i) o += ","; o += std::to_string(r[i].first) + "," + std::to_string(r[i].second); } return o + "]"; }
static std::string case_json(const Cfg &c, const Case &k){ return vf::J().s("cfg", c.str()).s("kind", std::string(1, k.kind)).raw("runs", runs_json(k.runs)).i("edit", k.edit).s("edit_name", EDITNAME[k.edit]).i("second_start", k.second).raw("rng", str_json(k.s)).s("alphabet", "rng[i] indexes {0,0.25,0.5,0.75,1}; draws past the string answer 0.5; runs = (burn,collect) pairs").str(); }

static std::vector<Case> make_cases(const Cfg &c, long &LA_out){
    std::vector<Case> out; bool th = (g_tier == "thorough"); int len1 = c.len1();
    // A: one iteration, exhaustive answer strings
    int LA = std::min(len1, th ? (c.n <= 2 ? 7 : 6) : 5); LA_out = LA;
    for(size_t i=0;i<ipow(5, LA);i++) out.push_back({'A', {{0, 1}}, window_string(i, 0, LA), 0});
    if (len1 > LA){ int off = len1 - LA; for(size_t i=1;i<ipow(5, LA);i++) out.push_back({'A', {{0, 1}}, window_string(i, off, LA), 0}); } // window at the end of the iteration (acceptance draws)
    // B: several iterations, <= k deviations from the default answer
    { int T = th ? 3 : 2; std::vector<Str> ds;
      if (th) deviation_strings(T * len1, 2, ds, 1); else { deviation_strings(T * len1, 1, ds, 1); deviation_strings(len1, 2, ds, 2); } // quick: one deviation anywhere, two within the first iteration
      for(auto &s : ds) out.push_back({'B', {{0, T}}, s, 0}); }
    // C: splittings: run(b1,c1) then run(b2,c2) against the single run of the combined length
    { std::vector<Str> ds; deviation_strings(th ? len1 : std::min(len1, 4), 1, ds, 0); int top = 2;
      for(auto &s : ds) for(int b1=0;b1<=top;b1++) for(int c1=0;c1<=top;c1++) for(int b2=0;b2<=top;b2++) for(int c2=0;c2<=top;c2++){
          if (!th && (b1 + c1 + b2 + c2 > 4)) continue;
          out.push_back({'C', {{b1, c1}, {b2, c2}}, s, 0}); } }
    // E: run(b1,c1); state edit; run(b2,c2) for every splitting and every edit. The first run gets default answers (its consumption is computed by the model),
    //    the deviations are placed in the second run: quick = default + each symbol at the first acceptance draw, thorough = default + every single deviation in the first iteration
    { int top = 2; std::vector<size_t> cons(5, 0); for(int T1=0;T1<=4;T1++){ Ref r(c, false); r.sc.reset(Str()); r.run(0, T1); cons[(size_t) T1] = r.roles.size(); }
      std::vector<Str> ds; if (th) deviation_strings(len1, 1, ds, 0); else { ds.push_back(Str()); int pa = c.n * (2 + c.upd_draws()); for(int a=0;a<NSYM;a++){ if (a == DEF) continue; Str t((size_t)(pa + 1), (unsigned char) DEF); t[(size_t) pa] = (unsigned char) a; ds.push_back(t); } }
      for(int e=1;e<NEDIT;e++) for(int b1=0;b1<=top;b1++) for(int c1=0;c1<=top;c1++) for(int b2=0;b2<=top;b2++) for(int c2=0;c2<=top;c2++){
          if (!th && (b1 + c1 + b2 + c2 > 4)) continue;
          for(auto &t : ds){ if (b2 + c2 == 0 && &t != &ds[0]) continue; Str full(cons[(size_t)(b1 + c1)], (unsigned char) DEF); full.insert(full.end(), t.begin(), t.end()); out.push_back({'E', {{b1, c1}, {b2, c2}}, full, e}); } } }
    return out;
}

// ---------------------------------------------------------------- oracle of one case (runs in the child)
#define CJ case_json(c, k)
// returns false after the first violation of an execution (one defect, one record per case; later symptoms would only be consequences)
static bool check_exec(const Cfg &c, const Case &k, const Exec &ex, Delta &d, Ref &ref){
    size_t n = (size_t) c.n, dm = (size_t) c.d; const char *fm = c.form ? "logform" : "regform";
    if (!ex.thrown.empty()){ d.viol("C15:exception", CJ, "SampleDREAM threw: " + ex.thrown); return false; }
    d.transitions += (long) ex.log.ev.size();
    // direct oracle on the environment log: the probability function only ever sees in-domain points
    // (except when it is asked for the values of the current state: first callback of a run, or setPDFvalues inside an edit)
    for(size_t q=0;q<ex.log.ev.size();q++){ const Ev &e = ex.log.ev[q]; if (e.t != 'P') continue; bool state_eval = false; for(size_t r=0;r<ex.run_begin.size();r++) if (q == ex.run_begin[r]) state_eval = true; if (ex.run_end.size() >= 1 && ex.run_begin.size() >= 2 && q >= ex.run_end[0] && q < ex.run_begin[1]) state_eval = true; if (state_eval) continue; const double *x = ex.log.x(e); for(size_t m=0;m<e.nx/dm;m++){ d.evals++; if (!my_domain(c, x + m*dm)){ d.viol("C15:pdf-evaluated-outside-domain", CJ, "probability function called on " + vstr(x + m*dm, dm)); return false; } } }
    size_t prev_hist = 0; uint64_t ch = c.hash(); std::string ctx; // ctx: suffix of the signatures of everything observed after a state edit
    auto V = [&](const std::string &sig, const std::string &detail){ d.viol(sig + ctx, CJ, detail); };
    if (ex.obs.size() != k.runs.size() || ex.run_end.size() != k.runs.size()){ d.viol("C15:harness:missing-observation", CJ, "internal: observations missing"); return false; }
    for(size_t r=0;r<k.runs.size();r++){
        if (r == 1 && k.edit > 0){
            ctx = std::string(":after-") + EDITNAME[k.edit]; ch = hcomb(ch, (uint64_t) k.edit); ref.log = &ex.log; d.evals += 2;
            if (!ref.apply_edit(k.edit, ex.run_end[0], ex.run_begin[1])){ V(ref.fail_sig, ref.fail_detail); return false; }
            if (!ex.eo.done || !same_bits(ex.eo.state, ref.S)){ V("C15:edit-state", "after the edit the chains are at " + vstr(ex.eo.state) + ", expected " + vstr(ref.S)); return false; }
            if (ex.eo.nhist != ref.hpdf.size() || ex.eo.hist_size != ref.hist.size()){ V("C15:edit-history", "after the edit the history holds " + std::to_string(ex.eo.nhist) + " samples, expected " + std::to_string(ref.hpdf.size())); return false; }
            prev_hist = ref.hpdf.size();
        }
        const RunObs &o = ex.obs[r]; int burn = k.runs[r].first, coll = k.runs[r].second;
        // books: exactly collect x chains new samples
        d.evals++;
        if (o.hpdf.size() != prev_hist + (size_t) std::max(coll, 0) * n || o.hist.size() != (prev_hist + (size_t) std::max(coll, 0) * n) * dm || o.nhist != o.hpdf.size()){
            V("C15:history-growth", "run " + std::to_string(r) + " (burn " + std::to_string(burn) + ", collect " + std::to_string(coll) + "): history went from " + std::to_string(prev_hist) + " to " + std::to_string(o.hpdf.size()) + " samples (" + std::to_string(o.hist.size()) + " coordinates), chains " + std::to_string(n)); return false; }
        // lock-step replay of this run; after every collected iteration the recorded row is compared at once
        ref.log = &ex.log; ref.pos = ex.run_begin[r]; ref.end = ex.run_end[r]; size_t its0 = ref.its.size(); size_t hrow0 = ref.hist.size() / dm / n; bool reported = false;
        ref.after_iteration = [&](size_t t)->bool{
            const Ref::IterRec &it = ref.its[t]; if (!it.collected) return true; size_t hrow = ref.hist.size() / dm / n - 1;
            for(size_t i=0;i<n;i++){
                d.evals++;
                size_t off = (hrow * n + i) * dm; if (off + dm > o.hist.size()) return true;
                const double *got = &o.hist[off], *want = &ref.hist[off];
                if (!same_bits_n(got, want, dm)){
                    const double *old = it.before + i*dm, *prop = it.props + i*dm;
                    std::string cls = (same_bits_n(got, prop, dm) && !it.acc[i]) ? "moved-against-rule" : (same_bits_n(got, old, dm) && it.acc[i]) ? "kept-against-rule" : "wrong-state";
                    V("C15:metropolis:" + cls + ":" + fm, "run " + std::to_string(r) + " iteration " + std::to_string(t - its0) + " chain " + std::to_string(i) + ": recorded " + vstr(got, dm) + ", the rule on the logged values gives " + vstr(want, dm) + " (old " + vstr(old, dm) + ", proposal " + vstr(prop, dm) + ", inside=" + std::to_string((int) it.in[i]) + ")");
                    reported = true; return false;
                }
                if (!same_bits(o.hpdf[hrow * n + i], ref.hpdf[hrow * n + i])){ V("C15:recorded-pdf-mismatch", "run " + std::to_string(r) + " iteration " + std::to_string(t - its0) + " chain " + std::to_string(i) + ": recorded probability " + vf::jnum(o.hpdf[hrow*n+i]) + ", model " + vf::jnum(ref.hpdf[hrow*n+i])); reported = true; return false; }
            }
            return true; };
        bool ok = ref.run(burn, coll); ref.after_iteration = nullptr; (void) hrow0;
        if (!ok){ if (!reported) V(ref.fail_sig, "run " + std::to_string(r) + ": " + ref.fail_detail); return false; }
        d.evals += 3;
        if (!same_bits(o.state, ref.S)){
            // name the direction for single-iteration runs (the history is empty when nothing is collected)
            std::string cls = "wrong-state";
            if (ref.its.size() == its0 + 1){ const Ref::IterRec &it = ref.its.back(); for(size_t i=0;i<n;i++){ const double *got = &o.state[i*dm]; if (same_bits_n(got, &ref.S[i*dm], dm)) continue; cls = (same_bits_n(got, it.props + i*dm, dm) && !it.acc[i]) ? "moved-against-rule" : (same_bits_n(got, it.before + i*dm, dm) && it.acc[i]) ? "kept-against-rule" : "wrong-state"; break; } }
            V("C15:final-state:" + cls + ":" + fm, "after run " + std::to_string(r) + " the chains are at " + vstr(o.state) + ", the model stepping on the logged values is at " + vstr(ref.S)); return false;
        }
        if (!same_bits(o.pv, ref.pv)){ V("C15:cached-pdf-mismatch", "after run " + std::to_string(r) + " cached probabilities " + vstr(o.pv) + ", model " + vstr(ref.pv)); return false; }
        double want_rate = o.hpdf.empty() ? 0.0 : (double) ref.accepted / (double) o.hpdf.size();
        if (!same_bits(o.rate, want_rate)){ V("C15:acceptance-counter", "acceptance rate " + vf::jnum(o.rate) + " but " + std::to_string(ref.accepted) + " proposals were accepted in " + std::to_string(o.hpdf.size()) + " recorded samples"); return false; }
        // recorded samples (independent of the model): inside the domain (given an initial state inside), recorded value = pdf(sample)
        for(size_t m=prev_hist; m<o.hpdf.size() && (m+1)*dm <= o.hist.size(); m++){
            d.evals += 2;
            if (c.dom != 2 && !my_domain(c, &o.hist[m*dm])){ V("C15:recorded-sample-outside-domain", "recorded sample " + std::to_string(m) + " = " + vstr(&o.hist[m*dm], dm) + " fails the domain test"); return false; }
            double pv = my_pdf(c, &o.hist[m*dm]); if (!same_bits(pv, o.hpdf[m])){ V("C15:recorded-pdf-not-pdf-of-sample", "recorded sample " + std::to_string(m) + ": recorded probability " + vf::jnum(o.hpdf[m]) + " but pdf(sample) = " + vf::jnum(pv)); return false; }
        }
        prev_hist = o.hpdf.size();
        // states: (configuration, consumed answer prefix) at every point where the library state was observed
        for(size_t t=its0; t<ref.its.size(); t++){ if (ref.its[t].collected || t + 1 == ref.its.size()) d.state(hcomb(ch, hbytes(ex.used.data(), std::min(ref.its[t].draws, ex.used.size()), t))); }
        if (ref.its.size() == its0) d.state(hcomb(ch, hbytes(ex.used.data(), 0, 1000 + ref.its.size())));
    }
    return true;
}

static void outcome_of(const Cfg &c, const Exec &ex, const Ref &ref, Delta &d){
    if (ex.obs.empty()) return; const RunObs &fin = ex.obs.back();
    d.dist(hcomb(c.hash(), hcomb(hvec(fin.state), hcomb(hvec(fin.hist), hvec(fin.hpdf, (uint64_t) ref.moves)))));
    char b[64]; snprintf(b, sizeof(b), "moves=%ld/%ld outside=%ld", ref.moves, ref.iters * c.n, ref.outside); d.outcome(b);
}
static void exec_edit_case(const Cfg &c, const Case &k, Delta &d);
static void exec_case(const Cfg &c, const Case &k, Delta &d){
    if (k.kind == 'E'){ exec_edit_case(c, k, d); return; }
    if (k.kind != 'C'){ Exec ex; run_library(c, k.runs, k.s, ex, 0, k.second != 0); d.execs++; Ref ref(c, true, k.second != 0); check_exec(c, k, ex, d, ref); outcome_of(c, ex, ref, d);
        if (ex.thrown.empty()){ Exec ec; run_library_c(c, k.runs, k.s, ec, k.second != 0); d.execs++; d.evals++;
            if (!same_exec(ex, ec)) d.viol(std::string("C15:c-interface-differs:") + (c.form ? "logform" : "regform") + ":update" + std::to_string(c.upd), case_json(c, k), "tsgDreamSample() and SampleDREAM() differ on the same environment: C++ " + std::to_string(ex.log.ev.size()) + " callbacks, final state " + (ex.obs.empty() ? std::string("-") : vstr(ex.obs.back().state)) + "; C " + (ec.thrown.empty() ? "" : ec.thrown + ", ") + std::to_string(ec.log.ev.size()) + " callbacks, final state " + (ec.obs.empty() ? std::string("-") : vstr(ec.obs.back().state))); }
        return; }
    // splitting: first the single run of the combined length (everything collected, so every iteration is visible), then the two runs
    int b1 = k.runs[0].first, c1 = k.runs[0].second, b2 = k.runs[1].first, c2 = k.runs[1].second, T = b1 + c1 + b2 + c2;
    Case joint{'J', {{0, T}}, k.s}; Exec ej; run_library(c, joint.runs, joint.s, ej); d.execs++;
    Ref rj(c, true); bool okj = check_exec(c, joint, ej, d, rj); outcome_of(c, ej, rj, d);
    if (!okj || ej.obs.size() != 1) return;
    Exec ex; run_library(c, k.runs, k.s, ex); d.execs++;
    Ref ref(c, true); bool oks = check_exec(c, k, ex, d, ref); outcome_of(c, ex, ref, d);
    if (!oks || ex.obs.size() != 2) return;
    const RunObs &fin = ex.obs.back(), &jo = ej.obs[0]; size_t n = (size_t) c.n, dm = (size_t) c.d;
    d.evals += 3;
    if (!same_bits(jo.state, fin.state) || !same_bits(jo.pv, fin.pv)){ d.viol("C15:split-run-differs:state", CJ, "run(" + std::to_string(b1) + "," + std::to_string(c1) + ") then run(" + std::to_string(b2) + "," + std::to_string(c2) + ") ends at " + vstr(fin.state) + ", one run of " + std::to_string(T) + " iterations at " + vstr(jo.state)); return; }
    // the history of the split run = iterations [b1, b1+c1) and [b1+c1+b2, T) of the joint history
    std::vector<double> sel, selp; for(int t=0;t<T;t++){ bool keep = (t >= b1 && t < b1 + c1) || (t >= b1 + c1 + b2); if (!keep) continue; if (((size_t) t + 1) * n * dm > jo.hist.size()) break; sel.insert(sel.end(), jo.hist.begin() + (size_t) t*n*dm, jo.hist.begin() + ((size_t) t+1)*n*dm); selp.insert(selp.end(), jo.hpdf.begin() + (size_t) t*n, jo.hpdf.begin() + ((size_t) t+1)*n); }
    if (!same_bits(sel, fin.hist) || !same_bits(selp, fin.hpdf)){ d.viol("C15:split-run-differs:history", CJ, "history of the two runs " + vstr(fin.hist) + " differs from the corresponding iterations of the single run " + vstr(sel)); return; }
    if (ex.used != ej.used) d.viol("C15:split-run-differs:random-stream", CJ, "the two runs consumed " + std::to_string(ex.used.size()) + " draws, the single run " + std::to_string(ej.used.size()));
}

// run(b1,c1); edit; run(b2,c2): model-free differential oracles first, then the lock-step replay with the documented effect of the edit
static void exec_edit_case(const Cfg &c, const Case &k, Delta &d){
    size_t n = (size_t) c.n, dm = (size_t) c.d; std::string ctx = std::string(":after-") + EDITNAME[k.edit];
    Exec ex; run_library(c, k.runs, k.s, ex, k.edit); d.execs++;
    if (ex.thrown.empty() && ex.obs.size() == 2 && ex.draws_begin.size() == 2 && ex.eo.done){
        const RunObs &fin = ex.obs[1]; size_t p1 = std::min(ex.draws_begin[1], ex.used.size());
        if (k.edit == 1 || k.edit == 2){
            // a FRESH object initialised with the second state and fed the answers the second run consumed
            Case kf{'F', {k.runs[1]}, Str(ex.used.begin() + p1, ex.used.end()), 0, 1}; Exec ef; run_library(c, kf.runs, kf.s, ef, 0, true); d.execs++;
            Ref rf(c, true, true); if (!check_exec(c, kf, ef, d, rf) || ef.obs.size() != 1) return;
            const RunObs &fo = ef.obs[0]; d.evals += 4;
            std::vector<double> newh, newp; if (ex.eo.hist_size <= fin.hist.size() && ex.eo.nhist <= fin.hpdf.size()){ newh.assign(fin.hist.begin() + ex.eo.hist_size, fin.hist.end()); newp.assign(fin.hpdf.begin() + ex.eo.nhist, fin.hpdf.end()); }
            const char *what = !same_bits(fo.state, fin.state) ? "chains" : !same_bits(fo.pv, fin.pv) ? "cached pdf values" : !same_bits(fo.hist, newh) ? "appended samples" : !same_bits(fo.hpdf, newp) ? "appended pdf values" : (ef.used.size() != ex.used.size() - p1) ? "number of draws" : nullptr;
            if (what){ d.viol("C15:rerun-differs-from-fresh-state" + ctx, CJ, std::string("run(") + std::to_string(k.runs[1].first) + "," + std::to_string(k.runs[1].second) + ") after " + EDITNAME[k.edit] + " on a used state differs from the same run on a fresh state with the same points and answers in the " + what
                + ": chains " + vstr(fin.state) + " vs " + vstr(fo.state) + ", cached pdf " + vstr(fin.pv) + " vs " + vstr(fo.pv) + ", appended pdf " + vstr(newp) + " vs " + vstr(fo.hpdf)); return; }
        }else{
            // the same two runs without the edit: none of these edits may change what the second run does (clearHistory only drops the earlier records)
            Case kn{'C', k.runs, k.s, 0, 0}; Exec en; run_library(c, kn.runs, kn.s, en, 0); d.execs++;
            Ref rn(c, true); if (!check_exec(c, kn, en, d, rn) || en.obs.size() != 2) return;
            const RunObs &no = en.obs[1]; d.evals += 4;
            std::vector<double> wh = no.hist, wp = no.hpdf; if (k.edit == 4){ size_t h0 = en.obs[0].hist.size(), p0 = en.obs[0].hpdf.size(); wh.assign(no.hist.begin() + h0, no.hist.end()); wp.assign(no.hpdf.begin() + p0, no.hpdf.end()); }
            const char *what = !same_bits(no.state, fin.state) ? "chains" : !same_bits(no.pv, fin.pv) ? "cached pdf values" : !same_bits(wh, fin.hist) ? "history" : !same_bits(wp, fin.hpdf) ? "pdf history" : (en.used != ex.used) ? "random stream" : nullptr;
            if (what){ d.viol("C15:edit-changes-run" + ctx, CJ, std::string("the runs with ") + EDITNAME[k.edit] + " in between differ from the same runs without it in the " + what + ": chains " + vstr(fin.state) + " vs " + vstr(no.state) + ", cached pdf " + vstr(fin.pv) + " vs " + vstr(no.pv) + ", pdf history " + vstr(fin.hpdf) + " vs " + vstr(wp)); return; }
        }
    }
    Ref ref(c, true); check_exec(c, k, ex, d, ref); outcome_of(c, ex, ref, d);
    (void) n; (void) dm;
}

// roles of the draws of an answer string according to the model alone (no library involved)
static std::string model_roles(const Cfg &c, const Case &k, int which_exec){
    Ref r(c, false, k.second != 0); r.sc.reset(k.s);
    if (which_exec == 0){ for(size_t q=0;q<k.runs.size();q++){ if (q == 1 && k.edit > 0) r.apply_edit(k.edit, 0, 0); r.run(k.runs[q].first, k.runs[q].second); } }
    else { int T = 0; for(auto &rr : k.runs) T += rr.first + rr.second; r.run(0, T); }
    return r.roles;
}

static std::string crash_signature(const vf::Outcome &o, long last_sym){ std::string cls, fn; crash_class(o, cls, fn); return "C15:" + cls + ":" + fn + ":rng=" + (last_sym >= 0 ? symname((int) last_sym) : std::string("none")); }

// ---------------------------------------------------------------- main
struct UnitDef { int n, d, form, upd, diff; };
int main(int argc, char **argv){
    reexec_with_small_quarantine(argv); init_posterior();
    vf::Args A(argc, argv); g_tier = A.get("--tier", "quick");
    double dl = A.getd("--deadline", 0); if (dl > 0) vf::g_deadline = vf::now() + dl;
    if (A.has("--replay")){
        std::string v = vf::slurp(A.get("--replay")); std::string cs = vf::jget(v, "case"); Cfg c = Cfg::parse(vf::jget(cs, "cfg"));
        Case k; k.kind = vf::jget(cs, "kind").empty() ? 'A' : vf::jget(cs, "kind")[0]; auto rv = vf::jints(vf::jget(cs, "runs")); for(size_t i=0;i+1<rv.size();i+=2) k.runs.push_back({(int) rv[i], (int) rv[i+1]}); k.s = str_parse(vf::jget(cs, "rng")); k.edit = atoi(vf::jget(cs, "edit").c_str()); k.second = atoi(vf::jget(cs, "second_start").c_str()); if (k.edit < 0 || k.edit >= NEDIT) k.edit = 0;
        shared_init();
        vf::Outcome o = vf::run_child([&](int fd){ Delta d; exec_case(c, k, d); for(auto &vv : d.viols) if (!vv.case_json.empty()) vf::wr(fd, vf::J().s("t","viol").s("sig", vv.sig).s("unit","replay").raw("case", vv.case_json).s("detail", vv.detail).str() + "\n"); }, 120.0);
        if (!o.out.empty()) vf::emit(o.out.substr(0, o.out.size() - 1));
        if (o.kind != vf::Outcome::OK) vf::violation(crash_signature(o, g_sh->last_sym), "replay", case_json(c, k), o.describe() + " after " + std::to_string(g_sh->draws) + " draws: " + o.err.substr(0, 1200));
        vf::emit(vf::J().s("t","summary").s("replay", o.describe())); return 0;
    }
    if (A.has("--bench")){ // timing aid: cost of the library execution alone and with the oracle
        Cfg c; c.n = 3; c.d = 2; c.upd = 1; c.diff = 0; long LA; auto cases = make_cases(c, LA); size_t N = std::min<size_t>(cases.size(), 20000);
        double t0 = vf::now(); for(size_t i=0;i<N;i++){ Exec ex; run_library(c, cases[i].runs, cases[i].s, ex); } double t1 = vf::now();
        Delta d; for(size_t i=0;i<N;i++) exec_case(c, cases[i], d); double t2 = vf::now();
        fprintf(stderr, "N=%zu library %.1f us/case, library+oracle %.1f us/case (%zu violations)\n", N, 1e6*(t1-t0)/N, 1e6*(t2-t1)/N, d.viols.size()); return 0; }
    bool th = (g_tier == "thorough");
    std::vector<UnitDef> U;
    for(int n=1;n<=3;n++) for(int d=1;d<=2;d++) for(int form=0;form<2;form++) for(int upd=0;upd<4;upd++) for(int diff=0;diff<3;diff++) U.push_back({n, d, form, upd, diff});
    // expensive units first (better balance under dynamic distribution)
    std::stable_sort(U.begin(), U.end(), [](const UnitDef &a, const UnitDef &b){ Cfg x, y; x.n = a.n; x.d = a.d; x.upd = a.upd; y.n = b.n; y.d = b.d; y.upd = b.upd; return x.len1() > y.len1(); });
    size_t done = vf::parallel_units(U.size(), (int) A.geti("--workers", 8), [&](size_t ui){
        const UnitDef &u = U[ui]; Runner R; double t0 = vf::now();
        { std::ostringstream nm; nm << "n" << u.n << "/d" << u.d << "/" << (u.form ? "log" : "reg") << "/upd-" << Cfg::updname(u.upd) << "/diff" << u.diff; R.unit = nm.str(); }
        long ncfg = 0, ncases = 0, maxLA = 0, len1 = 0; std::string sample;
        for(int dom=0; dom<3 && R.complete; dom++) for(int pdf=0; pdf<4 && R.complete; pdf++){
            if (!th && u.n == 3 && (dom + pdf + u.form + u.upd) % 2 == 1) continue; // quick: half of the (domain, pdf) pairs for the most expensive shape
            if (pdf == 3 && (dom == 2 || (!th && dom != 0))) continue; // the posterior composition: not with the empty domain (never evaluated there); quick: only with the hypercube
            Cfg c; c.n = u.n; c.d = u.d; c.form = u.form; c.upd = u.upd; c.diff = u.diff; c.dom = dom; c.pdf = pdf; len1 = c.len1();
            long LA = 0; std::vector<Case> cases = make_cases(c, LA); maxLA = std::max(maxLA, LA);
            std::set<std::pair<char,int>> poison; // (role, symbol) pairs established as crashing for this configuration
            R.exec = [&](size_t idx, Delta &d){ exec_case(c, cases[idx], d); };
            R.skip = [&](size_t idx)->bool{ if (poison.empty()) return false; for(int w=0; w<(cases[idx].kind == 'C' ? 2 : 1); w++){ std::string roles = model_roles(c, cases[idx], w); const Str &s = cases[idx].s; for(size_t q=0;q<roles.size();q++){ int a = (q < s.size()) ? s[q] : DEF; if (poison.count({roles[q], a})) return true; } } return false; };
            R.on_crash = [&](size_t idx, const vf::Outcome &o, long draws, long last_sym){
                std::string sig = crash_signature(o, last_sym); char role = '?'; const Str &s = cases[idx].s;
                for(int w=0; w<(cases[idx].kind == 'C' ? 2 : 1) && role == '?'; w++){ std::string roles = model_roles(c, cases[idx], w); if (draws >= 1 && (size_t) draws <= roles.size()){ int a = ((size_t) draws - 1 < s.size()) ? s[(size_t) draws - 1] : DEF; if (a == (int) last_sym) role = roles[(size_t) draws - 1]; } }
                if (role != '?' && last_sym >= 0) poison.insert({role, (int) last_sym});
                R.record(sig, case_json(c, cases[idx]), o.describe() + " after " + std::to_string(draws) + " draws (last answer " + symname((int) last_sym) + ", role '" + std::string(1, role) + "' of j/k/u=update/a=acceptance): " + o.err.substr(0, 900));
                R.st.outcomes["crash " + sig]++;
            };
            R.run(cases.size()); ncfg++; ncases += (long) cases.size();
            if (sample.empty() && !cases.empty()) sample = case_json(c, cases[cases.size() / 2]);
        }
        R.emit_unit(vf::now() - t0, "\"configs\":" + std::to_string(ncfg) + ",\"cases\":" + std::to_string(ncases) + ",\"one_iteration_len\":" + std::to_string(len1) + ",\"exhaustive_len\":" + std::to_string(maxLA));
        if (!sample.empty()) vf::emit(vf::J().s("t","sample").raw("case", sample));
    });
    vf::emit(vf::J().s("t","summary").i("units_total", (long long) U.size()).i("units_done", (long long) done)
        .s("bound", std::string("C15 tier=") + g_tier + ": chains{1,2,3} x dims{1,2} x forms x updates{none,uniform,gaussian,user} x differential{0,1,0.5} x domains{hypercube,halfspace,nothing} x pdfs{constant,peaked,boxzero,posterior(model,LikelihoodGaussIsotropic,uniform_prior)" + (th ? " [posterior not with the empty domain]" : " [quick: posterior only with the hypercube; for 3 chains half of the (domain, pdf) pairs]") + "}"
           + "; answer strings over {0,.25,.5,.75,1}: one iteration exhaustive to length min(one iteration, " + (th ? "7 (6 for 3 chains)" : "5") + ") at the start and at the end of the iteration; "
           + (th ? "3 iterations with <= 2 deviations from 0.5" : "2 iterations with <= 1 deviation from 0.5 anywhere and <= 2 inside the first iteration") + "; run splittings (b1,c1,b2,c2) in {0,1,2}^4" + (th ? "" : " with total <= 4") + " x (default + every single deviation in the first " + (th ? "iteration" : "4 draws") + "); state edits: run(b1,c1); edit; run(b2,c2) for every such splitting x 7 edits {setState vector/callable to a second state, clearPDFvalues, clearHistory, setPDFvalues callable/vector, expandHistory} x "
           + (th ? "(default answers + every single deviation in the first iteration of the second run)" : "(default answers + every symbol at the first acceptance draw of the second run)") + ", each compared with a fresh object (setState) or with the same runs without the edit")
        .b("exhaustive", done == U.size() && !vf::past_deadline()));
    return 0;
}
