// env_gd - engine E-E for C19 (GradientDescent): objective, gradient and projection are logging callbacks; the iteration cap is an
// environment answer that is enumerated exhaustively (every cap 0..N for every set-up); a reference model of the documented descent
// test (written here, no code shared with the library) is replayed on the logged callback values and tracks the last accepted point.
#include "TasmanianOptimization.hpp"
#include "envenum.hpp"
using namespace ee;

static std::string g_tier = "quick";
static const double DESCENT_TOL = 1e-12; // tolerance of the descent test (TasGrid::Maths::num_tol)

// ---------------------------------------------------------------- problem set-ups
struct Setup {
    int obj = 0, proj = 0, start = 0, variant = 0; // variant 0 adaptive, 1 constant step
    double inc = 1.25, dec = 1.25, tol = 1e-6, s0 = 1.0; // for the constant variant s0 is the step
    int N = 40;
    std::string str() const{ std::ostringstream o; o.precision(17); o << "obj=" << obj << ";proj=" << proj << ";start=" << start << ";variant=" << variant << ";inc=" << inc << ";dec=" << dec << ";tol=" << tol << ";s0=" << s0 << ";N=" << N; return o.str(); }
    static Setup parse(const std::string &s){ Setup c; auto get = [&](const char *k)->std::string{ size_t p = s.find(std::string(k) + "="); if (p == std::string::npos) return "0"; p += strlen(k) + 1; size_t e = s.find(';', p); return s.substr(p, e == std::string::npos ? std::string::npos : e - p); };
        c.obj = atoi(get("obj").c_str()); c.proj = atoi(get("proj").c_str()); c.start = atoi(get("start").c_str()); c.variant = atoi(get("variant").c_str()); c.inc = atof(get("inc").c_str()); c.dec = atof(get("dec").c_str()); c.tol = atof(get("tol").c_str()); c.s0 = atof(get("s0").c_str()); c.N = atoi(get("N").c_str()); return c; }
    int dims() const{ return (obj <= 2 || obj == 7) ? 1 : 2; }
};
static const char *OBJNAME[9] = {"quad1d-cond1", "quad1d-cond50", "quad1d-cond1e4", "quad2d-cond1", "quad2d-cond50", "quad2d-cond1e4", "rosenbrock", "doublewell1d", "doublewell2d"};
static const char *PROJNAME[4] = {"none", "identity", "box", "halfspace"};
static double lipschitz(int obj){ switch(obj){ case 0: return 1; case 1: return 50; case 2: return 1e4; case 3: return 1; case 4: return 50; case 5: return 1e4; case 6: return 1000; case 7: return 12; default: return 12; } }
static double objective(int obj, const double *x){
    switch(obj){
        case 0: case 1: case 2: { double a = lipschitz(obj); return 0.5 * a * (x[0] - 1.0) * (x[0] - 1.0); }
        case 3: case 4: case 5: { double k = lipschitz(obj), r = std::sqrt(0.5), u = r * (x[0] + x[1]) - 0.7, v = r * (x[0] - x[1]) + 0.2; return 0.5 * u * u + 0.5 * k * v * v; }
        case 6: { double a = 1.0 - x[0], b = x[1] - x[0] * x[0]; return a * a + 100.0 * b * b; }
        case 7: { double q = x[0] * x[0] - 1.0; return q * q + 0.3 * x[0]; }
        default: { double q = x[0] * x[0] - 1.0, t = x[1] - 0.2; return q * q + 0.3 * x[0] + 2.0 * t * t; }
    }
}
static void gradient(int obj, const double *x, double *g){
    switch(obj){
        case 0: case 1: case 2: g[0] = lipschitz(obj) * (x[0] - 1.0); break;
        case 3: case 4: case 5: { double k = lipschitz(obj), r = std::sqrt(0.5), u = r * (x[0] + x[1]) - 0.7, v = r * (x[0] - x[1]) + 0.2; g[0] = r * u + k * r * v; g[1] = r * u - k * r * v; break; }
        case 6: { double b = x[1] - x[0] * x[0]; g[0] = -2.0 * (1.0 - x[0]) - 400.0 * x[0] * b; g[1] = 200.0 * b; break; }
        case 7: g[0] = 4.0 * x[0] * (x[0] * x[0] - 1.0) + 0.3; break;
        default: g[0] = 4.0 * x[0] * (x[0] * x[0] - 1.0) + 0.3; g[1] = 4.0 * (x[1] - 0.2); break;
    }
}
static void projection(int proj, int d, const double *z, double *y){
    if (proj <= 1){ for(int j=0;j<d;j++) y[j] = z[j]; return; }
    if (proj == 2){ for(int j=0;j<d;j++) y[j] = std::min(0.8, std::max(-0.5, z[j])); return; }
    const double a[2] = {1.0, 2.0}; double b = (d == 1) ? 0.6 : 0.5, az = 0, aa = 0; for(int j=0;j<d;j++){ az += a[j] * z[j]; aa += a[j] * a[j]; }
    double t = (az > b) ? (az - b) / aa : 0.0; for(int j=0;j<d;j++) y[j] = z[j] - t * a[j];
}
static std::vector<double> start_point(const Setup &s){
    const double s1[4] = {-0.4, 0.3, 0.6, 1.7}; const double s2[4][2] = {{-0.4, -0.3}, {0.3, 0.1}, {0.7, -0.45}, {1.5, 1.2}};
    if (s.dims() == 1) return {s1[s.start]}; return {s2[s.start][0], s2[s.start][1]};
}
static bool start_feasible(const Setup &s){ if (s.proj <= 1 || s.variant == 1) return true; auto x = start_point(s); double y[2]; projection(s.proj, s.dims(), x.data(), y); return same_bits_n(x.data(), y, x.size()); }

// ---------------------------------------------------------------- log
struct Ev { char t; uint32_t off, nx, ny; }; // F: x, y={f}; G: x, y=grad; P: x=z, y=projected
struct Log { std::vector<Ev> ev; std::vector<double> data;
    void add(char t, const double *x, size_t nx, const double *y, size_t ny){ ev.push_back({t, (uint32_t) data.size(), (uint32_t) nx, (uint32_t) ny}); data.insert(data.end(), x, x + nx); data.insert(data.end(), y, y + ny); }
    const double* x(const Ev &e) const{ return data.data() + e.off; } const double* y(const Ev &e) const{ return data.data() + e.off + e.nx; } };
struct Exec { Log log; std::vector<double> x; double stepsize = 0; int performed = 0; double residual = 0; std::string thrown; long nF = 0, nG = 0, nP = 0; };

static void run_library(const Setup &s, int cap, Exec &ex){
    using namespace TasOptimization;
    int d = s.dims(); Log &log = ex.log;
    ObjectiveFunctionSingle f = [&](const std::vector<double> &x)->double{ double v = objective(s.obj, x.data()); log.add('F', x.data(), x.size(), &v, 1); ex.nF++; return v; };
    GradientFunctionSingle g = [&](const std::vector<double> &x, std::vector<double> &gr)->void{ gradient(s.obj, x.data(), gr.data()); log.add('G', x.data(), x.size(), gr.data(), gr.size()); ex.nG++; };
    ProjectionFunctionSingle p = [&](const std::vector<double> &z, std::vector<double> &y)->void{ projection(s.proj, d, z.data(), y.data()); log.add('P', z.data(), z.size(), y.data(), y.size()); ex.nP++; };
    try{
        if (s.variant == 1){
            std::vector<double> x = start_point(s);
            OptimizationStatus st = GradientDescent(g, s.s0, cap, s.tol, x);
            ex.x = x; ex.performed = st.performed_iterations; ex.residual = st.residual;
        }else{
            GradientDescentState state(start_point(s), s.s0);
            OptimizationStatus st = (s.proj == 0) ? GradientDescent(f, g, s.inc, s.dec, cap, s.tol, state) : GradientDescent(f, g, p, s.inc, s.dec, cap, s.tol, state);
            ex.x = state.getX(); ex.stepsize = state.getAdaptiveStepsize(); ex.performed = st.performed_iterations; ex.residual = st.residual;
        }
    }catch(std::exception &e){ ex.thrown = e.what(); }
}

// ---------------------------------------------------------------- the same call through the exported C entry points (what the Python module and any C caller use)
extern "C" {
    void* tsgGradientDescentState_Construct(const int num_dimensions, const double x0[], const double initial_stepsize);
    void tsgGradientDescentState_Destruct(void* state);
    double tsgGradientDescentState_GetAdaptiveStepsize(void* state);
    void tsgGradientDescentState_GetX(void* state, double x_out[]);
    TasOptimization::OptimizationStatus tsgGradientDescent_AdaptProj(double (*f)(const int, const double[], int[]), void (*g)(const int, const double[], double[], int[]), void (*p)(const int, const double[], double[], int[]),
                                                                     const double increase_coeff, const double decrease_coeff, const int max_iterations, const double tolerance, void* state, int* err);
    TasOptimization::OptimizationStatus tsgGradientDescent_Adapt(double (*f)(const int, const double[], int[]), void (*g)(const int, const double[], double[], int[]),
                                                                 const double increase_coeff, const double decrease_coeff, const int max_iterations, const double tolerance, void* state, int* err);
    TasOptimization::OptimizationStatus tsgGradientDescent_Const(void (*g)(const int, const double[], double[], int[]), const double stepsize, const int max_iterations, const double tolerance, void* state, int* err);
}
static const Setup *c_setup = nullptr; static Exec *c_exec = nullptr;
static double c_obj(const int n, const double x[], int err[]){ double v = objective(c_setup->obj, x); c_exec->log.add('F', x, (size_t) n, &v, 1); c_exec->nF++; *err = 0; return v; }
static void c_grad(const int n, const double x[], double g[], int err[]){ gradient(c_setup->obj, x, g); c_exec->log.add('G', x, (size_t) n, g, (size_t) n); c_exec->nG++; *err = 0; }
static void c_proj(const int n, const double z[], double y[], int err[]){ projection(c_setup->proj, n, z, y); c_exec->log.add('P', z, (size_t) n, y, (size_t) n); c_exec->nP++; *err = 0; }
static void run_library_c(const Setup &s, int cap, Exec &ex){
    c_setup = &s; c_exec = &ex; std::vector<double> x0 = start_point(s); int d = s.dims(), err = 0;
    void *state = tsgGradientDescentState_Construct(d, x0.data(), s.s0); TasOptimization::OptimizationStatus st;
    if (s.variant == 1) st = tsgGradientDescent_Const(c_grad, s.s0, cap, s.tol, state, &err);
    else if (s.proj == 0) st = tsgGradientDescent_Adapt(c_obj, c_grad, s.inc, s.dec, cap, s.tol, state, &err);
    else st = tsgGradientDescent_AdaptProj(c_obj, c_grad, c_proj, s.inc, s.dec, cap, s.tol, state, &err);
    ex.x.resize((size_t) d); tsgGradientDescentState_GetX(state, ex.x.data()); ex.stepsize = tsgGradientDescentState_GetAdaptiveStepsize(state); ex.performed = st.performed_iterations; ex.residual = st.residual;
    if (err != 0) ex.thrown = "error code " + std::to_string(err);
    tsgGradientDescentState_Destruct(state);
}

// ---------------------------------------------------------------- reference model stepping on the logged values
// slack: what the passed descent tests allow the objective to grow in total. A passed test guarantees f(y) <= f(x) + <g, y-x> + |y-x|^2/(2 stepsize) + 1e-12;
// for an exact projection of x - stepsize g onto a convex set containing x the middle terms are <= 0 (hence "descent"), with a projection that is only exact up
// to rounding they can be a positive multiple of |g| * rounding error. The slack accumulates 1e-12 + max(0, <g, y-x> + |y-x|^2/(2 stepsize)) + rounding of f per accepted step.
struct RefResult { bool ok = true; std::string sig, detail; std::vector<double> cur; int trials = 0, accepted = 0; bool cap_in_linesearch = false, converged = false; double slack = 0; };
#define RFAIL(S, D) do{ r.ok = false; r.sig = (S); r.detail = (D); return r; }while(0)
static RefResult replay_adaptive(const Setup &s, int cap, const Exec &ex){
    RefResult r; size_t d = (size_t) s.dims(); const Log &L = ex.log; size_t pos = 0; std::vector<double> start = start_point(s);
    auto next = [&](char t)->const Ev*{ if (pos >= L.ev.size() || L.ev[pos].t != t) return nullptr; return &L.ev[pos++]; };
    auto kind = [&]()->std::string{ return pos < L.ev.size() ? std::string(1, L.ev[pos].t) : std::string("end-of-run"); };
    const Ev *e = next('F'); if (!e || !same_bits_n(L.x(*e), start.data(), d)) RFAIL("C19:lockstep:initial-objective", "the first callback is not the objective at the starting point");
    double f_cur = L.y(*e)[0];
    e = next('G'); if (!e || !same_bits_n(L.x(*e), start.data(), d)) RFAIL("C19:lockstep:initial-gradient", "the second callback is not the gradient at the starting point");
    std::vector<double> cur = start, g_cur(L.y(*e), L.y(*e) + d), y(d), prev(d);
    double step = s.s0 / s.inc, residual = s.tol + 1.0; int performed = 0; bool stop = false;
    while(residual > s.tol && performed < cap && !stop){
        step *= s.inc; double fy = 0;
        while(true){
            if (performed >= cap){ r.cap_in_linesearch = true; stop = true; break; }
            if (s.proj != 0){
                e = next('P'); if (!e) RFAIL("C19:descent-test-mismatch", "trial " + std::to_string(performed + 1) + ": the model (last trial failed or a new outer iteration starts) expects a projection call, the library continues with " + kind());
                for(size_t j=0;j<d;j++){ double z = cur[j] - g_cur[j] * step; if (!close(L.x(*e)[j], z, 1e-10)) RFAIL("C19:step-formula", "trial " + std::to_string(performed + 1) + ": projection input " + vstr(L.x(*e), d) + " is not x - stepsize * gradient with x = " + vstr(cur) + ", gradient " + vstr(g_cur) + ", model stepsize " + vf::jnum(step)); }
                for(size_t j=0;j<d;j++) y[j] = L.y(*e)[j];
                e = next('F'); if (!e || !same_bits_n(L.x(*e), y.data(), d)) RFAIL("C19:lockstep:objective-not-at-projection", "trial " + std::to_string(performed + 1) + ": the objective is not evaluated at the projected point");
            }else{
                e = next('F'); if (!e) RFAIL("C19:descent-test-mismatch", "trial " + std::to_string(performed + 1) + ": the model (last trial failed or a new outer iteration starts) expects an objective call at a trial point, the library continues with " + kind());
                for(size_t j=0;j<d;j++){ double z = cur[j] - g_cur[j] * step; if (!close(L.x(*e)[j], z, 1e-10)) RFAIL("C19:step-formula", "trial " + std::to_string(performed + 1) + ": trial point " + vstr(L.x(*e), d) + " is not x - stepsize * gradient with x = " + vstr(cur) + ", gradient " + vstr(g_cur) + ", model stepsize " + vf::jnum(step)); }
                for(size_t j=0;j<d;j++) y[j] = L.x(*e)[j];
            }
            fy = L.y(*e)[0];
            // documented descent test: f(y) - f(x) - <g, y - x> <= |y - x|^2 / (2 stepsize) (+ tolerance)
            double lhs = 0, rhs = 0; lhs += fy - f_cur; for(size_t j=0;j<d;j++){ double delta = y[j] - cur[j]; rhs += delta * delta / (2.0 * step); lhs -= g_cur[j] * delta; }
            step /= s.dec; performed++; r.trials = performed;
            if (!(lhs > rhs + DESCENT_TOL)){ double first = 0, quad = 0; for(size_t j=0;j<d;j++){ double delta = y[j] - cur[j]; first += g_cur[j] * delta; quad += delta * delta / (2.0 * step * s.dec); } r.slack += DESCENT_TOL + std::max(0.0, first + quad) + 8 * 2.3e-16 * (std::fabs(fy) + std::fabs(f_cur)); break; }
        }
        if (stop) break;
        prev = cur; cur = y; f_cur = fy; step *= s.dec; r.accepted++;
        e = next('G'); if (!e || !same_bits_n(L.x(*e), cur.data(), d)) RFAIL("C19:descent-test-mismatch", "trial " + std::to_string(performed) + " passes the descent test on the logged values (the model accepts " + vstr(cur) + "), but the library continues with " + kind() + " instead of the gradient at the accepted point");
        residual = 0; for(size_t j=0;j<d;j++){ double sd = (prev[j] - cur[j]) / step + L.y(*e)[j] - g_cur[j]; residual += sd * sd; } residual = std::sqrt(residual);
        for(size_t j=0;j<d;j++) g_cur[j] = L.y(*e)[j];
    }
    r.converged = !(residual > s.tol);
    if (pos != L.ev.size()) RFAIL("C19:lockstep:extra-callbacks", "the library made " + std::to_string(L.ev.size() - pos) + " more callbacks (next " + kind() + ") after the model stopped (trials " + std::to_string(performed) + ", cap " + std::to_string(cap) + ", residual " + vf::jnum(residual) + ")");
    r.cur = cur; return r;
}
static RefResult replay_constant(const Setup &s, int cap, const Exec &ex){
    RefResult r; size_t d = (size_t) s.dims(); const Log &L = ex.log; size_t pos = 0; std::vector<double> x = start_point(s);
    auto next = [&](char t)->const Ev*{ if (pos >= L.ev.size() || L.ev[pos].t != t) return nullptr; return &L.ev[pos++]; };
    const Ev *e = next('G'); if (!e || !same_bits_n(L.x(*e), x.data(), d)) RFAIL("C19:lockstep:initial-gradient", "the first callback is not the gradient at the starting point");
    int steps = 0; bool reached = false;
    while(steps < cap && !reached){ // exactly min(cap, first step reaching the tolerance) steps
        for(size_t j=0;j<d;j++) x[j] -= L.y(*e)[j] * s.s0;
        steps++;
        e = next('G'); if (!e) RFAIL("C19:constant-step-count", "the library stopped after " + std::to_string(steps - 1) + " steps although the cap is " + std::to_string(cap) + " and the tolerance was not reached");
        if (!close_n(L.x(*e), x.data(), d, 1e-13)) RFAIL("C19:constant-step-formula", "step " + std::to_string(steps) + ": gradient evaluated at " + vstr(L.x(*e), d) + " but x - stepsize * gradient = " + vstr(x));
        for(size_t j=0;j<d;j++) x[j] = L.x(*e)[j];
        double res = 0; for(size_t j=0;j<d;j++) res += L.y(*e)[j] * L.y(*e)[j]; res = std::sqrt(res);
        reached = !(res > s.tol);
    }
    r.trials = steps; r.accepted = steps; r.converged = reached;
    if (pos != L.ev.size()) RFAIL("C19:constant-step-count", "the library took more than " + std::to_string(steps) + " steps (cap " + std::to_string(cap) + ", tolerance reached: " + std::to_string((int) reached) + ")");
    r.cur = x; return r;
}

// ---------------------------------------------------------------- one case = one set-up with every cap 0..N
static std::string case_json(const Setup &s, int cap, int cap_prev = -1){ vf::J j; j.s("setup", s.str()).s("objective", OBJNAME[s.obj]).s("projection", PROJNAME[s.proj]).i("cap", cap); if (cap_prev >= 0) j.i("smaller_cap", cap_prev); return j.str(); }
static void exec_setup(const Setup &s, Delta &d){
    size_t dm = (size_t) s.dims(); std::vector<double> start = start_point(s); bool feasible = start_feasible(s);
    double f_start = objective(s.obj, start.data()); uint64_t sh = h64(s.str());
    double best_f = 0; int best_cap = -1; // smallest objective value returned by a smaller cap
    const char *vn = s.variant ? "constant" : "adaptive";
    for(int cap = 0; cap <= s.N; cap++){
        if (g_sh) g_sh->aux = cap;
        Exec ex; run_library(s, cap, ex); d.execs++; d.transitions += (long) ex.log.ev.size();
        if (!ex.thrown.empty()){ d.viol("C19:exception", case_json(s, cap), ex.thrown); continue; }
        { // the C entry point must behave as the C++ call: same callbacks with the same arguments in the same order, same final state and status
            Exec ec; run_library_c(s, cap, ec); d.execs++; d.evals++;
            bool same = ec.thrown.empty() && ec.log.ev.size() == ex.log.ev.size() && ec.log.data.size() == ex.log.data.size() && same_bits(ec.x, ex.x) && ec.performed == ex.performed && same_bits_n(&ec.residual, &ex.residual, 1)
                        && (s.variant == 1 || same_bits_n(&ec.stepsize, &ex.stepsize, 1));
            if (same) for(size_t i=0;i<ex.log.ev.size() && same;i++) if (ec.log.ev[i].t != ex.log.ev[i].t) same = false;
            if (same && !same_bits_n(ec.log.data.data(), ex.log.data.data(), ex.log.data.size())) same = false;
            if (!same) d.viol(std::string("C19:c-interface-differs:") + vn, case_json(s, cap), "cap " + std::to_string(cap) + ": C++ call: " + std::to_string(ex.performed) + " iterations, " + std::to_string(ex.log.ev.size()) + " callbacks, x = " + vstr(ex.x)
                              + "; tsgGradientDescent_* call: " + (ec.thrown.empty() ? "" : ec.thrown + ", ") + std::to_string(ec.performed) + " iterations, " + std::to_string(ec.log.ev.size()) + " callbacks, x = " + vstr(ec.x));
        }
        d.state(hcomb(sh, (uint64_t) ex.log.ev.size()));
        d.dist(hcomb(sh, hcomb(hvec(ex.x), hbytes(&ex.stepsize, sizeof(double)))));
        // never more than max_iterations steps
        d.evals++;
        bool over = (s.variant == 1) ? (ex.performed > cap || ex.nG > cap + 1) : (ex.performed > cap || ex.nG > cap + 1 || (s.proj != 0 ? (ex.nP > cap || ex.nF > cap + 1) : ex.nF > cap + 1));
        if (over) d.viol(std::string("C19:cap-exceeded:") + vn, case_json(s, cap), "cap " + std::to_string(cap) + ": performed_iterations " + std::to_string(ex.performed) + ", objective calls " + std::to_string(ex.nF) + ", gradient calls " + std::to_string(ex.nG) + ", projection calls " + std::to_string(ex.nP));
        RefResult r = s.variant ? replay_constant(s, cap, ex) : replay_adaptive(s, cap, ex);
        d.evals++;
        if (!r.ok){ d.viol(r.sig, case_json(s, cap), r.detail); }
        else{
            d.evals += 2;
            if (!same_bits(ex.x, r.cur)) d.viol(s.variant ? "C19:constant-step-final-point" : "C19:returned-point-not-last-accepted", case_json(s, cap), "cap " + std::to_string(cap) + ": the state holds " + vstr(ex.x) + " (f = " + vf::jnum(objective(s.obj, ex.x.data())) + ") but the last point that passed the descent test on the logged values is " + vstr(r.cur) + " (f = " + vf::jnum(objective(s.obj, r.cur.data())) + "); accepted steps " + std::to_string(r.accepted) + ", trials " + std::to_string(r.trials));
            if (ex.performed != r.trials) d.viol(std::string("C19:performed-iterations:") + vn, case_json(s, cap), "status reports " + std::to_string(ex.performed) + " iterations, the log shows " + std::to_string(r.trials));
            d.outcome(std::string(vn) + (r.converged ? "/converged" : r.cap_in_linesearch ? "/cap-hit-inside-line-search" : cap == 0 ? "/cap-0" : "/cap-hit-after-accepted-step"));
        }
        if (s.variant == 0){
            double fx = objective(s.obj, ex.x.data()); double slack = r.slack + DESCENT_TOL;
            // the result is the starting point or a value returned by the projection (for the variant without projection: a trial point)
            d.evals++;
            bool found = same_bits_n(ex.x.data(), start.data(), dm);
            for(auto &e : ex.log.ev){ if (found) break; if (e.t == (s.proj != 0 ? 'P' : 'F')){ const double *p = (s.proj != 0) ? ex.log.y(e) : ex.log.x(e); if (same_bits_n(p, ex.x.data(), dm)) found = true; } }
            if (!found) d.viol("C19:result-not-projection-output", case_json(s, cap), "cap " + std::to_string(cap) + ": the state " + vstr(ex.x) + " is neither the start nor any point returned by the projection");
            if (feasible && r.ok){
                d.evals += 2;
                if (!(fx <= f_start + slack)) d.viol("C19:worse-than-start:adaptive", case_json(s, cap), "cap " + std::to_string(cap) + ": f(result) = " + vf::jnum(fx) + " > f(start) = " + vf::jnum(f_start));
                if (best_cap >= 0 && !(fx <= best_f + slack)) d.viol("C19:cap-monotonicity:adaptive", case_json(s, cap, best_cap), "cap " + std::to_string(cap) + " returns " + vstr(ex.x) + " with f = " + vf::jnum(fx) + " but the smaller cap " + std::to_string(best_cap) + " returned f = " + vf::jnum(best_f));
                if (best_cap < 0 || fx < best_f){ best_f = fx; best_cap = cap; }
            }
        }
    }
}

// ---------------------------------------------------------------- set-up lattice
struct UnitDef { int obj, proj, variant; };
static std::vector<Setup> unit_setups(const UnitDef &u){
    std::vector<Setup> out; bool th = (g_tier == "thorough"); int N = th ? 200 : 40;
    if (u.variant == 1){
        double L = lipschitz(u.obj); std::vector<double> steps = (u.obj == 6) ? std::vector<double>{1e-3, 2e-3} : (u.obj >= 7) ? std::vector<double>{0.05, 0.1} : std::vector<double>{0.5 / L, 1.0 / L, 1.9 / L};
        for(int st=0; st<4; st++) for(double sz : steps) for(double tol : {1e-2, 1e-6, 0.0}){ if (!th && (st == 2 || tol == 0.0)) continue; Setup s; s.obj = u.obj; s.proj = 0; s.start = st; s.variant = 1; s.s0 = sz; s.tol = tol; s.N = N; out.push_back(s); }
        return out;
    }
    for(int st=0; st<4; st++) for(double inc : {1.25, 2.0}) for(double dec : {1.25, 2.0}) for(double tol : {1e-3, 1e-8}) for(double s0 : {1.0, 0.01}){
        if (!th && (st == 2 || (tol == 1e-3 && s0 == 0.01))) continue;
        Setup s; s.obj = u.obj; s.proj = u.proj; s.start = st; s.inc = inc; s.dec = dec; s.tol = tol; s.s0 = s0; s.N = N; out.push_back(s); }
    return out;
}

int main(int argc, char **argv){
    reexec_with_small_quarantine(argv);
    vf::Args A(argc, argv); g_tier = A.get("--tier", "quick");
    double dl = A.getd("--deadline", 0); if (dl > 0) vf::g_deadline = vf::now() + dl;
    if (A.has("--replay")){
        std::string v = vf::slurp(A.get("--replay")); std::string cs = vf::jget(v, "case"); Setup s = Setup::parse(vf::jget(cs, "setup"));
        shared_init();
        vf::Outcome o = vf::run_child([&](int fd){ Delta d; exec_setup(s, d); for(auto &vv : d.viols) if (!vv.case_json.empty()) vf::wr(fd, vf::J().s("t","viol").s("sig", vv.sig).s("unit","replay").raw("case", vv.case_json).s("detail", vv.detail).str() + "\n"); }, 300.0);
        if (!o.out.empty()) vf::emit(o.out.substr(0, o.out.size() - 1));
        if (o.kind != vf::Outcome::OK){ std::string cls, fn; crash_class(o, cls, fn); vf::violation("C19:" + cls + ":" + fn, "replay", case_json(s, (int) g_sh->aux), o.describe() + ": " + o.err.substr(0, 1200)); }
        vf::emit(vf::J().s("t","summary").s("replay", o.describe())); return 0;
    }
    std::vector<UnitDef> U; for(int obj=0;obj<9;obj++){ for(int proj=0;proj<4;proj++) U.push_back({obj, proj, 0}); U.push_back({obj, 0, 1}); }
    size_t done = vf::parallel_units(U.size(), (int) A.geti("--workers", 8), [&](size_t ui){
        const UnitDef &u = U[ui]; Runner R; double t0 = vf::now(); R.chunk = 8; R.flush_every = 1;
        R.unit = std::string(OBJNAME[u.obj]) + "/" + (u.variant ? "constant-step" : std::string("adaptive/proj-") + PROJNAME[u.proj]);
        std::vector<Setup> S = unit_setups(u);
        R.exec = [&](size_t idx, Delta &d){ exec_setup(S[idx], d); };
        R.on_crash = [&](size_t idx, const vf::Outcome &o, long, long){ std::string cls, fn; crash_class(o, cls, fn); R.record("C19:" + cls + ":" + fn, case_json(S[idx], (int) g_sh->aux), o.describe() + " at cap " + std::to_string(g_sh->aux) + ": " + o.err.substr(0, 900)); };
        R.run(S.size());
        R.emit_unit(vf::now() - t0, "\"setups\":" + std::to_string(S.size()) + ",\"caps\":" + std::to_string(S.empty() ? 0 : S[0].N + 1));
        if (!S.empty()) vf::emit(vf::J().s("t","sample").raw("case", case_json(S[S.size() / 2], S[0].N / 2)));
    });
    bool th = (g_tier == "thorough");
    vf::emit(vf::J().s("t","summary").i("units_total", (long long) U.size()).i("units_done", (long long) done)
        .s("bound", std::string("C19 tier=") + g_tier + ": 9 objectives (1-D/2-D quadratics cond {1,50,1e4}, Rosenbrock, 1-D/2-D double well) x projections {none, identity, box, half-space} x "
           + (th ? "4 starts (one infeasible) x (increase,decrease) in {1.25,2}^2 x tolerance {1e-3,1e-8} x initial step {1,0.01}" : "3 starts x (increase,decrease) in {1.25,2}^2 x 3 (tolerance, initial step) pairs") + " x every cap 0.." + (th ? "200" : "40")
           + "; constant step: " + (th ? "4 starts x 2-3 steps x tolerance {1e-2,1e-6,0}" : "3 starts x 2-3 steps x tolerance {1e-2,1e-6}") + " x every cap")
        .b("exhaustive", done == U.size() && !vf::past_deadline()));
    return 0;
}
