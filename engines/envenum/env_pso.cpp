// env_pso - engine E-E for C20 (ParticleSwarm): the random-number source, the domain test and the (batched) objective are
// scripted/logging callbacks; answer strings over {0, 1/4, 1/2, 3/4, 1} are enumerated (exhaustively for one iteration, with <= k
// deviations from 1/2 for several), together with all splittings of the iteration count over several calls and state edits between
// the calls. A reference model of the best-position bookkeeping (written here, no code shared with the library) is stepped on the
// logged visits; bests are judged directly against the set of logged in-domain visits.
#include "TasmanianOptimization.hpp"
#include "envenum.hpp"
using namespace ee;

static std::string g_tier = "quick";
static const int MAXP = 3, MAXD = 2;

// ---------------------------------------------------------------- configuration
struct Cfg {
    int np = 2, d = 1, dom = 0, coef = 0, obj = 0;
    std::string str() const{ std::ostringstream o; o << "particles=" << np << ";dims=" << d << ";domain=" << dom << ";coef=" << coef << ";objective=" << obj; return o.str(); }
    static Cfg parse(const std::string &s){ Cfg c; auto get = [&](const char *k)->int{ size_t p = s.find(std::string(k) + "="); if (p == std::string::npos) return 0; return atoi(s.c_str() + p + strlen(k) + 1); };
        c.np = get("particles"); c.d = get("dims"); c.dom = get("domain"); c.coef = get("coef"); c.obj = get("objective"); return c; }
    uint64_t hash() const{ return vf::mix((uint64_t)(np + 4 * (d + 4 * (dom + 8 * (coef + 4 * obj)))) + 77); }
    double w() const{ const double v[4] = {0.5, 1.0, 0.0, 0.9}; return v[coef]; }
    double c1() const{ const double v[4] = {2.0, 0.0, 2.0, 1.5}; return v[coef]; }
    double c2() const{ const double v[4] = {2.0, 2.0, 0.0, 0.5}; return v[coef]; }
};
static const char *DOMNAME[5] = {"everything", "box-containing-swarm", "box-excluding-some", "box-excluding-initial-swarm", "nothing"};
static void dom_box(const Cfg &c, double *lo, double *hi){ for(int j=0;j<c.d;j++){ lo[j] = -3.0; hi[j] = 3.0; } if (c.dom == 2) lo[0] = -0.3; if (c.dom == 3) lo[0] = 1.2; }
static bool my_domain(const Cfg &c, const double *x){ if (c.dom == 0) return true; if (c.dom == 4) return false; double lo[MAXD], hi[MAXD]; dom_box(c, lo, hi); for(int j=0;j<c.d;j++) if (x[j] < lo[j] || x[j] > hi[j]) return false; return true; }
static double my_obj(const Cfg &c, const double *x){ const double ctr[2] = {1.0, -0.5}; double v = 0; for(int j=0;j<c.d;j++){ double t = x[j] - ctr[j]; v += (c.obj == 0) ? t * t : std::sin(3.0 * x[j]) + 0.1 * x[j] * x[j]; } return v; }
static std::vector<double> init_pos(const Cfg &c){ std::vector<double> p((size_t)(c.np * c.d)); for(int i=0;i<c.np;i++) for(int j=0;j<c.d;j++) p[(size_t)(i*c.d+j)] = (j == 0) ? -1.0 + 0.9 * i : 0.4 - 0.7 * i; return p; }
static std::vector<double> init_vel(const Cfg &c){ std::vector<double> p((size_t)(c.np * c.d)); for(int i=0;i<c.np;i++) for(int j=0;j<c.d;j++) p[(size_t)(i*c.d+j)] = (j == 0) ? 0.5 - 0.3 * i : -0.2 + 0.25 * i; return p; }
static std::vector<double> manual_pos(const Cfg &c){ auto p = init_pos(c); for(int i=0;i<c.np;i++) for(int j=0;j<c.d;j++) p[(size_t)(i*c.d+j)] += (j == 0) ? 0.35 : -0.15; return p; }
static std::vector<double> manual_best(const Cfg &c){ // consistent user-supplied bests: the swarm entry is the best in-domain particle entry
    std::vector<double> b((size_t)((c.np + 1) * c.d)); int arg = 0; double bf = 0; bool have = false;
    for(int i=0;i<c.np;i++){ for(int j=0;j<c.d;j++) b[(size_t)(i*c.d+j)] = (j == 0) ? 0.5 + 0.45 * i : -0.1 * i; if (my_domain(c, &b[(size_t)(i*c.d)])){ double f = my_obj(c, &b[(size_t)(i*c.d)]); if (!have || f < bf){ have = true; bf = f; arg = i; } } }
    for(int j=0;j<c.d;j++) b[(size_t)(c.np*c.d+j)] = b[(size_t)(arg*c.d+j)]; return b; }
static const char *EDITNAME[7] = {"no-edit", "clearCache", "clearBestParticles", "setParticlePositions", "setParticlePositions+clearCache", "clearBestParticles+clearCache", "setBestParticlePositions+clearCache"};

// ---------------------------------------------------------------- program, log, observations
struct Op { char t; int v; }; // 'R' run v iterations, 'E' edit v
typedef std::vector<Op> Prog;
struct Ev { char t; bool ans; uint32_t off, nx, ny; }; // R: x={value}; I: x=point, ans; F: x=batch, y=values
struct Log { std::vector<Ev> ev; std::vector<double> data;
    void add(char t, bool ans, const double *x, size_t nx, const double *y, size_t ny){ ev.push_back({t, ans, (uint32_t) data.size(), (uint32_t) nx, (uint32_t) ny}); data.insert(data.end(), x, x + nx); if (ny) data.insert(data.end(), y, y + ny); }
    const double* x(const Ev &e) const{ return data.data() + e.off; } const double* y(const Ev &e) const{ return data.data() + e.off + e.nx; } };
struct Snap { std::vector<double> pos, vel, best; bool cache_init = false, best_init = false; };
struct CallObs { Snap before, after; size_t ev_begin = 0, ev_end = 0, draws = 0; int iters = 0; };
struct Exec { Log log; std::vector<CallObs> calls; Str used; std::string thrown; };

static Snap snapshot(const TasOptimization::ParticleSwarmState &s){ Snap q; q.pos = s.getParticlePositions(); q.vel = s.getParticleVelocities(); q.best = s.getBestParticlePositions(); q.cache_init = s.isCacheInitialized(); q.best_init = s.isBestPositionInitialized(); return q; }
// the same state read through the raw-array getters (api 1) and through the C interface (api 2)
extern "C" {
    typedef double (*c_rng_fn)(); typedef int (*c_dom_fn)(const int, const double[], int[]); typedef void (*c_obj_fn)(const int, const int, const double[], double[], int[]);
    void* tsgParticleSwarmState_Construct(int, int); void tsgParticleSwarmState_Destruct(void*);
    void tsgParticleSwarmState_GetParticlePositions(void*, double[]); void tsgParticleSwarmState_GetParticleVelocities(void*, double[]); void tsgParticleSwarmState_GetBestParticlePositions(void*, double[]);
    int tsgParticleSwarmState_IsBestPositionInitialized(void*); int tsgParticleSwarmState_IsCacheInitialized(void*);
    void tsgParticleSwarmState_SetParticlePositions(void*, const double[]); void tsgParticleSwarmState_SetParticleVelocities(void*, const double[]); void tsgParticleSwarmState_SetBestParticlePositions(void*, const double[]);
    void tsgParticleSwarmState_ClearBestParticles(void*); void tsgParticleSwarmState_ClearCache(void*);
    void tsgParticleSwarm(const c_obj_fn, const c_dom_fn, const double, const double, const double, const int, void*, const char*, const int, c_rng_fn, int*);
}
static const char *APINAME[3] = {"vector-overloads", "array-overloads", "c-interface"};
static Snap snapshot_api(TasOptimization::ParticleSwarmState &s, const Cfg &c, int api){
    if (api == 0) return snapshot(s);
    Snap q; size_t n = (size_t)(c.np * c.d); q.pos.assign(n, -77.0); q.vel.assign(n, -77.0); q.best.assign(n + (size_t) c.d, -77.0);
    if (api == 1){ s.getParticlePositions(q.pos.data()); s.getParticleVelocities(q.vel.data()); s.getBestParticlePositions(q.best.data()); q.cache_init = s.isCacheInitialized(); q.best_init = s.isBestPositionInitialized(); }
    else{ void *h = (void*) &s; tsgParticleSwarmState_GetParticlePositions(h, q.pos.data()); tsgParticleSwarmState_GetParticleVelocities(h, q.vel.data()); tsgParticleSwarmState_GetBestParticlePositions(h, q.best.data());
          q.cache_init = tsgParticleSwarmState_IsCacheInitialized(h) != 0; q.best_init = tsgParticleSwarmState_IsBestPositionInitialized(h) != 0; }
    return q;
}
static const Cfg *cb_cfg = nullptr; static Log *cb_log = nullptr; static Script *cb_sc = nullptr; static TasDREAM::DreamDomain *cb_box = nullptr;
static double cb_rng(){ double v = cb_sc->next(); cb_log->add('R', false, &v, 1, nullptr, 0); return v; }
static int cb_dom(const int nd, const double x[], int err[]){ *err = 0; const Cfg &c = *cb_cfg; std::vector<double> xv(x, x + nd); bool a = (c.dom == 0) ? true : (c.dom == 4) ? false : (*cb_box)(xv); cb_log->add('I', a, x, (size_t) nd, nullptr, 0); return a ? 1 : 0; }
static void cb_obj(const int nd, const int nb, const double x[], double f[], int err[]){ *err = 0; const Cfg &c = *cb_cfg; for(int i=0;i<nb;i++) f[i] = my_obj(c, x + (size_t) i * (size_t) nd); cb_log->add('F', false, x, (size_t) nd * (size_t) nb, f, (size_t) nb); }
// api 0: std::vector overloads of the setters/getters and the C++ ParticleSwarm(); api 1: the raw-array overloads; api 2: everything through the C interface
static void run_library(const Cfg &c, const Prog &prog, const Str &s, Exec &ex, int api = 0){
    using namespace TasOptimization;
    Script sc; sc.reset(s); Log &log = ex.log; log.ev.reserve(64); log.data.reserve(256);
    auto rng = [&]()->double{ double v = sc.next(); log.add('R', false, &v, 1, nullptr, 0); return v; };
    double lo[MAXD], hi[MAXD]; dom_box(c, lo, hi);
    TasDREAM::DreamDomain lib_box = TasDREAM::hypercube(std::vector<double>(lo, lo + c.d), std::vector<double>(hi, hi + c.d));
    TasDREAM::DreamDomain inside = [&](const std::vector<double> &x)->bool{ bool a = (c.dom == 0) ? true : (c.dom == 4) ? false : lib_box(x); log.add('I', a, x.data(), x.size(), nullptr, 0); return a; };
    ObjectiveFunction f = [&](const std::vector<double> &xb, std::vector<double> &fv)->void{ for(size_t i=0;i<fv.size() && (i+1)*(size_t)c.d <= xb.size();i++) fv[i] = my_obj(c, &xb[i*(size_t)c.d]); log.add('F', false, xb.data(), xb.size(), fv.data(), fv.size()); };
    cb_cfg = &c; cb_log = &log; cb_sc = &sc; cb_box = &lib_box;
    ParticleSwarmState *sp = nullptr;
    try{
        sp = (api == 2) ? reinterpret_cast<ParticleSwarmState*>(tsgParticleSwarmState_Construct(c.d, c.np)) : new ParticleSwarmState(c.d, c.np);
        ParticleSwarmState &state = *sp; void *h = (void*) sp;
        auto set_pos = [&](const std::vector<double> &v){ if (api == 0) state.setParticlePositions(v); else if (api == 1) state.setParticlePositions(v.data()); else tsgParticleSwarmState_SetParticlePositions(h, v.data()); };
        auto set_vel = [&](const std::vector<double> &v){ if (api == 0) state.setParticleVelocities(v); else if (api == 1) state.setParticleVelocities(v.data()); else tsgParticleSwarmState_SetParticleVelocities(h, v.data()); };
        auto set_best = [&](const std::vector<double> &v){ if (api == 0) state.setBestParticlePositions(v); else if (api == 1) state.setBestParticlePositions(v.data()); else tsgParticleSwarmState_SetBestParticlePositions(h, v.data()); };
        auto clear_cache = [&](){ if (api == 2) tsgParticleSwarmState_ClearCache(h); else state.clearCache(); };
        auto clear_best = [&](){ if (api == 2) tsgParticleSwarmState_ClearBestParticles(h); else state.clearBestParticles(); };
        set_pos(init_pos(c)); set_vel(init_vel(c));
        for(auto &op : prog){
            if (op.t == 'E'){
                switch(op.v){ case 1: clear_cache(); break; case 2: clear_best(); break; case 3: set_pos(manual_pos(c)); break;
                    case 4: set_pos(manual_pos(c)); clear_cache(); break; case 5: clear_best(); clear_cache(); break;
                    case 6: set_best(manual_best(c)); clear_cache(); break; default: break; }
            }else{
                ex.calls.emplace_back(); CallObs &co = ex.calls.back(); co.iters = op.v; co.before = snapshot_api(state, c, api); co.ev_begin = log.ev.size();
                if (api == 2){ int err = 0; tsgParticleSwarm(cb_obj, cb_dom, c.w(), c.c1(), c.c2(), op.v, h, "callback", 1, cb_rng, &err); if (err != 0) throw std::runtime_error("tsgParticleSwarm returned error code " + std::to_string(err)); }
                else ParticleSwarm(f, inside, c.w(), c.c1(), c.c2(), op.v, state, rng);
                co.ev_end = log.ev.size(); co.after = snapshot_api(state, c, api); co.draws = sc.pos;
            }
        }
    }catch(std::exception &e){ ex.thrown = e.what(); }
    if (sp){ if (api == 2) tsgParticleSwarmState_Destruct((void*) sp); else delete sp; }
    ex.used = sc.used;
}
// two executions of the same program and answer string must be identical: callbacks (kinds, arguments, returned values), state before/after every call, draws consumed
static std::string exec_difference(const Exec &a, const Exec &b){
    if (a.thrown != b.thrown) return "exception '" + a.thrown + "' vs '" + b.thrown + "'";
    if (a.calls.size() != b.calls.size()) return "number of completed calls";
    for(size_t i=0;i<a.calls.size();i++){ const CallObs &x = a.calls[i], &y = b.calls[i]; std::string at = "call " + std::to_string(i + 1) + ": ";
        if (!same_bits(x.before.pos, y.before.pos)) return at + "positions before the call " + vstr(x.before.pos) + " vs " + vstr(y.before.pos);
        if (!same_bits(x.before.vel, y.before.vel)) return at + "velocities before the call " + vstr(x.before.vel) + " vs " + vstr(y.before.vel);
        if (!same_bits(x.before.best, y.before.best)) return at + "best positions before the call " + vstr(x.before.best) + " vs " + vstr(y.before.best);
        if (x.before.best_init != y.before.best_init || x.before.cache_init != y.before.cache_init) return at + "flags before the call";
        if (x.ev_end - x.ev_begin != y.ev_end - y.ev_begin) return at + std::to_string(x.ev_end - x.ev_begin) + " vs " + std::to_string(y.ev_end - y.ev_begin) + " callbacks";
        if (!same_bits(x.after.pos, y.after.pos)) return at + "positions after the call " + vstr(x.after.pos) + " vs " + vstr(y.after.pos);
        if (!same_bits(x.after.vel, y.after.vel)) return at + "velocities after the call " + vstr(x.after.vel) + " vs " + vstr(y.after.vel);
        if (!same_bits(x.after.best, y.after.best)) return at + "best positions after the call " + vstr(x.after.best) + " vs " + vstr(y.after.best);
        if (x.after.best_init != y.after.best_init || x.after.cache_init != y.after.cache_init) return at + "flags after the call";
        if (x.draws != y.draws) return at + "draws consumed"; }
    if (a.log.ev.size() != b.log.ev.size() || a.log.data.size() != b.log.data.size()) return "callback log length";
    for(size_t i=0;i<a.log.ev.size();i++) if (a.log.ev[i].t != b.log.ev[i].t || a.log.ev[i].ans != b.log.ev[i].ans || a.log.ev[i].nx != b.log.ev[i].nx || a.log.ev[i].ny != b.log.ev[i].ny) return "callback " + std::to_string(i) + " kind/shape";
    if (!same_bits_n(a.log.data.data(), b.log.data.data(), a.log.data.size())) return "callback arguments/values";
    return "";
}

// ---------------------------------------------------------------- cases
struct Case { char kind; Prog prog; Str s; };
static std::string prog_json(const Prog &p){ std::string o = "["; for(size_t i=0;i<p.size();i++){ if (i) o += ","; o += (p[i].t == 'R') ? std::to_string(p[i].v) : std::to_string(-p[i].v); } return o + "]"; }
static std::string prog_text(const Prog &p){ std::string o; for(auto &op : p){ if (!o.empty()) o += "; "; o += (op.t == 'R') ? "ParticleSwarm(" + std::to_string(op.v) + ")" : std::string(EDITNAME[op.v]); } return o; }
static std::string case_json(const Cfg &c, const Case &k){ return vf::J().s("cfg", c.str()).s("domain", DOMNAME[c.dom]).s("kind", std::string(1, k.kind)).raw("prog", prog_json(k.prog)).s("program", prog_text(k.prog)).raw("rng", str_json(k.s)).s("alphabet", "rng[i] indexes {0,0.25,0.5,0.75,1}; draws past the string answer 0.5; prog: n >= 0 runs n iterations, -e applies edit e").str(); }
static Prog prog_parse(const std::string &arr){ Prog p; for(long v : vf::jints(arr)) p.push_back(v >= 0 ? Op{'R', (int) v} : Op{'E', (int) -v}); return p; }

static std::vector<Case> make_cases(const Cfg &c){
    std::vector<Case> out; bool th = (g_tier == "thorough"); int L1 = 2 * c.np;
    // A: one iteration, every answer string
    for(size_t i=0;i<ipow(5, L1);i++) out.push_back({'A', {{'R', 1}}, window_string(i, 0, L1)});
    // B: several iterations in one call, <= k deviations
    { int T = 3, k = (th || c.np <= 2) ? 2 : 1; std::vector<Str> ds; deviation_strings(T * L1, k, ds, 1); for(auto &s : ds) out.push_back({'B', {{'R', T}}, s});
      if (th && c.np <= 2){ std::vector<Str> d3; deviation_strings(T * L1, 3, d3, 3); for(auto &s : d3) out.push_back({'B', {{'R', T}}, s}); }
      if (!th && c.np == 3){ std::vector<Str> d2; deviation_strings(2 * L1, 2, d2, 2); for(auto &s : d2) out.push_back({'B', {{'R', 2}}, s}); } }
    // C: all splittings of the iteration count over two or three calls (compared with the single call)
    { std::vector<std::vector<int>> splits = {{0,1},{1,0},{1,1},{0,2},{2,0},{1,2},{2,1},{0,3},{3,0},{1,1,1},{2,2},{1,3},{3,1},{1,2,1}};
      for(auto &sp : splits){ int T = 0; for(int v : sp) T += v; if (!th && T > 3) continue; std::vector<Str> ds; deviation_strings(T * L1, (th && T <= 3) ? 2 : 1, ds, 0); Prog p; for(int v : sp) p.push_back({'R', v}); for(auto &s : ds) out.push_back({'C', p, s}); } }
    // D: run(n); edit; run(m)
    for(int e=1;e<=6;e++) for(int n=0;n<=2;n++) for(int m=0;m<=2;m++){ std::vector<Str> ds; deviation_strings((n + m) * L1, 1, ds, 0); for(auto &s : ds) out.push_back({'D', {{'R', n}, {'E', e}, {'R', m}}, s}); }
    if (th) for(int e1=1;e1<=6;e1++) for(int e2=1;e2<=6;e2++){ std::vector<Str> ds; deviation_strings(3 * L1, 1, ds, 0); for(auto &s : ds) out.push_back({'D', {{'R', 1}, {'E', e1}, {'R', 1}, {'E', e2}, {'R', 1}}, s}); }
    return out;
}

// ---------------------------------------------------------------- reference model + oracle of one execution
struct Visit { double x[MAXD]; double f; };
struct Best { bool has = false; double x[MAXD] = {0, 0}; double f = 0; };
#define CJ case_json(c, k)
static void check_exec(const Cfg &c, const Case &k, const Exec &ex, Delta &d, long &in_visits, long &tot_visits){
    size_t n = (size_t) c.np, dm = (size_t) c.d; const Log &L = ex.log;
    if (!ex.thrown.empty()){ d.viol("C20:exception", CJ, "threw: " + ex.thrown); return; }
    d.transitions += (long) L.ev.size();
    // the objective never sees a point outside the domain (direct, independent of the model)
    for(auto &e : L.ev) if (e.t == 'F') for(size_t m=0;m<e.nx/dm;m++){ d.evals++; if (!my_domain(c, L.x(e) + m*dm)){ d.viol("C20:objective-outside-domain", CJ, "objective called on " + vstr(L.x(e) + m*dm, dm)); break; } }
    // model state
    bool cache_valid = false, best_init = false; std::string ctx = EDITNAME[0], edits_so_far; bool any_cb = false, any_cc = false; // context of a finding: which bookkeeping edits happened so far
    // a divergence of the callback sequence / velocity formula after clearBestParticles or clearCache is reported under one signature per context
    auto div = [&](const std::string &precise)->std::string{ return (any_cb || any_cc) ? "C20:diverges-from-model:" + ctx : precise; };
    bool has_cur[MAXP] = {false, false, false}, cur_in[MAXP] = {false, false, false}; double cur_x[MAXP][MAXD] = {{0}}, cur_f[MAXP] = {0, 0, 0};
    Best pb[MAXP], sb; bool known[MAXP + 1] = {false, false, false, false}, user_best = false; // known: the strip holds a best the model assigned (or the user supplied), not the zero placeholder
    std::vector<Visit> visits[MAXP], all; bool have_prev_best_f = false; double prev_best_f = 0;
    auto reset_visits = [&](){ all.clear(); for(size_t i=0;i<n;i++){ visits[i].clear(); if (cache_valid && has_cur[i] && cur_in[i]){ Visit v; for(size_t q=0;q<dm;q++) v.x[q] = cur_x[i][q]; v.f = cur_f[i]; visits[i].push_back(v); all.push_back(v); } } have_prev_best_f = false; };
    auto update = [&](){ for(size_t i=0;i<n;i++) if (has_cur[i] && cur_in[i] && (!pb[i].has || cur_f[i] < pb[i].f)){ pb[i].has = true; known[i] = true; pb[i].f = cur_f[i]; for(size_t q=0;q<dm;q++) pb[i].x[q] = cur_x[i][q]; if (!sb.has || pb[i].f < sb.f){ sb = pb[i]; known[n] = true; } } };
    size_t ci = 0; uint64_t ph = c.hash();
    for(auto &op : k.prog){
        ph = hcomb(ph, (uint64_t)(op.t * 131 + op.v));
        if (op.t == 'E'){
            bool clear_cache = (op.v == 1 || op.v == 4 || op.v == 5 || op.v == 6), clear_best = (op.v == 2 || op.v == 5), set_best = (op.v == 6);
            any_cb = any_cb || clear_best; any_cc = any_cc || clear_cache;
            edits_so_far += (edits_so_far.empty() ? "" : ";") + std::string(EDITNAME[op.v]);
            // both kinds of reset in one history: the context names the exact edit sequence (a known finding of one sequence must not hide another one)
            ctx = (any_cb && any_cc) ? "after-" + edits_so_far : any_cb ? "after-clearBestParticles" : any_cc ? "after-clearCache" : std::string("after-") + EDITNAME[op.v];
            if (clear_best){ best_init = false; user_best = false; for(size_t i=0;i<=n;i++) known[i] = false; for(size_t i=0;i<n;i++) pb[i].has = false; sb.has = false; reset_visits(); }
            if (set_best){ best_init = true; user_best = true; for(size_t i=0;i<=n;i++) known[i] = true; auto b = manual_best(c); for(size_t i=0;i<n;i++){ pb[i].has = false; for(size_t q=0;q<dm;q++) pb[i].x[q] = b[i*dm+q]; } sb.has = false; for(size_t q=0;q<dm;q++) sb.x[q] = b[n*dm+q]; reset_visits(); }
            if (clear_cache){ cache_valid = false; for(size_t i=0;i<n;i++){ has_cur[i] = false; pb[i].has = false; } sb.has = false; if (clear_best || set_best) reset_visits(); }
            continue;
        }
        if (ci >= ex.calls.size()) return;
        const CallObs &co = ex.calls[ci++]; size_t pos = co.ev_begin; int T = co.iters;
        std::vector<double> X = co.before.pos, V = co.before.vel, Xprev = X;
        auto kind = [&]()->std::string{ return pos < co.ev_end ? std::string(1, L.ev[pos].t) : std::string("end-of-call"); };
        // one evaluation round over m points: m domain tests, then one objective call on the points inside
        auto round = [&](const double *pts, size_t m, bool must_match, bool *in, double *val, double *got)->bool{
            size_t nin = 0; double cand[(MAXP + 1) * MAXD];
            for(size_t i=0;i<m;i++){
                if (pos >= co.ev_end || L.ev[pos].t != 'I'){ d.viol(div("C20:lockstep:expected-domain-test"), CJ, "call " + std::to_string(ci) + ": the model expects the domain test of point " + std::to_string(i) + ", the library continues with " + kind()); return false; }
                const Ev &e = L.ev[pos++]; if (e.nx != dm || (must_match && !same_bits_n(L.x(e), pts + i*dm, dm))){ d.viol(div("C20:lockstep:domain-test-argument"), CJ, "call " + std::to_string(ci) + ": domain test on " + vstr(L.x(e), e.nx) + " where the state holds " + vstr(pts + i*dm, dm)); return false; }
                for(size_t q=0;q<dm;q++) got[i*dm+q] = L.x(e)[q]; in[i] = e.ans; if (e.ans){ for(size_t q=0;q<dm;q++) cand[nin*dm+q] = L.x(e)[q]; nin++; }
            }
            if (nin > 0){
                if (pos >= co.ev_end || L.ev[pos].t != 'F'){ d.viol(div("C20:lockstep:expected-objective"), CJ, "call " + std::to_string(ci) + ": " + std::to_string(nin) + " points are inside but the library continues with " + kind()); return false; }
                const Ev &e = L.ev[pos++]; if (e.nx != nin * dm || e.ny != nin || !same_bits_n(L.x(e), cand, nin * dm)){ d.viol(div("C20:lockstep:objective-batch"), CJ, "call " + std::to_string(ci) + ": objective batch " + vstr(L.x(e), e.nx) + " is not the list of in-domain points " + vstr(cand, nin*dm)); return false; }
                size_t j = 0; for(size_t i=0;i<m;i++) val[i] = in[i] ? L.y(e)[j++] : 0.0;
            }else if (pos < co.ev_end && L.ev[pos].t == 'F'){ d.viol(div("C20:lockstep:objective-without-inside-point"), CJ, "call " + std::to_string(ci) + ": no point is inside but the objective was called"); return false; }
            return true;
        };
        auto visit_particles = [&](const double *got, const bool *in, const double *val){ for(size_t i=0;i<n;i++){ has_cur[i] = true; cur_in[i] = in[i]; cur_f[i] = val[i]; for(size_t q=0;q<dm;q++) cur_x[i][q] = got[i*dm+q]; tot_visits++; if (in[i]){ in_visits++; Visit v; for(size_t q=0;q<dm;q++) v.x[q] = got[i*dm+q]; v.f = val[i]; visits[i].push_back(v); all.push_back(v); } } };
        bool in[MAXP + 1]; double val[MAXP + 1], got[(MAXP + 1) * MAXD];
        if (!cache_valid){
            if (!round(X.data(), n, true, in, val, got)) return; visit_particles(got, in, val);
            if (best_init){
                if (!round(co.before.best.data(), n + 1, true, in, val, got)) return;
                // a strip that never received a best (zero placeholder) is not a best-known position: its evaluation does not make it a visit
                for(size_t i=0;i<n;i++){ pb[i].has = in[i] && known[i]; pb[i].f = val[i]; for(size_t q=0;q<dm;q++) pb[i].x[q] = got[i*dm+q]; if (in[i] && known[i] && user_best){ Visit v; for(size_t q=0;q<dm;q++) v.x[q] = got[i*dm+q]; v.f = val[i]; visits[i].push_back(v); all.push_back(v); } }
                sb.has = in[n] && known[n]; sb.f = val[n]; for(size_t q=0;q<dm;q++) sb.x[q] = got[n*dm+q]; if (in[n] && known[n] && user_best){ Visit v; for(size_t q=0;q<dm;q++) v.x[q] = got[n*dm+q]; v.f = val[n]; all.push_back(v); }
            }
            cache_valid = true;
        }
        update(); best_init = true;
        for(int t=0;t<T;t++){
            size_t nd = sb.has ? 2 * n : n; double r[2 * MAXP];
            for(size_t q=0;q<nd;q++){ if (pos >= co.ev_end || L.ev[pos].t != 'R'){ d.viol(div("C20:lockstep:expected-draw"), CJ, "call " + std::to_string(ci) + " iteration " + std::to_string(t) + ": the model expects draw " + std::to_string(q) + " of " + std::to_string(nd) + ", the library continues with " + kind()); return; } r[q] = L.x(L.ev[pos++])[0]; }
            double expect[MAXP * MAXD]; bool normal[MAXP];
            for(size_t i=0;i<n;i++){ normal[i] = sb.has && pb[i].has; if (normal[i]) for(size_t q=0;q<dm;q++){ double x = X[i*dm+q]; double v = c.w() * V[i*dm+q] + c.c1() * r[2*i] * (pb[i].x[q] - x) + c.c2() * r[2*i+1] * (sb.x[q] - x); expect[i*dm+q] = x + v; } }
            if (!round(nullptr, n, false, in, val, got)) return;
            for(size_t i=0;i<n;i++){ d.evals++; if (normal[i] && !close_n(got + i*dm, expect + i*dm, dm, 1e-9)){ d.viol(div("C20:velocity-update-formula:" + ctx), CJ, "call " + std::to_string(ci) + " iteration " + std::to_string(t) + " particle " + std::to_string(i) + ": visited " + vstr(got + i*dm, dm) + " but x + w v + c1 r1 (best_i - x) + c2 r2 (best - x) = " + vstr(expect + i*dm, dm) + " with x = " + vstr(&X[i*dm], dm) + ", v = " + vstr(&V[i*dm], dm) + ", best_i = " + vstr(pb[i].x, dm) + ", best = " + vstr(sb.x, dm)); return; } }
            Xprev = X; for(size_t i=0;i<n*dm;i++){ V[i] = got[i] - X[i]; X[i] = got[i]; }
            visit_particles(got, in, val); update();
        }
        if (pos != co.ev_end){ d.viol(div("C20:lockstep:extra-callbacks"), CJ, "call " + std::to_string(ci) + ": " + std::to_string(co.ev_end - pos) + " callbacks more than the model (next " + kind() + ")"); return; }
        // positions and velocities as observed through the getters
        d.evals += 2;
        if (!same_bits(co.after.pos, X)){ d.viol("C20:positions-not-last-visit", CJ, "call " + std::to_string(ci) + ": positions " + vstr(co.after.pos) + " but the last points passed to the domain test are " + vstr(X)); return; }
        if (T > 0){ bool okv = true; for(size_t i=0;i<n*dm;i++) if (!same_bits(Xprev[i] + co.after.vel[i], co.after.pos[i])) okv = false; if (!okv){ d.viol("C20:position-update", CJ, "call " + std::to_string(ci) + ": position != previous position + velocity: " + vstr(co.after.pos) + " vs " + vstr(Xprev) + " + " + vstr(co.after.vel)); return; } }
        else if (!same_bits(co.after.vel, co.before.vel)){ d.viol("C20:zero-iterations-changed-velocities", CJ, "a call with 0 iterations changed the velocities"); return; }
        if (!co.after.best_init || !co.after.cache_init) d.viol("C20:flags-after-call", CJ, "isBestPositionInitialized/isCacheInitialized false after ParticleSwarm");
        // bests against the logged in-domain visits (since the bests were last reset by the user)
        auto judge = [&](const double *b, const std::vector<Visit> &vs, const std::string &who)->bool{
            if (vs.empty()) return true; d.evals++;
            bool found = false; double fv = 0, fmin = vs[0].f; for(auto &v : vs){ fmin = std::min(fmin, v.f); if (same_bits_n(v.x, b, dm)){ if (!found || v.f < fv) fv = v.f; found = true; } }
            if (!found){ d.viol("C20:best-not-visited:" + ctx, CJ, "call " + std::to_string(ci) + " (" + prog_text(k.prog) + "): " + who + " best position " + vstr(b, dm) + " was never passed to the domain test/objective; " + std::to_string(vs.size()) + " in-domain visits logged, smallest value " + vf::jnum(fmin)); return false; }
            if (fv > fmin){ d.viol("C20:best-not-minimum:" + ctx, CJ, "call " + std::to_string(ci) + " (" + prog_text(k.prog) + "): " + who + " best position " + vstr(b, dm) + " has logged value " + vf::jnum(fv) + " but a visit with value " + vf::jnum(fmin) + " was logged"); return false; }
            return true; };
        bool okb = true; for(size_t i=0;i<n && okb;i++) okb = judge(&co.after.best[i*dm], visits[i], "particle " + std::to_string(i));
        if (okb) okb = judge(&co.after.best[n*dm], all, "swarm");
        if (!okb) return;
        if (!all.empty()){ double bf = my_obj(c, &co.after.best[n*dm]); d.evals++; if (have_prev_best_f && bf > prev_best_f){ d.viol("C20:swarm-best-increased:" + ctx, CJ, "call " + std::to_string(ci) + ": the swarm best went from " + vf::jnum(prev_best_f) + " to " + vf::jnum(bf)); return; } have_prev_best_f = true; prev_best_f = bf; }
        d.state(hcomb(ph, hbytes(ex.used.data(), std::min(co.draws, ex.used.size()), ci)));
    }
}

static void exec_case(const Cfg &c, const Case &k, Delta &d){
    Exec ex; run_library(c, k.prog, k.s, ex); d.execs++;
    long inv = 0, totv = 0; check_exec(c, k, ex, d, inv, totv);
    if (k.kind == 'A' || k.kind == 'D'){ // the raw-array overloads and the C interface are the same machine: identical executions on the same program and answers
        std::string ed = EDITNAME[0]; for(auto &op : k.prog) if (op.t == 'E') ed = EDITNAME[op.v];
        for(int api=1; api<=2; api++){ Exec ea; run_library(c, k.prog, k.s, ea, api); d.execs++; d.evals++; std::string df = exec_difference(ex, ea);
            if (!df.empty()) d.viol(std::string("C20:api-variants-differ:") + APINAME[api] + ":" + ed, CJ, std::string(APINAME[api]) + " and " + APINAME[0] + " executions of " + prog_text(k.prog) + " differ: " + df); }
    }
    if (ex.calls.empty()) return;
    const Snap &fin = ex.calls.back().after;
    d.dist(hcomb(c.hash(), hcomb(hvec(fin.pos), hcomb(hvec(fin.vel), hvec(fin.best)))));
    { char b[64]; snprintf(b, sizeof(b), "in-domain visits %ld/%ld", inv, totv); d.outcome(b); }
    if (k.kind == 'C' && ex.thrown.empty()){
        int T = 0; for(auto &op : k.prog) T += op.v; Case joint{'J', {{'R', T}}, k.s}; Exec ej; run_library(c, joint.prog, joint.s, ej); d.execs++;
        long a = 0, b = 0; check_exec(c, joint, ej, d, a, b);
        if (ej.calls.size() != 1) return; const Snap &jo = ej.calls[0].after; d.evals += 4;
        const char *what = !same_bits(jo.pos, fin.pos) ? "positions" : !same_bits(jo.vel, fin.vel) ? "velocities" : !same_bits(jo.best, fin.best) ? "best-positions" : (ex.used != ej.used) ? "random-stream" : nullptr;
        if (what) d.viol(std::string("C20:split-run-differs:") + what, CJ, prog_text(k.prog) + " ends with positions " + vstr(fin.pos) + ", best " + vstr(fin.best) + ", " + std::to_string(ex.used.size()) + " draws; the single call of " + std::to_string(T) + " iterations with positions " + vstr(jo.pos) + ", best " + vstr(jo.best) + ", " + std::to_string(ej.used.size()) + " draws");
    }
}
static std::string crash_signature(const vf::Outcome &o, long last_sym){ std::string cls, fn; crash_class(o, cls, fn); return "C20:" + cls + ":" + fn + ":rng=" + (last_sym >= 0 ? symname((int) last_sym) : std::string("none")); }

// ---------------------------------------------------------------- main
struct UnitDef { int np, d, dom; };
int main(int argc, char **argv){
    reexec_with_small_quarantine(argv);
    vf::Args A(argc, argv); g_tier = A.get("--tier", "quick");
    double dl = A.getd("--deadline", 0); if (dl > 0) vf::g_deadline = vf::now() + dl;
    if (A.has("--replay")){
        std::string v = vf::slurp(A.get("--replay")); std::string cs = vf::jget(v, "case"); Cfg c = Cfg::parse(vf::jget(cs, "cfg"));
        Case k; k.kind = vf::jget(cs, "kind").empty() ? 'A' : vf::jget(cs, "kind")[0]; k.prog = prog_parse(vf::jget(cs, "prog")); k.s = str_parse(vf::jget(cs, "rng"));
        shared_init();
        if (A.has("--dump")){ Exec ex; run_library(c, k.prog, k.s, ex); for(auto &e : ex.log.ev) fprintf(stderr, "%c %s%s%s\n", e.t, vstr(ex.log.x(e), e.nx).c_str(), e.t == 'I' ? (e.ans ? " inside" : " outside") : "", e.ny ? (" -> " + vstr(ex.log.y(e), e.ny)).c_str() : ""); for(auto &co : ex.calls) fprintf(stderr, "call(%d): pos %s vel %s best %s\n", co.iters, vstr(co.after.pos).c_str(), vstr(co.after.vel).c_str(), vstr(co.after.best).c_str()); }
        vf::Outcome o = vf::run_child([&](int fd){ Delta d; exec_case(c, k, d); for(auto &vv : d.viols) if (!vv.case_json.empty()) vf::wr(fd, vf::J().s("t","viol").s("sig", vv.sig).s("unit","replay").raw("case", vv.case_json).s("detail", vv.detail).str() + "\n"); }, 120.0);
        if (!o.out.empty()) vf::emit(o.out.substr(0, o.out.size() - 1));
        if (o.kind != vf::Outcome::OK) vf::violation(crash_signature(o, g_sh->last_sym), "replay", case_json(c, k), o.describe() + " after " + std::to_string(g_sh->draws) + " draws: " + o.err.substr(0, 1200));
        vf::emit(vf::J().s("t","summary").s("replay", o.describe())); return 0;
    }
    bool th = (g_tier == "thorough");
    std::vector<UnitDef> U; for(int np=3;np>=1;np--) for(int d=2;d>=1;d--) for(int dom=0;dom<5;dom++) U.push_back({np, d, dom});
    size_t done = vf::parallel_units(U.size(), (int) A.geti("--workers", 8), [&](size_t ui){
        const UnitDef &u = U[ui]; Runner R; double t0 = vf::now();
        R.unit = "p" + std::to_string(u.np) + "/d" + std::to_string(u.d) + "/" + DOMNAME[u.dom];
        long ncfg = 0, ncases = 0; std::string sample;
        for(int coef=0; coef<4 && R.complete; coef++) for(int obj=0; obj<2 && R.complete; obj++){
            if (!th && u.np == 3 && ((coef + obj) % 2 == 1)) continue; // quick: half of the (coefficient, objective) pairs for the largest swarm
            Cfg c; c.np = u.np; c.d = u.d; c.dom = u.dom; c.coef = coef; c.obj = obj;
            std::vector<Case> cases = make_cases(c);
            R.exec = [&](size_t idx, Delta &d){ exec_case(c, cases[idx], d); };
            R.on_crash = [&](size_t idx, const vf::Outcome &o, long draws, long last_sym){ std::string sig = crash_signature(o, last_sym); R.record(sig, case_json(c, cases[idx]), o.describe() + " after " + std::to_string(draws) + " draws: " + o.err.substr(0, 900)); R.st.outcomes["crash " + sig]++; };
            R.run(cases.size()); ncfg++; ncases += (long) cases.size();
            if (sample.empty() && !cases.empty()) sample = case_json(c, cases[cases.size() - 1 - cases.size() / 7]);
        }
        R.emit_unit(vf::now() - t0, "\"configs\":" + std::to_string(ncfg) + ",\"cases\":" + std::to_string(ncases));
        if (!sample.empty()) vf::emit(vf::J().s("t","sample").raw("case", sample));
    });
    vf::emit(vf::J().s("t","summary").i("units_total", (long long) U.size()).i("units_done", (long long) done)
        .s("bound", std::string("C20 tier=") + g_tier + ": particles{1,2,3} x dims{1,2} x domains{everything, box containing the swarm, box excluding some particles, box excluding the initial swarm, nothing} x 4 coefficient sets x 2 objectives"
           + (th ? "" : " (quick: half of the coefficient/objective pairs for 3 particles)") + "; answer strings over {0,.25,.5,.75,1}: one iteration exhaustive (5^(2 particles)); 3 iterations with <= " + (th ? "2 (3 for <= 2 particles)" : "2 (1 for 3 particles, 2 over 2 iterations)") + " deviations; "
           + "all splittings of 1.." + (th ? "4" : "3") + " iterations over 2-3 calls x <= " + (th ? "2" : "1") + " deviations; run(n); edit; run(m), n,m in {0,1,2}, 6 edits x <= 1 deviation" + (th ? "; run(1); e1; run(1); e2; run(1) for all 36 edit pairs" : ""))
        .b("exhaustive", done == U.size() && !vf::past_deadline()));
    return 0;
}
