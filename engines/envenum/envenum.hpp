// envenum.hpp - engine E-E: the callbacks ARE the environment.
//   * scripted random-number callback answering from an enumerated answer string over {0, 1/4, 1/2, 3/4, 1}
//   * enumerators: exhaustive strings of a given length (optionally inside a window), strings with <= k deviations from the default answer
//   * chunked execution of cases in forked children with a shared progress page, so that a crash / sanitizer report / hang is
//     attributed to the exact case and the exact answer that triggered it; children stream deltas of the statistics back
//   * per-signature caps on violation records
// No Tasmanian dependency.
#ifndef ENVENUM_HPP
#define ENVENUM_HPP
#include "vf.hpp"
#include <set>
#include <map>
#include <unordered_set>
#include <algorithm>

namespace ee {

static const double SYM[5] = {0.0, 0.25, 0.5, 0.75, 1.0};
static const int NSYM = 5, DEF = 2;
typedef std::vector<unsigned char> Str;

inline std::string str_json(const Str &s){ std::string o = "["; for(size_t i=0;i<s.size();i++){ if (i) o += ","; o += std::to_string((int) s[i]); } return o + "]"; }
inline Str str_parse(const std::string &arr){ Str s; for(long v : vf::jints(arr)) s.push_back((unsigned char) v); return s; }
inline std::string symname(int a){ const char *n[5] = {"0.0", "0.25", "0.5", "0.75", "1.0"}; return (a >= 0 && a < 5) ? n[a] : "?"; }

// ---------------------------------------------------------------- shared progress page (parent <-> child)
struct Shared { volatile long cur_case, draws, last_sym, aux; };
static Shared *g_sh = nullptr;
inline void shared_init(){ if (!g_sh){ g_sh = (Shared*) mmap(nullptr, 4096, PROT_READ | PROT_WRITE, MAP_SHARED | MAP_ANONYMOUS, -1, 0); g_sh->cur_case = -1; g_sh->draws = 0; g_sh->last_sym = -1; g_sh->aux = 0; } }

// ---------------------------------------------------------------- cheap repeated sanitizer reports
// A symbolised AddressSanitizer report costs ~0.3 s. The first report at a program counter is taken in full; the parent remembers
// (pc -> report text). Children are forked from the parent, so addresses agree: when the same pc faults again the weak hook below
// prints one line and exits, and the parent substitutes the remembered report. Unknown pcs always get the full report.
struct KnownPc { void *pc; int id; };
static KnownPc g_known_pc[64]; static int g_nknown = 0; static std::vector<std::string> *g_known_report = nullptr;
inline void learn_report(const std::string &err){
    size_t p = err.find(" at pc 0x"); if (p == std::string::npos || g_nknown >= 64) return;
    unsigned long long pc = strtoull(err.c_str() + p + 7, nullptr, 16); if (!pc) return;
    for(int i=0;i<g_nknown;i++) if (g_known_pc[i].pc == (void*) pc) return;
    if (!g_known_report) g_known_report = new std::vector<std::string>();
    g_known_pc[g_nknown] = {(void*) pc, g_nknown}; g_nknown++; g_known_report->push_back(err);
}
// replaces a one-line report by the remembered full report of the same pc (no-op otherwise)
inline void expand_report(vf::Outcome &o){
    size_t p = o.err.find("FASTCRASH id="); if (p == std::string::npos){ if (o.kind == vf::Outcome::SANITIZER) learn_report(o.err); return; }
    int id = atoi(o.err.c_str() + p + 13); if (g_known_report && id >= 0 && id < (int) g_known_report->size()) o.err = (*g_known_report)[(size_t) id];
}

// ---------------------------------------------------------------- scripted random numbers
struct Script {
    Str s; size_t pos = 0; Str used;
    void reset(const Str &str){ s = str; pos = 0; used.clear(); }
    double next(){ int a = (pos < s.size()) ? s[pos] : DEF; pos++; used.push_back((unsigned char) a); if (g_sh){ g_sh->last_sym = a; g_sh->draws = (long) pos; } return SYM[a]; }
};

// ---------------------------------------------------------------- enumerators
inline size_t ipow(size_t b, int e){ size_t r = 1; for(int i=0;i<e;i++) r *= b; return r; }
// idx-th string (0 <= idx < 5^L) of length off+L: default everywhere except the window [off, off+L), idx 0 = all default
inline Str window_string(size_t idx, int off, int L){ Str s((size_t)(off + L), (unsigned char) DEF); for(int i=0;i<L;i++){ s[(size_t)(off + i)] = (unsigned char)((DEF + idx % NSYM) % NSYM); idx /= NSYM; } return s; }
// all strings of length P with exactly 0, then 1, ..., then k deviations from the default answer (bound iterated)
inline void deviation_strings(int P, int k, std::vector<Str> &out, int exactly_from = 0){
    Str base((size_t) P, (unsigned char) DEF);
    std::function<void(Str&, int, int)> rec = [&](Str &s, int from, int left){
        if (left == 0){ out.push_back(s); return; }
        for(int p = from; p < P; p++) for(int a = 0; a < NSYM; a++){ if (a == DEF) continue; s[(size_t) p] = (unsigned char) a; rec(s, p + 1, left - 1); s[(size_t) p] = (unsigned char) DEF; }
    };
    for(int m = exactly_from; m <= k; m++){ Str s = base; rec(s, 0, m); }
}
inline size_t count_deviation_strings(int P, int k){ size_t tot = 0; for(int m=0;m<=k;m++){ double c = 1; for(int i=0;i<m;i++) c = c * (P - i) / (i + 1); tot += (size_t)(c + 0.5) * ipow(4, m); } return tot; }

// ---------------------------------------------------------------- statistics and deltas
inline uint64_t h64(const std::string &s){ return vf::mix(vf::fnv(s.data(), s.size())); }
inline uint64_t hcomb(uint64_t a, uint64_t b){ return vf::mix(a ^ (b + 0x9e3779b97f4a7c15ULL + (a << 6) + (a >> 2))); }
inline uint64_t hbytes(const void *p, size_t n, uint64_t seed = 0){ return vf::mix(vf::fnv(p, n, 1469598103934665603ULL ^ seed)); }
inline uint64_t hvec(const std::vector<double> &v, uint64_t seed = 0){ return hbytes(v.data(), v.size() * sizeof(double), seed ^ v.size()); }

struct Stats {
    long execs = 0, evals = 0, transitions = 0, skipped = 0, crashes = 0, nviol = 0;
    std::unordered_set<uint64_t> states, distinct; std::map<std::string, long> outcomes; std::map<std::string, long> sigcount;
};
struct Viol { std::string sig, case_json, detail; };
struct Delta {
    long execs = 0, evals = 0, transitions = 0, skipped = 0;
    std::vector<uint64_t> states, distinct; std::map<std::string, long> outcomes; std::vector<Viol> viols;
    std::unordered_set<uint64_t> lstates, ldistinct; const Stats *base = nullptr; std::map<std::string, int> lsig;
    void state(uint64_t h){ if (base && base->states.count(h)) return; if (lstates.insert(h).second) states.push_back(h); }
    void dist(uint64_t h){ if (base && base->distinct.count(h)) return; if (ldistinct.insert(h).second) distinct.push_back(h); }
    void outcome(const std::string &k){ outcomes[k]++; }
    // a child keeps at most 3 records per signature (the parent caps again per unit); the count is always exact
    void viol(const std::string &sig, const std::string &case_json, const std::string &detail){ int &c = lsig[sig]; c++; if (c <= 3) viols.push_back({sig, case_json, detail}); else viols.push_back({sig, "", ""}); }
    std::string serialize(size_t next) const{
        std::ostringstream o; o << "B " << next << " " << execs << " " << evals << " " << transitions << " " << skipped << " " << outcomes.size() << " " << viols.size() << "\nS";
        char b[24]; for(auto h : states){ snprintf(b, sizeof(b), " %llx", (unsigned long long) h); o << b; } o << "\nD"; for(auto h : distinct){ snprintf(b, sizeof(b), " %llx", (unsigned long long) h); o << b; } o << "\n";
        for(auto &kv : outcomes) o << "O " << kv.second << " " << kv.first << "\n";
        for(auto &v : viols) o << "V " << vf::jesc(v.sig) << "\t" << (v.case_json.empty() ? "{}" : v.case_json) << "\t" << vf::jesc(v.detail) << "\n";
        o << "E\n"; return o.str(); }
    void reset_counts(){ execs = evals = transitions = skipped = 0; states.clear(); distinct.clear(); outcomes.clear(); viols.clear(); }
};

// ---------------------------------------------------------------- chunked runner
struct Runner {
    std::string unit; Stats st; double child_timeout = 300.0; size_t chunk = 16384, flush_every = 128; int max_crashes = 12; int max_records_per_sig = 3;
    bool complete = true; std::set<size_t> crashed;
    std::function<void(size_t, Delta&)> exec;                                  // child: run case idx, check the oracles
    std::function<bool(size_t)> skip;                                          // child: case subsumed by an established crash signature
    std::function<void(size_t, const vf::Outcome&, long, long)> on_crash;      // parent: (idx, outcome, draws consumed, last symbol)

    void record(const std::string &sig, const std::string &case_json, const std::string &detail){
        long &c = st.sigcount[sig]; c++; st.nviol++;
        if (c <= max_records_per_sig && !case_json.empty() && case_json != "{}") vf::violation(sig, unit, case_json, detail);
    }
    static std::string unesc(const std::string &q){ return vf::jget("{\"v\":" + q + "}", "v"); }
    // parses the complete messages of a child; returns the index after the last case covered by a complete message (or start)
    size_t absorb(const std::string &out, size_t start){
        size_t k = start, p = 0;
        while(p < out.size()){
            size_t e = out.find("\nE\n", p); if (e == std::string::npos) break;
            std::string msg = out.substr(p, e - p); p = e + 3;
            std::istringstream in(msg); std::string line; size_t next = k;
            while(std::getline(in, line)){
                if (line.empty()) continue;
                if (line[0] == 'B'){ long a, b, c, d, no, nv; unsigned long nx; if (sscanf(line.c_str(), "B %lu %ld %ld %ld %ld %ld %ld", &nx, &a, &b, &c, &d, &no, &nv) == 7){ next = nx; st.execs += a; st.evals += b; st.transitions += c; st.skipped += d; } }
                else if (line[0] == 'S' || line[0] == 'D'){ const char *q = line.c_str() + 1; char *end; while(*q){ while(*q == ' ') q++; if (!*q) break; unsigned long long h = strtoull(q, &end, 16); if (end == q) break; (line[0] == 'S' ? st.states : st.distinct).insert((uint64_t) h); q = end; } }
                else if (line[0] == 'O'){ long n = 0; int off = 0; if (sscanf(line.c_str(), "O %ld %n", &n, &off) >= 1) st.outcomes[line.substr((size_t) off)] += n; }
                else if (line[0] == 'V'){ size_t t1 = line.find('\t'), t2 = line.find('\t', t1 + 1); if (t1 != std::string::npos && t2 != std::string::npos){ record(unesc(line.substr(2, t1 - 2)), line.substr(t1 + 1, t2 - t1 - 1), unesc(line.substr(t2 + 1))); } }
            }
            k = next;
        }
        return k;
    }
    // runs cases [0, ncases); returns false when the deadline or the crash cap stopped it
    bool run(size_t ncases){
        shared_init(); size_t k = 0; int ncr = 0; crashed.clear();
        while(k < ncases){
            if (vf::past_deadline()){ complete = false; return false; }
            if (ncr >= max_crashes){ vf::emit(vf::J().s("t","note").s("text", unit + ": stopped after " + std::to_string(ncr) + " crashing cases, " + std::to_string(ncases - k) + " cases not run")); complete = false; return false; }
            size_t start = k, end = std::min(ncases, k + chunk);
            g_sh->cur_case = -1; g_sh->draws = 0; g_sh->last_sym = -1;
            vf::Outcome o = vf::run_child([&](int fd){
                Delta d; d.base = &st; size_t since = 0, idx = start;
                for(; idx < end; idx++){
                    if (vf::past_deadline()) break;
                    g_sh->cur_case = (long) idx; g_sh->draws = 0; g_sh->last_sym = -1;
                    if (crashed.count(idx)){ /* already accounted by the parent */ }
                    else if (skip && skip(idx)) d.skipped++;
                    else exec(idx, d);
                    if (++since >= flush_every){ vf::wr(fd, d.serialize(idx + 1)); d.reset_counts(); since = 0; }
                }
                vf::wr(fd, d.serialize(idx));
            }, child_timeout);
            k = absorb(o.out, start);
            expand_report(o);
            if (o.kind != vf::Outcome::OK){
                long c = g_sh->cur_case;
                if (c < (long) k || c >= (long) end){ vf::emit(vf::J().s("t","error").s("what", unit + ": child failed (" + o.describe() + ") outside a case: " + o.err.substr(0, 400))); complete = false; return false; }
                crashed.insert((size_t) c); st.execs++; st.crashes++; ncr++;
                if (on_crash) on_crash((size_t) c, o, g_sh->draws, g_sh->last_sym);
                // cases in [k, c) were executed but their results were not flushed: they are re-run by the next child
            }else if (k < end && !vf::past_deadline()){ vf::emit(vf::J().s("t","error").s("what", unit + ": child stopped early without failure")); complete = false; return false; }
        }
        return true;
    }
    void emit_unit(double wall, const std::string &extra_json_fields = ""){
        std::string j = vf::J().s("t","unit").s("unit", unit).i("states", (long long) st.states.size()).i("transitions", st.transitions).i("execs", st.execs).i("evals", st.evals)
            .i("distinct", (long long) st.distinct.size()).i("skipped", st.skipped).i("crashes", st.crashes).i("violations", st.nviol).n("wall", wall).b("complete", complete).str();
        if (!extra_json_fields.empty()){ j.pop_back(); j += "," + extra_json_fields + "}"; }
        vf::emit(j);
        for(auto &kv : st.outcomes) vf::emit(vf::J().s("t","outcome").s("key", kv.first).i("n", kv.second));
        { std::string txt; for(auto &kv : st.sigcount) if (kv.second > max_records_per_sig) txt += (txt.empty() ? "" : ", ") + std::to_string(kv.second) + " x " + kv.first; if (!txt.empty()) vf::emit(vf::J().s("t","note").s("text", unit + ": occurrences (at most " + std::to_string(max_records_per_sig) + " recorded per signature): " + txt)); }
        if (!complete) vf::emit(vf::J().s("t","incomplete").s("unit", unit));
    }
};

// The chunk children allocate and free small vectors all the time; with AddressSanitizer's default 256 MB quarantine every child
// touches fresh pages for a long while (measured: 40% of the run was system time). The options are read before main(), so the
// harness re-executes itself once with a small quarantine appended to ASAN_OPTIONS (recent frees are still quarantined).
inline void reexec_with_small_quarantine(char **argv){
    if (getenv("ENVENUM_REEXEC")) return;
    const char *old = getenv("ASAN_OPTIONS"); std::string v = (old && *old) ? std::string(old) + ":" : std::string(); v += "quarantine_size_mb=16";
    setenv("ASAN_OPTIONS", v.c_str(), 1); setenv("ENVENUM_REEXEC", "1", 1);
    execv("/proc/self/exe", argv);
}

// short stable class of an abnormal child outcome: oob-read / oob-write / heap-use-after-free / ub:... / signal(n) / timeout, and the Tasmanian function
inline void crash_class(const vf::Outcome &o, std::string &cls, std::string &fn){
    fn = "?";
    if (o.kind == vf::Outcome::SANITIZER){
        std::string sc = o.sanitizer_class(); size_t p = sc.find(" in "); cls = sc.substr(0, p); fn = (p == std::string::npos) ? "?" : sc.substr(p + 4);
        size_t c = fn.rfind("::"); if (c != std::string::npos) fn = fn.substr(c + 2);
        if (cls.find("buffer-overflow") != std::string::npos || cls.find("buffer-underflow") != std::string::npos){
            bool rd = o.err.find("READ of size") != std::string::npos; cls = rd ? "oob-read" : "oob-write"; }
        for(auto &ch : cls) if (ch == ' ') ch = '-';
    }else if (o.kind == vf::Outcome::TIMEOUT) cls = "hang";
    else cls = o.describe();
}

inline bool same_bits(double a, double b){ return std::memcmp(&a, &b, sizeof(double)) == 0 || (std::isnan(a) && std::isnan(b)); }
inline bool same_bits(const std::vector<double> &a, const std::vector<double> &b){ if (a.size() != b.size()) return false; for(size_t i=0;i<a.size();i++) if (!same_bits(a[i], b[i])) return false; return true; }
inline bool close(double a, double b, double tol = 1e-12){ if (std::isnan(a) || std::isnan(b)) return std::isnan(a) && std::isnan(b); if (std::isinf(a) || std::isinf(b)) return a == b; return std::fabs(a - b) <= tol * (1.0 + std::max(std::fabs(a), std::fabs(b))); }
inline bool close(const std::vector<double> &a, const std::vector<double> &b, double tol = 1e-12){ if (a.size() != b.size()) return false; for(size_t i=0;i<a.size();i++) if (!close(a[i], b[i], tol)) return false; return true; }
inline bool same_bits_n(const double *a, const double *b, size_t n){ for(size_t i=0;i<n;i++) if (!same_bits(a[i], b[i])) return false; return true; }
inline bool close_n(const double *a, const double *b, size_t n, double tol = 1e-12){ for(size_t i=0;i<n;i++) if (!close(a[i], b[i], tol)) return false; return true; }
inline std::string vstr(const double *v, size_t n){ std::ostringstream o; o.precision(17); o << "("; for(size_t i=0;i<n;i++){ if (i) o << ","; o << v[i]; } o << ")"; return o.str(); }
inline std::string vstr(const std::vector<double> &v){ std::ostringstream o; o.precision(17); o << "("; for(size_t i=0;i<v.size();i++){ if (i) o << ","; o << v[i]; } o << ")"; return o.str(); }

} // namespace ee

extern "C" void *__asan_get_report_pc() __attribute__((weak));
extern "C" void __asan_on_error(){
    if (!__asan_get_report_pc || ee::g_nknown == 0) return;
    void *pc = __asan_get_report_pc();
    for(int i=0;i<ee::g_nknown;i++) if (ee::g_known_pc[i].pc == pc){ char b[96]; int n = snprintf(b, sizeof(b), "AddressSanitizer: FASTCRASH id=%d\n", ee::g_known_pc[i].id); ssize_t w = ::write(2, b, (size_t) n); (void) w; _exit(77); }
}
#endif
