// gomp_shim.hpp - substitute of the OpenMP runtime for the 12 entry points that the Tasmanian objects import when compiled
// with g++ -fopenmp (GOMP_parallel, GOMP_barrier, GOMP_critical_start/end, GOMP_critical_name_start/end,
// GOMP_loop_nonmonotonic_dynamic_start/next, GOMP_loop_end, GOMP_loop_end_nowait, omp_get_num_threads, omp_get_thread_num).
// The harness is linked WITHOUT -fopenmp / -lgomp, so these definitions are the runtime.
//
// Two modes, selected at compile time:
//  * controlled (default; variant omp): the team of a parallel region consists of *managed* threads of the cooperative
//    scheduler of ../sched/sched.hpp (vs::schedule / vs::choose). Exactly one thread runs at a time. Choice points:
//      'r' region start (who runs first), 'l' critical entry (blocks while the lock is owned: state WANT_LOCK of the scheduler),
//      'u' critical exit, 'd' every dynamic chunk acquisition (start and next), 'b' barrier arrival (GOMP_barrier, GOMP_loop_end:
//      the arriving thread is disabled (COND_WAIT) until the last one arrives and re-enables all), 'n' GOMP_loop_end_nowait,
//      'x' end of a team thread, 'e' master waiting at the implicit join.  schedule(static) loops are computed inline by gcc from
//      omp_get_num_threads/omp_get_thread_num and contain no choice point.  Nested regions run with a team of 1.
//      Team threads are pooled (parked as COND_WAIT between regions); after fork() the pool is rebuilt lazily.
//  * free (-DVS_NO_INTERPOSE on the command line; variant ompt = ThreadSanitizer): real pthread team per region, pthread mutexes,
//    mutex/condvar barrier - so that TSan sees every synchronisation and no uninstrumented libgomp internals.
#ifndef GOMP_SHIM_HPP
#define GOMP_SHIM_HPP
#ifdef VS_NO_INTERPOSE
#define GS_FREE 1
#else
#define VS_NO_INTERPOSE 1   // the team threads are registered with the scheduler directly; no pthread interposition is needed
#endif
#include "../sched/sched.hpp"
#include <link.h>
#include <deque>

namespace gs {
struct WorkShare { long next = 0, end = 0, incr = 1, chunk = 1; int left = 0; bool init = false; };
struct Team {
    int n = 1; void (*fn)(void*) = nullptr; void *data = nullptr;
    std::map<long, WorkShare> ws;          // work shares by per-thread sequence number
    int bar_arrived = 0; std::vector<int> bar_wait; long bar_gen = 0;
    int end_arrived = 0; int master = 0;
#ifdef GS_FREE
    pthread_mutex_t m; pthread_cond_t cv;
#endif
};
static Team solo;                              // orphaned work-sharing constructs outside any region
static __thread Team *team = nullptr; static __thread int tnum = 0; static __thread long ws_seq = 0;
static int team_size = 1;                      // team size for outermost regions (set by the harness)
static bool fine_points = true;                // also place choice points after critical exit, after loop-end-nowait and between obtaining a dynamic chunk and executing it
                                               // (redundant under data-race freedom: no visible operation follows before the next choice point; they expose racy code, e.g. a missing barrier)
// measured facts
static long n_regions = 0, n_nested = 0, n_crit = 0, n_chunks = 0, n_barriers = 0, n_dynloops = 0, n_nowait = 0;
static std::map<void*, long> region_fns;       // outlined function -> number of outermost executions
static std::map<void*, long> nested_fns;       // outlined function -> number of nested (serialised) executions
static bool tracing = false; static std::string trace;   // assignment trace of the explored region
static std::function<void(long, void*)> on_region_begin;  // (index of outermost region, outlined function) - before the team starts
static std::function<void(long)> on_region_end;
static inline void tr(const char *what, long a = -1){ if (!tracing) return; trace += what; trace += std::to_string(tnum); if (a >= 0){ trace += ':'; trace += std::to_string(a); } trace += ' '; }
static inline Team *cur(){ return team ? team : &solo; }

static inline bool take_chunk(WorkShare &w, long *s, long *e){
    if ((w.incr > 0 && w.next >= w.end) || (w.incr < 0 && w.next <= w.end)) return false;
    *s = w.next; long n = w.next + w.chunk * w.incr;
    if ((w.incr > 0 && (n > w.end || n < w.next)) || (w.incr < 0 && (n < w.end || n > w.next))) n = w.end;
    *e = n; w.next = n; __sync_fetch_and_add(&n_chunks, 1); return true;
}
static inline void init_ws(WorkShare &w, Team *t, long start, long end, long incr, long chunk){
    if (w.init) return; w.init = true; w.next = start; w.incr = incr; w.chunk = chunk > 0 ? chunk : 1; w.left = t->n;
    w.end = ((incr > 0 && start > end) || (incr < 0 && start < end)) ? start : end; __sync_fetch_and_add(&n_dynloops, 1);
}

#ifndef GS_FREE
// ------------------------------------------------------------------------------------------------ controlled mode
struct Worker { int id; Team *team; int tnum; };
static std::vector<Worker*> pool;
static char crit_default;                      // address = key of the unnamed critical section
static inline bool managed(){ return vs::active && vs::self_id >= 0; }
static inline vs::Th *me(){ return vs::th[(size_t) vs::self_id]; }
// to be called in the child after fork(): only the calling thread exists
static void after_fork(){ vs::th.resize(1); pool.clear(); vs::current = 0; vs::self_id = 0; vs::points.clear(); vs::nsteps = 0; vs::owner.clear(); }
static void *worker_main(void *arg){
    Worker *w = (Worker*) arg;
    for(;;){
        Team *t = w->team; team = t; tnum = w->tnum; ws_seq = 0; tr("S");
        t->fn(t->data);
        tr("X"); team = nullptr; tnum = 0;
        t->end_arrived++; if (t->end_arrived == t->n) vs::th[(size_t) t->master]->st = vs::RUNNABLE;
        vs::th[(size_t) w->id]->st = vs::COND_WAIT;      // parked until the next region
        vs::schedule('x', "thread-end");
    }
    return nullptr;
}
static void ensure_pool(int nworkers){
    while((int) pool.size() < nworkers){
        Worker *w = new Worker(); vs::Th *n = new vs::Th(); n->st = vs::COND_WAIT; n->fn = worker_main; n->arg = w; n->id = (int) vs::th.size(); w->id = n->id;
        sem_init(&n->gate, 0, 0); vs::th.push_back(n); pool.push_back(w);
        pthread_attr_t a; pthread_attr_init(&a); pthread_attr_setstacksize(&a, 4u << 20);
        if (vs::r_create(&n->real, &a, vs::trampoline, n) != 0){ perror("pthread_create"); _exit(5); }
        pthread_attr_destroy(&a);
    }
}
static void barrier(Team *t, const char *name){
    if (t->n == 1) return; n_barriers++;
    t->bar_arrived++;
    if (t->bar_arrived == t->n){ t->bar_arrived = 0; for(int w : t->bar_wait) vs::th[(size_t) w]->st = vs::RUNNABLE; t->bar_wait.clear(); tr("B"); vs::schedule('b', name); }
    else { t->bar_wait.push_back(vs::self_id); me()->st = vs::COND_WAIT; tr("b"); vs::schedule('b', name); }
}
static void lock(void *key){ n_crit++; if (!managed()) return; vs::Th *t = me(); t->st = vs::WANT_LOCK; t->obj = key; vs::schedule('l', "critical"); t->st = vs::RUNNABLE; vs::owner[key] = t->id; tr("C"); }
static void unlock(void *key){ if (!managed()) return; vs::owner.erase(key); if (fine_points) vs::schedule('u', "critical-end"); }
#else
// ------------------------------------------------------------------------------------------------ free mode (TSan)
static pthread_mutex_t crit_default = PTHREAD_MUTEX_INITIALIZER, named_guard = PTHREAD_MUTEX_INITIALIZER, solo_m = PTHREAD_MUTEX_INITIALIZER;
static std::map<void*, pthread_mutex_t*> named;
struct FreeArg { Team *t; int tnum; };
static void *free_main(void *p){ FreeArg *a = (FreeArg*) p; team = a->t; tnum = a->tnum; ws_seq = 0; a->t->fn(a->t->data); team = nullptr; tnum = 0; return nullptr; }
static void barrier(Team *t, const char *){
    if (t->n == 1) return;
    pthread_mutex_lock(&t->m); __sync_fetch_and_add(&n_barriers, 1); long g = t->bar_gen;
    if (++t->bar_arrived == t->n){ t->bar_arrived = 0; t->bar_gen++; pthread_cond_broadcast(&t->cv); }
    else while(t->bar_gen == g) pthread_cond_wait(&t->cv, &t->m);
    pthread_mutex_unlock(&t->m);
}
static pthread_mutex_t *team_mutex(Team *t){ return t == &solo ? &solo_m : &t->m; }
#endif
} // namespace gs

extern "C" {
int omp_get_num_threads(){ return gs::team ? gs::team->n : 1; }
int omp_get_thread_num(){ return gs::tnum; }

void GOMP_parallel(void (*fn)(void*), void *data, unsigned num_threads, unsigned /*flags*/){
    using namespace gs;
    if (team != nullptr){ // nested region: team of one
        Team t1; t1.n = 1; Team *st = team; int sn = tnum; long sw = ws_seq;
#ifdef GS_FREE
        pthread_mutex_init(&t1.m, nullptr); pthread_cond_init(&t1.cv, nullptr); __sync_fetch_and_add(&n_nested, 1);
#else
        n_nested++; if (!tracing) nested_fns[(void*) fn]++;
#endif
        team = &t1; tnum = 0; ws_seq = 0;
        fn(data);
        team = st; tnum = sn; ws_seq = sw;
#ifdef GS_FREE
        pthread_mutex_destroy(&t1.m); pthread_cond_destroy(&t1.cv);
#endif
        return;
    }
    long r = n_regions++; region_fns[(void*) fn]++;
    if (on_region_begin) on_region_begin(r, (void*) fn);
    int T = num_threads ? (int) num_threads : team_size; if (T < 1) T = 1;
    Team t; t.n = T; t.fn = fn; t.data = data;
#ifndef GS_FREE
    if (T == 1 || !managed()){
        t.n = 1; team = &t; tnum = 0; ws_seq = 0; fn(data); team = nullptr;
    }else{
        ensure_pool(T - 1); t.master = vs::self_id; vs::nsteps = 0;
        for(int w = 1; w < T; w++){ pool[(size_t) w - 1]->team = &t; pool[(size_t) w - 1]->tnum = w; vs::th[(size_t) pool[(size_t) w - 1]->id]->st = vs::RUNNABLE; }
        team = &t; tnum = 0; ws_seq = 0;
        vs::schedule('r', "region-start"); tr("S");
        fn(data);
        tr("X"); t.end_arrived++;
        if (t.end_arrived < T){ me()->st = vs::COND_WAIT; vs::schedule('e', "region-join"); me()->st = vs::RUNNABLE; }
        team = nullptr; tnum = 0;
    }
#else
    pthread_mutex_init(&t.m, nullptr); pthread_cond_init(&t.cv, nullptr);
    std::vector<pthread_t> th((size_t) T); std::vector<FreeArg> args((size_t) T);
    for(int w = 1; w < T; w++){ args[(size_t) w].t = &t; args[(size_t) w].tnum = w; if (pthread_create(&th[(size_t) w], nullptr, free_main, &args[(size_t) w]) != 0){ perror("pthread_create"); _exit(5); } }
    team = &t; tnum = 0; ws_seq = 0; fn(data); team = nullptr;
    for(int w = 1; w < T; w++) pthread_join(th[(size_t) w], nullptr);
    pthread_mutex_destroy(&t.m); pthread_cond_destroy(&t.cv);
#endif
    if (on_region_end) on_region_end(r);
}
void GOMP_barrier(){ gs::barrier(gs::cur(), "barrier"); }
#ifndef GS_FREE
void GOMP_critical_start(){ gs::lock(&gs::crit_default); }
void GOMP_critical_end(){ gs::unlock(&gs::crit_default); }
void GOMP_critical_name_start(void **p){ gs::lock((void*) p); }
void GOMP_critical_name_end(void **p){ gs::unlock((void*) p); }
bool GOMP_loop_nonmonotonic_dynamic_start(long start, long end, long incr, long chunk, long *istart, long *iend){
    using namespace gs; Team *t = cur(); long id = ws_seq++;
    if (t->n > 1) vs::schedule('d', "dynamic-start");   // before the operation takes effect: another thread may open the work share first
    WorkShare &w = t->ws[id]; init_ws(w, t, start, end, incr, chunk);
    bool got = take_chunk(w, istart, iend); if (got){ tr("d", *istart); if (t->n > 1 && fine_points) vs::schedule('a', "chunk-acquired"); } return got;
}
bool GOMP_loop_nonmonotonic_dynamic_next(long *istart, long *iend){
    using namespace gs; Team *t = cur();
    if (t->n > 1) vs::schedule('d', "dynamic-next");
    WorkShare &w = t->ws[ws_seq - 1]; bool got = take_chunk(w, istart, iend); if (got){ tr("d", *istart); if (t->n > 1 && fine_points) vs::schedule('a', "chunk-acquired"); } return got;
}
void GOMP_loop_end(){ using namespace gs; Team *t = cur(); auto it = t->ws.find(ws_seq - 1); if (it != t->ws.end() && --it->second.left == 0) t->ws.erase(it); barrier(t, "loop-end"); }
void GOMP_loop_end_nowait(){ using namespace gs; Team *t = cur(); __sync_fetch_and_add(&n_nowait, 1); auto it = t->ws.find(ws_seq - 1); if (it != t->ws.end() && --it->second.left == 0) t->ws.erase(it); if (t->n > 1 && fine_points) vs::schedule('n', "loop-end-nowait"); }
#else
void GOMP_critical_start(){ pthread_mutex_lock(&gs::crit_default); gs::n_crit++; }
void GOMP_critical_end(){ pthread_mutex_unlock(&gs::crit_default); }
static pthread_mutex_t *gs_named(void **p){ pthread_mutex_lock(&gs::named_guard); pthread_mutex_t *&m = gs::named[(void*) p]; if (!m){ m = new pthread_mutex_t; pthread_mutex_init(m, nullptr); } pthread_mutex_t *r = m; pthread_mutex_unlock(&gs::named_guard); return r; }
void GOMP_critical_name_start(void **p){ pthread_mutex_lock(gs_named(p)); }
void GOMP_critical_name_end(void **p){ pthread_mutex_unlock(gs_named(p)); }
bool GOMP_loop_nonmonotonic_dynamic_start(long start, long end, long incr, long chunk, long *istart, long *iend){
    using namespace gs; Team *t = cur(); long id = ws_seq++; pthread_mutex_lock(team_mutex(t));
    WorkShare &w = t->ws[id]; init_ws(w, t, start, end, incr, chunk); bool got = take_chunk(w, istart, iend);
    pthread_mutex_unlock(team_mutex(t)); return got;
}
bool GOMP_loop_nonmonotonic_dynamic_next(long *istart, long *iend){
    using namespace gs; Team *t = cur(); pthread_mutex_lock(team_mutex(t)); WorkShare &w = t->ws[ws_seq - 1]; bool got = take_chunk(w, istart, iend); pthread_mutex_unlock(team_mutex(t)); return got;
}
static void gs_ws_done(gs::Team *t){ pthread_mutex_lock(gs::team_mutex(t)); auto it = t->ws.find(gs::ws_seq - 1); if (it != t->ws.end() && --it->second.left == 0) t->ws.erase(it); pthread_mutex_unlock(gs::team_mutex(t)); }
void GOMP_loop_end(){ gs::Team *t = gs::cur(); gs_ws_done(t); gs::barrier(t, "loop-end"); }
void GOMP_loop_end_nowait(){ gs::Team *t = gs::cur(); gs_ws_done(t); }
#endif
}

namespace gs {
// names of the outlined OpenMP functions of this executable (universe of parallel regions): offset -> enclosing function
struct Sym { std::map<unsigned long, std::string> byoff; unsigned long base = 0; };
static int phdr_cb(struct dl_phdr_info *info, size_t, void *data){ *(unsigned long*) data = (unsigned long) info->dlpi_addr; return 1; } // first entry = main program
static Sym load_symbols(const char *exe){
    Sym s; dl_iterate_phdr(phdr_cb, &s.base);
    std::string cmd = std::string("nm -C --defined-only '") + exe + "' 2>/dev/null"; FILE *p = popen(cmd.c_str(), "r"); if (!p) return s;
    char line[4096];
    while(fgets(line, sizeof(line), p)){
        char *q = strstr(line, "._omp_fn."); if (!q) continue;
        unsigned long off = strtoul(line, nullptr, 16); char *name = strchr(line, ' '); if (!name) continue; name = strchr(name + 1, ' '); if (!name) continue; name++;
        std::string full(name); while(!full.empty() && (full.back() == '\n' || full.back() == ' ')) full.pop_back();
        s.byoff[off] = full;
    }
    pclose(p); return s;
}
// "TasGrid::GridLocalPolynomial::buildUpdateMap(double, ...) const [clone ._omp_fn.0]" -> "GridLocalPolynomial::buildUpdateMap#0"
static std::string short_name(const std::string &full, bool keep_targs = false){
    std::string s = full; std::string idx; size_t c = s.find("._omp_fn."); if (c != std::string::npos){ idx = s.substr(c + 9); size_t e = idx.find_first_not_of("0123456789"); if (e != std::string::npos) idx = idx.substr(0, e); }
    size_t cl = s.find(" [clone"); if (cl != std::string::npos) s = s.substr(0, cl);
    // strip the argument list (last top-level parenthesis group) and template arguments
    int depth = 0; size_t cut = std::string::npos; for(size_t i = 0; i < s.size(); i++){ if (s[i] == '<') depth++; else if (s[i] == '>') depth--; else if (s[i] == '(' && depth == 0){ cut = i; break; } }
    if (cut != std::string::npos) s = s.substr(0, cut);
    std::string o; depth = 0; size_t lastsp = std::string::npos; for(char ch : s){ if (ch == '<'){ depth++; if (!keep_targs) continue; } if (ch == '>'){ depth--; if (!keep_targs) continue; } if (depth == 0 || keep_targs){ if (ch == ' ' && depth == 0) lastsp = o.size(); o += (ch == ' ' ? '_' : ch); } }
    if (lastsp != std::string::npos) o = o.substr(lastsp + 1);
    if (o.compare(0, 9, "TasGrid::") == 0) o = o.substr(9);
    return o + "#" + idx;
}
static std::string fn_name(const Sym &s, void *fn, bool shorten = true){
    auto it = s.byoff.find((unsigned long) fn - s.base); if (it == s.byoff.end()) return "?";
    return shorten ? short_name(it->second) : it->second;
}
}
#endif
