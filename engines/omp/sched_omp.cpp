// sched_omp - C13: results do not depend on the number of OpenMP threads nor on the scheduling of the parallel regions.
//
// The library is compiled with g++ -fopenmp (variant omp) and linked against the runtime substitute of gomp_shim.hpp, whose team
// threads are managed threads of the cooperative scheduler of ../sched/sched.hpp. Scripted operation histories (E-A alphabet of
// ../opseq/ops.hpp plus numeric "observer" operations) run on every grid family. Parallel regions are fork-join, so the schedules of
// different regions are independent: a *spine* process runs the history with the default (non-preemptive, round-robin) schedule and,
// on entry of the r-th outermost region, forks one child per schedule of that region with <= k deviations from the default
// (deviation-bounded DFS, same enumeration as vx::explore); the child finishes the region under its schedule and continues the
// history with the default schedule. Oracle on every execution: the observation after the step (binary write() bytes, structure
// through public getters, numeric outputs) equals the observation of the *serial* build (same harness, variant asan, no -fopenmp,
// run as a sub-process with --emit-ref): bitwise identical => the execution has merged with the spine (identical state => identical
// future) and stops at the end of the step (--tail history: at the end of the history); otherwise structure (integers and words of the
// ASCII write, getters) must be identical and floating values equal to 1e-13 relative to the magnitude, and the child continues to the end
// of the history. AddressSanitizer/UBSan reports, deadlocks, livelocks (scheduler) and time-outs are violations.
// Attribution: a difference seen by an execution child is reported under the function of the explored region, unless the spine itself
// (default schedule, same team size) differs from the serial build at that step - then one "default-schedule" violation is reported
// and the exploration of that history stops (everything later differs as a consequence). Failing schedules are re-executed and must
// reproduce identical observations before they are reported; --replay re-runs exactly one (history, team, region, choice vector).
// Work units: (history, team size, range of regions, bound); each worker process is pinned to one CPU (only one thread of its
// process tree runs at a time). A pre-pass runs every history once (team of 2) to count regions and to measure which of the outlined
// OpenMP functions of the executable (nm: *._omp_fn.*) are executed at all ("region coverage" note).
// Variant ompt (-DVS_NO_INTERPOSE, ThreadSanitizer): the same histories free-running on the shim's real pthread team (auxiliary pass).
// Variant asan (no -fopenmp): only --emit-ref (reference observations of the serial build).
// Debugging aids: --list, --only <substring>, --cfg/--steps (one custom history), --profile (per-step region counts and times),
// --bound k, --teams a,b, --coarse, --regions-per-unit n, --no-pin.
#include "gomp_shim.hpp"
#include "../opseq/ops.hpp"
#include "TasmanianOptimization.hpp"
#include "tsgSequenceOptimizer.hpp"
#include <limits.h>
#include <sched.h>
using namespace TasGrid;

// ================================================================================================ histories
struct Hist { std::string name, cfg; std::vector<std::string> steps; int tier; // 0 = quick and thorough, 1 = thorough only
    std::string steps_str() const{ std::string s; for(auto &t : steps){ if (!s.empty()) s += " "; s += t; } return s; }
    std::string fam() const{ if (cfg.compare(0, 3, "pso") == 0) return "pso"; if (cfg.compare(0, 3, "opt") == 0) return "optimizer"; size_t p = cfg.find("fam="); size_t e = cfg.find(';', p); return cfg.substr(p + 4, e - p - 4); } };
static std::vector<std::string> words(const std::string &s){ std::vector<std::string> w; std::istringstream in(s); std::string t; while(in >> t) w.push_back(t); return w; }

struct Ctx { TasmanianSparseGrid g; ea::Ref ref; tg::Cfg cfg; std::vector<double> num; std::string sx; bool pso = false; std::vector<int> psoarg; };

static std::vector<double> probes(const Ctx &c, int n){
    int d = c.g.getNumDimensions(); std::vector<double> x((size_t) n * d);
    for(int t=0;t<n;t++) for(int j=0;j<d;j++){
        double u = 0.31 + 0.6180339887498949 * (t + 1) + 0.2137 * j; u -= std::floor(u);
        double v = c.g.isFourier() ? u : (-0.97 + 1.94 * u);
        if (!c.cfg.ta.empty() && !c.g.isFourier()) v = c.cfg.ta[j] + (c.cfg.tb[j] - c.cfg.ta[j]) * 0.5 * (v + 1.0);
        if (!c.cfg.ta.empty() && c.g.isFourier()) v = c.cfg.ta[j] + (c.cfg.tb[j] - c.cfg.ta[j]) * v;
        x[(size_t) t * d + j] = v; }
    return x;
}
static void add(Ctx &c, const std::vector<double> &v){ c.num.insert(c.num.end(), v.begin(), v.end()); }
static void addi(Ctx &c, const char *k, const std::vector<int> &v){ c.sx += std::string(" ") + k + "="; for(int q : v){ c.sx += std::to_string(q); c.sx += ','; } }

static void run_pso(Ctx &c){
    using namespace TasOptimization; int np = c.psoarg[0], nd = c.psoarg[1], it = c.psoarg[2], dom = c.psoarg.size() > 3 ? c.psoarg[3] : 0;
    long cnt = 0; auto rng = [&]()->double{ cnt++; return 0.05 + 0.9 * (double) ((cnt * 37) % 101) / 101.0; };
    ParticleSwarmState st(nd, np); st.initializeParticlesInsideBox(std::vector<double>((size_t) nd, -1.0), std::vector<double>((size_t) nd, 1.0), rng);
    auto f = [nd](const std::vector<double> &x, std::vector<double> &y){ for(size_t i=0;i<y.size();i++){ double s = 0; for(int j=0;j<nd;j++){ double t = x[i*nd+j] - 0.2 * (j + 1); s += t * t * (1 + j) + 0.1 * std::sin(5 * x[i*nd+j]); } y[i] = s; } };
    auto inside = [nd, dom](const std::vector<double> &x)->bool{ for(int j=0;j<nd;j++) if (std::abs(x[j]) > 1.0) return false; if (dom == 1 && x[0] > 0.5) return false; if (dom == 2) return false; if (dom == 3) for(int j=0;j<nd;j++) if (std::abs(x[j]) > 0.5) return false; return true; };
    ParticleSwarm(f, inside, 0.5, 2.0, 2.0, it, st, rng);
    add(c, st.getParticlePositions()); add(c, st.getParticleVelocities()); add(c, st.getBestParticlePositions()); c.sx += " rng=" + std::to_string(cnt);
}

// one step of a history: an operation of the E-A alphabet (ops.hpp) or an observer operation "@name:a,b,c"
static void run_step(Ctx &c, const std::string &s){
    if (s[0] != '@'){ ea::Op op = ea::Op::parse(s); if (!ea::apply(c.g, op, c.ref)) c.sx += " pruned"; return; }
    size_t p = s.find(':'); std::string k = s.substr(1, p == std::string::npos ? std::string::npos : p - 1); std::vector<long> a; if (p != std::string::npos) a = vf::jints(s.substr(p + 1));
    auto A = [&](size_t i, long def)->long{ return i < a.size() ? a[i] : def; };
    TasmanianSparseGrid &g = c.g; int d = g.getNumDimensions(), outs = g.getNumOutputs();
    if (k == "pso"){ run_pso(c); return; }
    if (k == "nextnode"){ // internal entry point (the public route needs > 50 nodes and takes 35-70 s per call): next greedy node after the first n nodes of the rule
        int n = c.psoarg[1]; double r = 0;
        switch(c.psoarg[0]){ case 0: r = Optimizer::getNextNode<rule_leja>(Optimizer::getGreedyNodes<rule_leja>(n)); break; case 1: r = Optimizer::getNextNode<rule_maxlebesgue>(Optimizer::getGreedyNodes<rule_maxlebesgue>(n)); break;
                              case 2: r = Optimizer::getNextNode<rule_minlebesgue>(Optimizer::getGreedyNodes<rule_minlebesgue>(n)); break; default: r = Optimizer::getNextNode<rule_mindelta>(Optimizer::getGreedyNodes<rule_mindelta>(n)); break; }
        c.num.push_back(r); return; }
    if (g.empty()){ c.sx += " empty"; return; }
    if (k == "batch"){ if (g.getNumLoaded() == 0 || outs == 0){ c.sx += " pruned"; return; } auto x = probes(c, (int) A(0, 40)); std::vector<double> y; g.evaluateBatch(x, y); add(c, y); return; }
    if (k == "eval"){ if (g.getNumLoaded() == 0 || outs == 0){ c.sx += " pruned"; return; } auto x = probes(c, 3); for(int t=0;t<3;t++){ std::vector<double> y; g.evaluate(std::vector<double>(x.begin() + t*d, x.begin() + (t+1)*d), y); add(c, y); } return; }
    if (k == "hdense"){ auto x = probes(c, (int) A(0, 35)); std::vector<double> y; g.evaluateHierarchicalFunctions(x, y); add(c, y); return; }
    if (k == "hsparse"){ if (!(g.isLocalPolynomial() || g.isWavelet())){ c.sx += " pruned"; return; } auto x = probes(c, (int) A(0, 70)); std::vector<int> pn, ix; std::vector<double> v; g.evaluateSparseHierarchicalFunctions(x, pn, ix, v); addi(c, "pntr", pn); addi(c, "indx", ix); add(c, v); return; }
    if (k == "hsparsestatic"){ if (!(g.isLocalPolynomial() || g.isWavelet())){ c.sx += " pruned"; return; } int n = (int) A(0, 33); auto x = probes(c, n); int nz = g.evaluateSparseHierarchicalFunctionsGetNZ(x.data(), n); c.sx += " nz=" + std::to_string(nz);
        std::vector<int> pn((size_t) n + 1), ix((size_t) nz); std::vector<double> v((size_t) nz); g.evaluateSparseHierarchicalFunctionsStatic(x.data(), n, pn.data(), ix.data(), v.data()); addi(c, "pntr", pn); addi(c, "indx", ix); add(c, v); return; }
    if (k == "quad"){ add(c, g.getQuadratureWeights()); return; }
    if (k == "interp"){ auto x = probes(c, 2); for(int t=0;t<2;t++) add(c, g.getInterpolationWeights(std::vector<double>(x.begin() + t*d, x.begin() + (t+1)*d))); return; }
    if (k == "diffw"){ auto x = probes(c, 2); for(int t=0;t<2;t++) add(c, g.getDifferentiationWeights(std::vector<double>(x.begin() + t*d, x.begin() + (t+1)*d))); return; }
    if (k == "integrate"){ if (g.getNumLoaded() == 0 || outs == 0){ c.sx += " pruned"; return; } std::vector<double> q; g.integrate(q); add(c, q); return; }
    if (k == "diff"){ if (g.getNumLoaded() == 0 || outs == 0){ c.sx += " pruned"; return; } auto x = probes(c, 2); for(int t=0;t<2;t++){ std::vector<double> j; g.differentiate(std::vector<double>(x.begin() + t*d, x.begin() + (t+1)*d), j); add(c, j); } return; }
    if (k == "inth"){ add(c, g.integrateHierarchicalFunctions()); return; }
    if (k == "aniso"){ if (g.isLocalPolynomial() || g.isWavelet() || g.getNumLoaded() == 0 || outs == 0 || tg::nonNestedGlobal(g)){ c.sx += " pruned"; return; } addi(c, "aniso", g.estimateAnisotropicCoefficients(ea::type_of((int) A(0, 1)), (int) A(1, 0))); return; }
    if (k == "remove"){ if (!g.isLocalPolynomial() || g.getNumLoaded() == 0 || outs == 0 || g.isUsingConstruction()){ c.sx += " pruned"; return; } if (A(0, 0) == 0) g.removePointsByHierarchicalCoefficient(1e-2, (int) A(1, -1)); else g.removePointsByHierarchicalCoefficient((int) A(0, 0), (int) A(1, -1)); return; }
    if (k == "polyspace"){ if (!(g.isGlobal() || g.isSequence())){ c.sx += " pruned"; return; } addi(c, "ps", g.getGlobalPolynomialSpace(A(0, 1) != 0)); return; }
    if (k == "copy"){ TasmanianSparseGrid h(g); g = h; return; }
    if (k == "points"){ add(c, g.getPoints()); return; }
    if (k == "hsupport"){ add(c, g.getHierarchicalSupport()); return; }
    c.sx += " unknown-op";
}

struct Obs { std::string name, S, A, strict; std::vector<double> N; };
static void observe(Ctx &c, Obs &o, bool ascii){
    o.S.clear(); o.N.clear(); o.A.clear(); std::string bin;
    if (c.pso){ o.S = "pso" + c.sx; o.N = c.num; }
    else{
        tg::ObsOpt opt; opt.values = false; opt.coeffs = false; o.S = tg::obs(c.g, opt) + c.sx; o.N = c.num;
        if (!c.g.empty()){
            int nl = c.g.getNumLoaded(), outs = c.g.getNumOutputs();
            if (nl > 0 && outs > 0){ const double *v = c.g.getLoadedValues(); if (v) o.N.insert(o.N.end(), v, v + (size_t) nl * outs);
                const double *h = c.g.getHierarchicalCoefficients(); if (h) o.N.insert(o.N.end(), h, h + (size_t) nl * outs * (c.g.isFourier() ? 2 : 1)); }
            bin = tg::bytes(c.g, true); if (ascii) o.A = tg::bytes(c.g, false);
        }
    }
    std::string all = o.S; all += '|'; all += bin; all += '|'; all.append((const char*) o.N.data(), o.N.size() * sizeof(double)); o.strict = vf::digest(all);
}
// runs a history; after(step index, ctx) is called after every step (step 0 = make)
static void run_history(const Hist &h, const std::function<void(int, Ctx&)> &after){
    Ctx c;
    if (h.cfg.compare(0, 3, "pso") == 0 || h.cfg.compare(0, 3, "opt") == 0){ c.pso = true; auto v = vf::jints(h.cfg.substr(3)); c.psoarg.assign(v.begin(), v.end()); }
    else c.cfg = tg::Cfg::parse(h.cfg);
    for(int i = -1; i < (int) h.steps.size(); i++){
        c.num.clear(); c.sx.clear();
        try{ if (i < 0){ if (!c.pso) tg::make(c.g, c.cfg); } else run_step(c, h.steps[(size_t) i]); }
        catch(std::exception &e){ c.sx += std::string(" EXC:") + e.what(); }
        after(i + 1, c);
    }
}
static std::string step_name(const Hist &h, int si){ if (si == 0) return "make"; std::string s = h.steps[(size_t) si - 1]; size_t p = s.find(':'); return s.substr(0, p); }

// ------------------------------------------------------------------------------------------------ the scripted histories
static std::vector<Hist> histories(){
    std::vector<Hist> H;
    auto addh = [&](int tier, const std::string &name, const std::string &cfg, const std::string &steps){ Hist h; h.name = name; h.cfg = cfg; h.steps = words(steps); h.tier = tier; H.push_back(h); };
    const std::string OBS = " @batch:40 @hdense:20 @quad @interp @integrate @diff";
    for(int d : {2, 3}){
        std::string D = std::to_string(d), dd = ";d=" + D + ";o=2";
        // ---- local polynomial: refinement strategies (refsurp:tol,criteria,output,scale,limits,overload), construction, sparse/dense basis, removal
        struct LP { const char *rule; int order; int tier; }; const LP lps[] = { {"localp",1,0}, {"localp",2,1}, {"localp",0,0}, {"localp",3,1}, {"semi-localp",2,0}, {"localp-boundary",1,0}, {"localp-boundary",2,1}, {"localp-zero",1,1}, {"localp-zero",2,0}, {"semi-localp",3,1}, {"localp",-1,1} };
        for(auto &lp : lps){
            std::string cfg = std::string("fam=localp;rule=") + lp.rule + dd + ";depth=" + (lp.order == 0 ? "1" : (d == 2 ? "3" : (std::string(lp.rule) == "localp-zero" ? "1" : "2"))) + ";type=level;order=" + std::to_string(lp.order);
            std::string nm = std::string("localp:") + lp.rule + ":o" + std::to_string(lp.order) + ":" + D + "d";
            int t3 = (d == 3) ? std::max(lp.tier, (lp.order == 1 || std::string(lp.rule) == "semi-localp") ? 0 : 1) : lp.tier;
            addh(t3, nm + ":refine", cfg, "load:3 @batch:40 refsurp:1,0,-1 load:3 refsurp:1,3,-1 load:3 refsurp:1,4,0 load:3 refsurp:1,1,-1 load:3 refsurp:1,2,1 load:3 @hsparse:70 @hsparsestatic:33 @hdense:20 @quad @interp @integrate @diff @diffw @inth");
            addh(std::max(t3, d == 3 ? 1 : 0), nm + ":construct", cfg, "load:3 begin cand:0,0 deliver:5,0 deliver:1,1 cand:1,3 deliver:0,0,0,0,0 finish @batch:40 refsurp:1,3,-1,2,0,1 refsurp:3,4,0,1,0,1 merge @remove:0 @remove:7 @copy @batch:20");
        }
        // incomplete hierarchies (points without some of their parents): in 3-D and above loadNeededValues() must notice them and leave the Kronecker algorithm
        if (d == 3) for(auto &lp : lps) if (lp.order == 1 || lp.order == 2){
            std::string cfg = std::string("fam=localp;rule=") + lp.rule + dd + ";depth=1;type=level;order=" + std::to_string(lp.order);
            addh((std::string(lp.rule) == "localp" && lp.order == 1) ? 0 : 1, std::string("localp:") + lp.rule + ":o" + std::to_string(lp.order) + ":3d:incomplete", cfg, "load:8 refsurp:1,0,-1 load:8 refsurp:1,0,-1 load:8 refsurp:1,0,-1 load:8 @batch:40 @integrate refsurp:3,0,-1 load:8 @batch:40 @hdense:10");
        }
        // limits, 0 outputs, domain transform (scaled quadrature weights)
        addh(0, "localp:limits:" + D + "d", "fam=localp;rule=localp" + dd + ";depth=2;type=level;order=1;lim=" + (d == 2 ? "3,2" : "2,3,2"), "load:3 refsurp:0,0,-1 load:3 refsurp:0,3,-1,0,4 load:3 refsurp:0,4,-1 @batch:30 @quad");
        addh(d == 2 ? 0 : 1, "localp:transform:" + D + "d", "fam=localp;rule=localp" + dd + ";depth=3;type=level;order=2;ta=" + (d == 2 ? "-1,0.5" : "-1,0.5,2") + ";tb=" + (d == 2 ? "2,3" : "2,3,5"), "load:0 @quad @batch:30 @interp @integrate @diff refsurp:1,3,-1 load:0 @quad");
        // ---- wavelets (sparse solver, matrix assembly); kept small: a load costs about one region per point, fds/direction refinement one small solve per point and direction
        if (d == 2){
            addh(0, "wavelet:o1:2d:fds-stable", "fam=wavelet;rule=wavelet;d=2;o=1;depth=0;type=level;order=1", "load:3 refsurp:1,3,0 load:3 @quad refsurp:1,4,0 load:3 refsurp:1,1,-1");
            addh(0, "wavelet:o1:2d:classic", "fam=wavelet;rule=wavelet;d=2;o=2;depth=1;type=level;order=1", "load:3 @batch:20 refsurp:1,0,-1 load:3 @hsparse:20 @hdense:10 @interp @integrate @diff @inth");
            addh(0, "wavelet:o1:2d:limits", "fam=wavelet;rule=wavelet;d=2;o=1;depth=1;type=level;order=1;lim=3,2", "load:3 refsurp:1,0,-1 load:3 refsurp:0,0,-1,0,4 load:3 refsurp:1,3,-1 @batch:20"); // the level-limited copy of the candidate collection
            addh(1, "wavelet:o1:2d:direction", "fam=wavelet;rule=wavelet;d=2;o=1;depth=1;type=level;order=1", "load:3 refsurp:1,2,0 load:3 @batch:20");
            addh(1, "wavelet:o3:2d:classic", "fam=wavelet;rule=wavelet;d=2;o=1;depth=0;type=level;order=3", "load:3 @batch:20 refsurp:1,0,-1 load:3 @hsparse:20 @interp");
            addh(1, "wavelet:o1:2d:construct", "fam=wavelet;rule=wavelet;d=2;o=1;depth=0;type=level;order=1", "load:3 begin cand:0,0 deliver:5,0 deliver:1,1 cand:1,3 deliver:0,0 finish @batch:20 merge @copy @diffw");
        }else{
            addh(1, "wavelet:o1:3d:classic", "fam=wavelet;rule=wavelet;d=3;o=1;depth=0;type=level;order=1", "load:3 @batch:20 refsurp:1,0,-1 @hsparse:20 @interp @quad");
        }
        // ---- sequence grids: update, anisotropic and surplus refinement, construction
        struct SQ { const char *rule; int tier; }; const SQ sqs[] = { {"rleja",0}, {"leja",0}, {"min-lebesgue",1}, {"max-lebesgue",1}, {"min-delta",1}, {"rleja-shifted",1} };
        for(auto &sq : sqs){
            std::string cfg = std::string("fam=sequence;rule=") + sq.rule + dd + ";depth=" + (d == 2 ? "4" : "3") + ";type=iptotal";
            std::string nm = std::string("sequence:") + sq.rule + ":" + D + "d";
            addh(sq.tier, nm + ":refine", cfg, "load:0 @batch:40 @aniso:1,0 @aniso:2,-1 refaniso:1,3,0 load:0 refaniso:2,1,-1 load:0 refsurpgs:1,0 load:0 refsurpgs:3,0,-1 update:5,0 load:0 update:0,2,0,2 update:5,3,0,1 load:0" + OBS + " @inth @polyspace:1 @polyspace:0");
            addh(std::max(sq.tier, d == 3 ? 1 : 0), nm + ":construct", cfg, "load:0 begin cand:0,1 deliver:4,0 cand:0,1,1 deliver:3,1,1 deliver:0,0,0,1 finish @batch:40 merge @copy @hdense:10");
        }
        // ---- global grids: nested, non-nested, greedy sequences (node optimiser), curved weights with negative sum (non-lower selection)
        struct GL { const char *rule, *type; int depth2, depth3; const char *aw2, *aw3; int tier; }; const GL gls[] = {
            {"clenshaw-curtis", "iptotal", 3, 2, "", "", 0}, {"gauss-legendre", "qptotal", 3, 2, "", "", 0}, {"leja", "level", 5, 4, "", "", 0}, {"fejer2", "iphyperbolic", 3, 2, "1,2", "1,2,1", 1},
            {"gauss-patterson", "qpcurved", 3, 2, "1,2,1,0", "1,2,1,1,0,1", 0}, {"rleja-odd", "ipcurved", 4, 3, "2,1,1,0", "2,1,1,1,0,1", 1}, {"chebyshev", "tensor", 2, 2, "2,3", "1,2,2", 1},
            {"max-lebesgue", "iptotal", 5, 4, "", "", 1}, {"clenshaw-curtis-zero", "curved", 3, 2, "2,1,0,1", "2,1,1,0,1,1", 1}, {"gauss-hermite", "level", 2, 2, "", "", 1}, {"leja-odd", "iptotal", 4, 3, "", "", 1} };
        for(auto &gl : gls){
            std::string aw = (d == 2) ? gl.aw2 : gl.aw3; int depth = (d == 2) ? gl.depth2 : gl.depth3;
            std::string cfg = std::string("fam=global;rule=") + gl.rule + dd + ";depth=" + std::to_string(depth) + ";type=" + gl.type + (aw.empty() ? "" : ";aw=" + aw);
            std::string nm = std::string("global:") + gl.rule + ":" + gl.type + ":" + D + "d";
            addh(std::max(gl.tier, (d == 3 && std::string(gl.rule) != "clenshaw-curtis") ? 1 : 0), nm + ":refine", cfg, "load:0 @batch:40 @aniso:1,0 refaniso:1,3,0 load:0 refsurpgs:1,0 load:0 update:" + std::to_string(depth + 1) + ",0 load:0 update:0,2,0,2 update:" + std::to_string(depth + 1) + ",3,0,1 load:0" + OBS + " @diffw @polyspace:1 @polyspace:0");
            addh(std::max(gl.tier, d == 3 ? 1 : 0), nm + ":construct", cfg, "load:0 begin cand:0,1 deliver:4,0 cand:0,1,1 deliver:3,1,1 deliver:0,0,0,1 finish @batch:40 merge @copy @quad");
        }
        addh(d == 2 ? 0 : 1, "global:nonlower:" + D + "d", "fam=global;rule=gauss-legendre;d=" + D + ";o=0;depth=4;type=curved;aw=" + (d == 2 ? "1,1,-2,-2" : "1,1,1,-2,-2,-2"), "@quad @interp @points @polyspace:0");
        addh(1, "global:limits:" + D + "d", "fam=global;rule=clenshaw-curtis" + dd + ";depth=3;type=level;lim=" + (d == 2 ? "2,-1" : "2,-1,1"), "load:0 refaniso:1,1,0 load:0 update:5,0,0,0,4 load:0 @batch:20 @quad");
        // ---- Fourier
        addh(0, "fourier:" + D + "d:refine", "fam=fourier;rule=fourier" + dd + ";depth=" + (d == 2 ? "2" : "1") + ";type=level", "load:4 @batch:40 @aniso:1,0 refaniso:1,3,-1 load:4 refaniso:2,1,0 load:4 update:3,1,0,1 load:4 @batch:40 @hdense:10 @quad @interp @integrate @diff @inth");
        addh(d == 2 ? 0 : 1, "fourier:" + D + "d:construct", "fam=fourier;rule=fourier" + dd + ";depth=1;type=iptotal", "load:4 begin cand:0,1 deliver:4,0 cand:0,1,1 deliver:3,1,1 deliver:0,0,0,1 finish @batch:40 merge @copy @batch:10");
    }
    // ---- particle swarm (pso<particles>,<dims>,<iterations>,<domain>)
    addh(0, "pso:5x2:nothing-inside", "pso5,2,3,2", "@pso");
    // ---- node optimiser with nested regions (min-lebesgue / min-delta evaluate a nested maximisation in every interval): rule (0 leja, 1 max-lebesgue, 2 min-lebesgue, 3 min-delta), nodes
    addh(1, "optimizer:min-lebesgue:5", "opt2,5", "@nextnode"); addh(1, "optimizer:min-delta:5", "opt3,5", "@nextnode"); addh(1, "optimizer:max-lebesgue:7", "opt1,7", "@nextnode");
    addh(0, "pso:6x2", "pso6,2,6,0", "@pso"); addh(0, "pso:7x3:halfspace", "pso7,3,5,1", "@pso"); addh(1, "pso:9x2:halfspace", "pso9,2,8,1", "@pso");
    addh(0, "pso:8x2:small-box", "pso8,2,4,3", "@pso"); // the swarm starts in a box four times the domain: several particles have no best position of their own while the swarm has one
    return H;
}

// ================================================================================================ reference of the serial build
static void putf(std::string &o, const std::string &f){ o += std::to_string(f.size()); o += '\n'; o += f; o += '\n'; }
static std::string emit_ref(const Hist &h){
    std::string out; int n = 0; std::string body;
    run_history(h, [&](int si, Ctx &c){ Obs o; observe(c, o, true); std::string nums; char b[40]; for(double v : o.N){ snprintf(b, sizeof(b), "%a ", v); nums += b; }
        putf(body, step_name(h, si)); putf(body, o.strict); putf(body, o.S); putf(body, o.A); putf(body, nums); n++; });
    out = "REF " + std::to_string(n) + "\n" + body + "END\n"; return out;
}
static bool getf(const std::string &s, size_t &p, std::string &f){ size_t e = s.find('\n', p); if (e == std::string::npos) return false; size_t n = (size_t) atol(s.c_str() + p); p = e + 1; if (p + n > s.size()) return false; f = s.substr(p, n); p += n + 1; return true; }
static bool parse_ref(const std::string &s, std::vector<Obs> &ref){
    if (s.compare(0, 4, "REF ") != 0) return false; int n = atoi(s.c_str() + 4); size_t p = s.find('\n') + 1;
    for(int i=0;i<n;i++){ Obs o; std::string nums; if (!getf(s, p, o.name) || !getf(s, p, o.strict) || !getf(s, p, o.S) || !getf(s, p, o.A) || !getf(s, p, nums)) return false;
        const char *q = nums.c_str(); while(*q){ char *e; double v = strtod(q, &e); if (e == q) break; o.N.push_back(v); q = e; while(*q == ' ') q++; } ref.push_back(o); }
    return s.compare(p, 3, "END") == 0;
}
static std::string g_refbin, g_self;   // path of the same harness built in variant asan (serial build); own path
static bool get_ref(const Hist &h, std::vector<Obs> &ref, std::string &err){
    std::string cmd = "'" + g_refbin + "' --emit-ref --cfg '" + h.cfg + "' --steps '" + h.steps_str() + "' 2>&1"; FILE *p = popen(cmd.c_str(), "r"); if (!p){ err = "popen failed"; return false; }
    std::string s; char b[65536]; size_t r; while((r = fread(b, 1, sizeof(b), p)) > 0) s.append(b, r); int rc = pclose(p);
    if (rc != 0 || !parse_ref(s, ref)){ err = "serial reference run failed (status " + std::to_string(rc) + "): " + s.substr(0, 600); return false; }
    return true;
}

// ================================================================================================ comparison with the reference
// returns "same", "rounding", "struct", "numeric"
static std::string compare(Ctx &c, Obs &o, const Obs &ref, std::string &detail){
    if (o.strict == ref.strict) return "same";
    double worst = 0; std::ostringstream dt; dt.precision(17);
    if (o.S != ref.S){ size_t i = 0; while(i < o.S.size() && i < ref.S.size() && o.S[i] == ref.S[i]) i++; size_t b = i > 60 ? i - 60 : 0;
        detail = "structure seen through the getters differs from the serial build at char " + std::to_string(i) + ": omp '" + o.S.substr(b, 160) + "' serial '" + ref.S.substr(b, 160) + "'"; return "struct"; }
    if (o.N.size() != ref.N.size()){ detail = "number of numeric outputs differs: " + std::to_string(o.N.size()) + " vs serial " + std::to_string(ref.N.size()); return "struct"; }
    double scale = 1; for(double v : ref.N) if (std::isfinite(v)) scale = std::max(scale, std::abs(v));
    size_t wi = 0; for(size_t i=0;i<o.N.size();i++){ double a = o.N[i], b = ref.N[i]; if (a == b || (std::isnan(a) && std::isnan(b))) continue; double r = std::abs(a - b) / scale; if (!(r <= worst)){ worst = r; wi = i; } if (std::isnan(r)) { worst = 1e300; wi = i; break; } }
    if (!(worst <= 1e-13)){ dt << "numeric output " << wi << " of " << o.N.size() << ": omp " << o.N[wi] << " serial " << ref.N[wi] << " (relative to magnitude " << scale << ": " << worst << ")"; detail = dt.str(); return "numeric"; }
    // serialised state: integers (and words) identical, floating values to tolerance
    if (!c.pso && !c.g.empty()){
        if (o.A.empty()) o.A = tg::bytes(c.g, false);
        auto ta = words(o.A), tb = words(ref.A);
        if (ta.size() != tb.size()){ detail = "ASCII write has " + std::to_string(ta.size()) + " tokens, serial " + std::to_string(tb.size()); return "struct"; }
        auto isnum = [](const std::string &t, double &v)->bool{ char *e; v = strtod(t.c_str(), &e); return e != t.c_str() && *e == 0; };
        auto isfloat = [](const std::string &t)->bool{ return t.find_first_of(".eEnN") != std::string::npos; };
        double fs = 1; for(auto &t : tb){ double v; if (isfloat(t) && isnum(t, v) && std::isfinite(v)) fs = std::max(fs, std::abs(v)); }
        for(size_t i=0;i<ta.size();i++){ if (ta[i] == tb[i]) continue; double a, b;
            if (isnum(ta[i], a) && isnum(tb[i], b) && (isfloat(ta[i]) || isfloat(tb[i]))){ double r = std::abs(a - b) / fs; if (r > worst) worst = r; if (!(r <= 1e-13)){ dt << "serialised value (token " << i << "): omp " << ta[i] << " serial " << tb[i]; detail = dt.str(); return "numeric"; } }
            else { detail = "serialised structure differs (token " + std::to_string(i) + " of the ASCII write): omp '" + ta[i] + "' serial '" + tb[i] + "'"; return "struct"; } }
    }
    dt << "max relative difference " << worst; detail = dt.str(); return "rounding";
}
// "data-race:TasmanianFourierTransform::fast_fourier_transform1D" from a ThreadSanitizer report: kind + first Tasmanian frame of the first stack
static std::string tsan_class(const std::string &err){
    std::string kind = "report", fn = "?"; size_t p = err.find("ThreadSanitizer: ");
    if (p != std::string::npos){ size_t e = err.find_first_of("(\n", p + 17); kind = err.substr(p + 17, e - (p + 17)); while(!kind.empty() && kind.back() == ' ') kind.pop_back(); for(char &c : kind) if (c == ' ') c = '-'; }
    size_t q = p == std::string::npos ? 0 : p;
    while((q = err.find("\n    #", q)) != std::string::npos){ size_t b = err.find(' ', q + 6); size_t e = err.find('\n', q + 1); if (b == std::string::npos) break; std::string line = err.substr(b + 1, e - b - 1);
        size_t t = std::string::npos; for(const char *ns : {"TasGrid::", "TasOptimization::", "TasDREAM::"}){ size_t u = line.find(ns); if (u != std::string::npos && (t == std::string::npos || u < t)) t = u; }
        if (t != std::string::npos && line.compare(0, 5, "std::") != 0){ fn = gs::short_name(line.substr(t)); size_t h = fn.find('#'); if (h != std::string::npos) fn = fn.substr(0, h); break; }
        q = e == std::string::npos ? err.size() : e; }
    return kind + ":" + fn;
}
static std::string kind_of(const std::string &verdict){ return verdict == "struct" ? "structure-differs" : "numeric-differs"; }

#ifdef _OPENMP
// ================================================================================================ fork helper (child continues)
// Parent: returns false with the outcome filled in. Child: returns true; resfd is the pipe for its report; stderr is captured.
static bool fork_continue(vf::Outcome &o, double timeout_s, int &resfd){
    int pr[2], pe[2]; if (pipe(pr) || pipe(pe)){ perror("pipe"); exit(2); }
    pid_t pid = fork(); if (pid < 0){ perror("fork"); exit(2); }
    if (pid == 0){ close(pr[0]); close(pe[0]); dup2(pe[1], 2); close(pe[1]); resfd = pr[1]; return true; }
    close(pr[1]); close(pe[1]); o = vf::Outcome(); double deadline = vf::now() + timeout_s; bool open_r = true, open_e = true, timed_out = false; char buf[65536];
    while(open_r || open_e){
        struct pollfd fds[2]; int n = 0, ir = -1, ie = -1;
        if (open_r){ fds[n].fd = pr[0]; fds[n].events = POLLIN; ir = n++; } if (open_e){ fds[n].fd = pe[0]; fds[n].events = POLLIN; ie = n++; }
        double left = deadline - vf::now(); if (left <= 0){ timed_out = true; break; }
        int rc = poll(fds, (nfds_t) n, (int) std::min(left * 1000.0 + 1, 1e9)); if (rc < 0){ if (errno == EINTR) continue; break; } if (rc == 0){ timed_out = true; break; }
        if (ir >= 0 && (fds[ir].revents & (POLLIN | POLLHUP | POLLERR))){ ssize_t r = read(pr[0], buf, sizeof(buf)); if (r > 0) o.out.append(buf, (size_t) r); else open_r = false; }
        if (ie >= 0 && (fds[ie].revents & (POLLIN | POLLHUP | POLLERR))){ ssize_t r = read(pe[0], buf, sizeof(buf)); if (r > 0){ if (o.err.size() < 16384) o.err.append(buf, (size_t) r); } else open_e = false; }
    }
    if (timed_out) kill(pid, SIGKILL);
    close(pr[0]); close(pe[0]); int st = 0; while(waitpid(pid, &st, 0) < 0 && errno == EINTR){}
    bool san = o.err.find("Sanitizer") != std::string::npos || o.err.find("runtime error:") != std::string::npos;
    if (timed_out) o.kind = vf::Outcome::TIMEOUT; else if (san){ o.kind = vf::Outcome::SANITIZER; o.code = WIFEXITED(st) ? WEXITSTATUS(st) : -WTERMSIG(st); }
    else if (WIFSIGNALED(st)){ o.kind = vf::Outcome::SIGNAL; o.code = WTERMSIG(st); } else if (WIFEXITED(st) && WEXITSTATUS(st) != 0){ o.kind = vf::Outcome::EXIT; o.code = WEXITSTATUS(st); }
    return false;
}
#endif

#if defined(_OPENMP) && !defined(GS_FREE)
// ================================================================================================ controlled exploration
struct ExecRes { std::string status; std::vector<vs::Point> pts; long nsteps = 0; std::string tracedig, verdict, detail, tracehead; int step = -1; vf::Outcome out; };
static ExecRes parse_exec(const vf::Outcome &o){
    ExecRes R; R.out = o; std::istringstream in(o.out); std::getline(in, R.status);
    if (R.status.empty()) R.status = (o.kind == vf::Outcome::TIMEOUT) ? "TIMEOUT" : (o.kind == vf::Outcome::SANITIZER ? "SANITIZER " + o.sanitizer_class() : "DIED " + o.describe());
    else if (o.kind == vf::Outcome::SANITIZER) R.status = "SANITIZER " + o.sanitizer_class();
    else if (o.kind == vf::Outcome::TIMEOUT) R.status = "TIMEOUT";
    size_t n = 0; in >> n; for(size_t i=0;i<n;i++){ vs::Point p; in >> p.nenabled >> p.chosen >> p.running >> p.kind; R.pts.push_back(p); }
    size_t nt = 0; in >> nt; std::string line; std::getline(in, line);
    while(std::getline(in, line)){
        if (line.compare(0, 2, "R ") == 0){ std::istringstream l(line.substr(2)); l >> R.nsteps >> R.tracedig >> R.verdict >> R.step; }
        else if (line.compare(0, 2, "D ") == 0) R.detail = line.substr(2); else if (line.compare(0, 3, "TR ") == 0) R.tracehead = line.substr(3);
    }
    if (R.status == "OK" && R.verdict.empty()){ R.status = (o.kind == vf::Outcome::OK) ? "DIED without report" : "DIED " + o.describe(); }
    return R;
}

struct RegionAgg { long execs = 0; std::set<std::string> traces; std::map<std::string,long> verdicts; };
struct Spine {
    const Hist *h = nullptr; const std::vector<Obs> *ref = nullptr; int T = 1, bound = 1; bool fine = true; bool tail_history = false; long cap2 = 0; long over_cap = 0; long r0 = 0, r1 = LONG_MAX; std::string unit;
    const gs::Sym *sym = nullptr;
    // exec-child state
    bool is_exec = false; long target = -1; std::vector<int> prefix; int resfd = -1; std::vector<vs::Point> cap_pts; long cap_steps = 0; std::string cap_trace; bool captured = false; bool rounding = false; std::string round_detail;
    // replay
    bool replay = false; long replay_region = -1; std::vector<int> replay_prefix;
    // measurements of the spine
    long execs = 0, points = 0, steps = 0, regions_explored = 0, regions_seen = 0, skipped = 0; std::set<uint64_t> classes; std::string class_file; std::map<std::string, RegionAgg> agg; int nviol = 0; bool cut = false; int cur_step = 0;
    std::map<std::string,int> sanit; long spine_regions = 0;
    struct Pending { std::string sig, cs, detail; int step; }; std::vector<Pending> pending; bool tainted = false; long not_attributed = 0, skipped_tainted = 0;
};
static Spine *SP = nullptr;

static std::string case_json(const Spine &s, long region, const std::vector<int> &choices, const std::string &fn){
    return vf::J().s("history", s.h->name).s("cfg", s.h->cfg).s("steps", s.h->steps_str()).i("team", s.T).i("region", region).raw("choices", vf::jarr(choices)).s("region_function", fn).str();
}
static void exec_report(Spine &s, const std::string &verdict, int step, const std::string &detail){
    std::ostringstream o; o << "OK\n" << s.cap_pts.size() << "\n"; for(auto &p : s.cap_pts) o << p.nenabled << " " << p.chosen << " " << p.running << " " << p.kind << "\n"; o << "0\n";
    o << "R " << s.cap_steps << " " << vf::digest(s.cap_trace).substr(0, 16) << " " << verdict << " " << step << "\n";
    std::string d = detail; for(char &ch : d) if (ch == '\n') ch = ' '; o << "D " << d << "\nTR " << s.cap_trace.substr(0, 300) << "\n";
    vf::wr(s.resfd, o.str()); _exit(0);
}
// after every step, in the spine and in exec children
static void step_done(Spine &s, int si, Ctx &c){
    Obs o; observe(c, o, false); std::string detail; std::string v = compare(c, o, (*s.ref)[(size_t) si], detail);
    bool last = (si == (int) s.h->steps.size());
    if (s.is_exec){
        if (v == "struct" || v == "numeric") exec_report(s, v, si, "after step " + std::to_string(si) + " (" + step_name(*s.h, si) + "): " + detail);
        if (v == "rounding"){ s.rounding = true; s.round_detail = detail; }
        if (last || (!s.tail_history && !s.rounding && s.captured)) exec_report(s, s.rounding ? "rounding" : "same", si, s.round_detail);
        return;
    }
    s.cur_step = si + 1; bool bad = (v == "struct" || v == "numeric");
    for(auto &p : s.pending){ if (bad && p.step <= si){ s.not_attributed++; continue; } if (s.nviol++ < 20) vf::violation(p.sig, s.unit, p.cs, p.detail); }
    s.pending.clear();
    if (bad && !s.tainted){
        s.tainted = true; // every later observation differs as a consequence: exploration of the remaining regions and later steps would only repeat this finding
        if (s.nviol++ < 20) vf::violation("C13:" + kind_of(v) + ":" + s.h->fam() + ":" + step_name(*s.h, si) + ":default-schedule", s.unit, case_json(s, -1, std::vector<int>(), ""), "team of " + std::to_string(s.T) + ", default schedule, after step " + std::to_string(si) + " (" + step_name(*s.h, si) + "): " + detail);
    }else if (v == "rounding") s.agg["(default schedule)"].verdicts["rounding"]++;
}

static ExecRes exec_child(Spine &s, long r, const std::vector<int> &prefix, bool full_tail, bool stop_after_region){
    vf::Outcome o; int fd = -1;
    if (fork_continue(o, 120.0, fd)){
        // ---- child: becomes an execution
        gs::after_fork(); s.is_exec = true; s.target = r; s.prefix = prefix; s.resfd = fd; vs::outfd = fd; s.tail_history = full_tail || s.tail_history; s.captured = false;
        gs::tracing = true; gs::trace.clear(); vs::prefix = prefix; vs::points.clear(); vs::nsteps = 0;
        s.replay = false; if (stop_after_region) s.target = -(r + 2); // marker: report right after the region
        throw 0; // unwinds to the hook, which returns into GOMP_parallel
    }
    return parse_exec(o);
}
static void explore_region(Spine &s, long r, const std::string &fn, const std::vector<int> &prefix, int used, bool root);

static void record_exec(Spine &s, long r, const std::string &fn, const ExecRes &x, const std::vector<int> &prefix, bool root){
    s.execs++; s.points += (long) x.pts.size(); s.steps += x.nsteps; RegionAgg &a = s.agg[fn]; a.execs++;
    auto choices = vx::nonzero_prefix(x.pts); if (x.status != "OK") choices = prefix;
    std::string cs = case_json(s, r, choices, fn);
    auto viol = [&](const std::string &sig, const std::string &detail){ if (s.nviol++ < 20) vf::violation(sig, s.unit, cs, detail); };
    if (x.status != "OK"){
        std::string cls = x.status.substr(0, x.status.find(' ')); a.verdicts[x.status]++;
        if (cls == "REPLAY-DIVERGED"){ vf::emit(vf::J().s("t","error").s("what","replay of a choice prefix diverged in " + s.unit + " region " + std::to_string(r))); return; }
        std::string kind = cls == "SANITIZER" ? "sanitizer:" + x.status.substr(10) : cls == "DEADLOCK" ? "deadlock" : cls == "LIVELOCK" ? "livelock" : cls == "TIMEOUT" ? "timeout" : "died";
        if (cls == "SANITIZER" || cls == "TIMEOUT" || cls == "DIED") s.sanit[fn]++;
        viol("C13:" + kind + ":" + s.h->fam() + ":" + fn, x.status + " in region " + std::to_string(r) + " (" + fn + ", step " + std::to_string(s.cur_step) + " " + step_name(*s.h, s.cur_step) + ") of history " + s.h->name + ", team of " + std::to_string(s.T) + ", schedule " + vf::jarr(choices) + " " + x.out.err.substr(0, 1200));
        return;
    }
    a.traces.insert(x.tracedig); s.classes.insert(vf::fnv((s.h->name + "|" + std::to_string(s.T) + "|" + std::to_string(r) + "|" + x.tracedig).data(), (s.h->name + "|" + std::to_string(s.T) + "|" + std::to_string(r) + "|" + x.tracedig).size()));
    if (root) return; // the default schedule of the region is the spine's own execution (verdict given there)
    a.verdicts[x.verdict]++;
    if (x.verdict == "struct" || x.verdict == "numeric"){
        // a failing schedule is executed again: identical observations are required before it is reported
        ExecRes y = exec_child(s, r, choices, false, false); s.execs++;
        if (y.status != x.status || y.verdict != x.verdict || y.detail != x.detail || y.tracedig != x.tracedig){ vf::emit(vf::J().s("t","error").s("what","re-execution of the same schedule gives different observations: " + s.unit + " region " + std::to_string(r) + " choices " + vf::jarr(choices))); return; }
        // held back until the spine has finished the step: if the default schedule itself differs from the serial build there, the difference is not attributable to this region
        Spine::Pending p; p.sig = "C13:" + kind_of(x.verdict) + ":" + s.h->fam() + ":" + fn; p.cs = cs; p.step = x.step;
        p.detail = "history " + s.h->name + ", team of " + std::to_string(s.T) + ", region " + std::to_string(r) + " (" + fn + "), schedule " + vf::jarr(choices) + " [" + x.tracehead.substr(0, 120) + "]: " + x.detail;
        if (s.replay) viol(p.sig, p.detail); else s.pending.push_back(p);
    }
}
static void explore_region(Spine &s, long r, const std::string &fn, const std::vector<int> &prefix, int used, bool root){
    if (vf::past_deadline()){ s.cut = true; return; }
    if (s.sanit[fn] >= 3){ s.skipped++; return; }    // crashes are expensive: stop re-issuing schedules in a region function that keeps crashing
    ExecRes x = exec_child(s, r, prefix, false, root);
    record_exec(s, r, fn, x, prefix, root);
    if (x.status != "OK") return;
    if (root && s.cap2 > 0 && (long) x.pts.size() > s.cap2){ s.over_cap++; return; }   // second-deviation phase: regions with long critical/dynamic loops stay at one deviation (phase A)
    int u = used;
    for(size_t i = prefix.size(); i < x.pts.size(); i++){
        if (u + 1 > s.bound) break;
        for(int alt = 1; alt < x.pts[i].nenabled; alt++){ std::vector<int> np; for(size_t k=0;k<i;k++) np.push_back(x.pts[k].chosen); np.push_back(alt); explore_region(s, r, fn, np, u + 1, false); }
    }
}
static void region_begin(long r, void *fnp){
    Spine &s = *SP;
    if (s.is_exec) return;
    s.spine_regions = r + 1;
    if (s.T < 2) return;
    std::string fn = gs::fn_name(*s.sym, fnp); { size_t p = fn.find('#'); if (p != std::string::npos) fn = fn.substr(0, p); }
    try{
        if (s.replay){
            if (r != s.replay_region) return;
            ExecRes a = exec_child(s, r, s.replay_prefix, true, false), b = exec_child(s, r, s.replay_prefix, true, false);
            if (a.status != b.status || a.verdict != b.verdict || a.detail != b.detail || a.tracedig != b.tracedig) vf::emit(vf::J().s("t","error").s("what","replay of the same schedule gives different observations"));
            // report through the same path as the explorer (record_exec re-executes failing schedules once more)
            s.bound = 0; record_exec(s, r, fn, a, s.replay_prefix, false);
            vf::emit(vf::J().s("t","note").s("text","replay: status " + a.status + " verdict " + a.verdict + " " + a.detail + " trace " + a.tracehead.substr(0, 200)));
            return;
        }
        if (r < s.r0 || r >= s.r1) return;
        s.regions_seen++;
        if (s.tainted){ s.skipped_tainted++; return; }
        if (vf::past_deadline()){ s.cut = true; return; }
        explore_region(s, r, fn, std::vector<int>(), 0, true); if (!s.cut) s.regions_explored++;
    }catch(int){ /* exec child: continue into the region */ }
}
static void region_end(long r){
    Spine &s = *SP; if (!s.is_exec || s.captured) return;
    bool stop = (s.target == -(r + 2)); if (!stop && r != s.target) return;
    s.cap_pts = vs::points; s.cap_steps = vs::nsteps; s.cap_trace = gs::trace; s.captured = true; gs::tracing = false; vs::prefix.clear();
    if (stop) exec_report(s, "default", s.cur_step, "");
}

// runs one unit in a forked spine process; the spine emits its own records
static void run_spine(Spine &s){
    vf::Outcome o; int fd = -1; double t_start = vf::now(); double budget = vf::g_deadline > 0 ? std::max(60.0, vf::g_deadline - vf::now() + 120.0) : 3600.0;
    if (fork_continue(o, budget, fd)){
        SP = &s; vs::outfd = fd; vs::max_steps = 400000; vs::begin_main(); gs::team_size = s.T; gs::fine_points = s.fine; gs::on_region_begin = region_begin; gs::on_region_end = region_end;
        run_history(*s.h, [&](int si, Ctx &c){ step_done(s, si, c); });
        vs::end_main();
        for(auto &p : s.pending) if (s.nviol++ < 20) vf::violation(p.sig, s.unit, p.cs, p.detail);
        for(auto &a : s.agg){ std::string vd; for(auto &v : a.second.verdicts){ if (!vd.empty()) vd += ","; vd += v.first + ":" + std::to_string(v.second); }
            vf::emit(vf::J().s("t","outcome").s("key", s.h->name + " T=" + std::to_string(s.T) + " | " + a.first + " | " + std::to_string(a.second.traces.size()) + " distinct chunk/critical/thread-order traces | verdicts " + (vd.empty() ? "-" : vd)).i("n", a.second.execs)); }
        bool complete = !s.cut && !vf::past_deadline();
        if (!s.class_file.empty() && !s.classes.empty()){ FILE *cf = fopen(s.class_file.c_str(), "wb"); if (cf){ std::vector<uint64_t> v(s.classes.begin(), s.classes.end()); fwrite(v.data(), sizeof(uint64_t), v.size(), cf); fclose(cf); } }
        vf::emit(vf::J().s("t","unit").s("unit", s.unit).i("states", s.points).i("transitions", s.steps).i("execs", s.execs + 1).i("evals", s.execs + 1).i("distinct", 0).i("trace_classes", (long long) s.classes.size())
                 .i("regions_in_history", s.spine_regions).i("regions_explored", s.regions_explored).i("regions_in_range", s.regions_seen).i("skipped_after_crashes", s.skipped).i("regions_skipped_after_default_schedule_violation", s.skipped_tainted).i("differences_not_attributed", s.not_attributed).i("regions_over_choice_point_cap", s.over_cap).i("nested_regions", gs::n_nested).i("criticals", gs::n_crit).i("dynamic_loops", gs::n_dynloops).i("chunks", gs::n_chunks).i("barriers", gs::n_barriers).i("violations", s.nviol).n("wall_s", std::round(1e3 * (vf::now() - t_start)) / 1e3).b("complete", complete));
        vf::wr(fd, "SPINE-OK\n"); _exit(0);
    }
    if (o.out.find("SPINE-OK") == std::string::npos){
        // the spine itself (default schedule, team of T) failed
        std::string st = (o.kind == vf::Outcome::TIMEOUT) ? "TIMEOUT" : (o.kind == vf::Outcome::SANITIZER ? "SANITIZER " + o.sanitizer_class() : (!o.out.empty() ? o.out.substr(0, o.out.find('\n')) : "DIED " + o.describe()));
        std::string cls = st.substr(0, st.find(' ')); std::string kind = cls == "SANITIZER" ? "sanitizer:" + st.substr(10) : cls == "DEADLOCK" ? "deadlock" : cls == "LIVELOCK" ? "livelock" : cls == "TIMEOUT" ? "timeout" : "died";
        vf::violation("C13:" + kind + ":" + s.h->fam() + ":default-schedule", s.unit, case_json(s, -1, std::vector<int>(), ""), st + " while running history " + s.h->name + " with a team of " + std::to_string(s.T) + " under the default schedule: " + o.err.substr(0, 1500));
        vf::emit(vf::J().s("t","unit").s("unit", s.unit).i("states", 0).i("transitions", 0).i("execs", 1).i("evals", 1).i("distinct", 0).b("complete", true));
    }
}
#endif

// Exactly one thread of a worker's process tree runs at a time (the spine waits for its execution children, managed threads hand over
// through semaphores), so every worker process is pinned to one CPU: hand-overs become plain context switches instead of cross-CPU wake-ups
// (measured: 2x faster).
static long *g_pin_counter = nullptr;
static void pin_worker(){
    static bool done = false; if (done || !g_pin_counter) return; done = true;
    cpu_set_t all; CPU_ZERO(&all); if (sched_getaffinity(0, sizeof(all), &all) != 0) return; std::vector<int> cpus; for(int i=0;i<CPU_SETSIZE;i++) if (CPU_ISSET(i, &all)) cpus.push_back(i); if (cpus.empty()) return;
    long idx = __sync_fetch_and_add(g_pin_counter, 1); cpu_set_t one; CPU_ZERO(&one); CPU_SET(cpus[(size_t) idx % cpus.size()], &one); sched_setaffinity(0, sizeof(one), &one);
}
// ================================================================================================ main
int main(int argc, char **argv){
    vf::Args A(argc, argv); std::string tier = A.get("--tier", "quick"); double dl = A.getd("--deadline", 0); if (dl > 0) vf::g_deadline = vf::now() + dl; int workers = (int) A.geti("--workers", 8);
    if (A.has("--emit-ref")){ Hist h; h.cfg = A.get("--cfg"); h.steps = words(A.get("--steps")); h.name = "cmdline"; std::string r = emit_ref(h); vf::wr(1, r); return 0; }
    g_pin_counter = (long*) mmap(nullptr, 4096, PROT_READ | PROT_WRITE, MAP_SHARED | MAP_ANONYMOUS, -1, 0); if (g_pin_counter == MAP_FAILED) g_pin_counter = nullptr; if (A.has("--no-pin")) g_pin_counter = nullptr;
    std::vector<Hist> all = histories(), H; for(auto &h : all) if (tier != "quick" || h.tier == 0) H.push_back(h);
    if (A.has("--only")){ std::vector<Hist> K; for(auto &h : H) if (h.name.find(A.get("--only")) != std::string::npos) K.push_back(h); H = K; }
    if (A.has("--cfg")){ Hist h; h.cfg = A.get("--cfg"); h.steps = words(A.get("--steps")); h.name = "custom:" + h.fam(); h.tier = 0; H.assign(1, h); }
    if (A.has("--list")){ for(auto &h : all) printf("%d %s | %s | %s\n", h.tier, h.name.c_str(), h.cfg.c_str(), h.steps_str().c_str()); return 0; }
#ifndef _OPENMP
    vf::emit(vf::J().s("t","note").s("text","sched_omp built without -fopenmp only serves --emit-ref (serial reference observations)"));
    vf::emit(vf::J().s("t","summary").i("units_total", 0).i("units_done", 0).s("bound", "none (serial build)").b("exhaustive", true)); return 0;
#else
    { char self[PATH_MAX]; ssize_t n = readlink("/proc/self/exe", self, sizeof(self) - 1); std::string me = n > 0 ? std::string(self, (size_t) n) : std::string(argv[0]); g_self = me;
      size_t p = me.rfind("/bin/"); size_t q = (p == std::string::npos) ? std::string::npos : me.rfind('/', p - 1); if (q == std::string::npos){ vf::emit(vf::J().s("t","error").s("what","cannot derive the path of the serial harness from " + me)); return 0; }
      g_refbin = me.substr(0, q) + "/asan" + me.substr(p); if (A.has("--refbin")) g_refbin = A.get("--refbin");
      if (access(g_refbin.c_str(), X_OK) != 0){ vf::emit(vf::J().s("t","error").s("what","serial reference harness missing: " + g_refbin)); return 0; } }
#ifdef GS_FREE
    // ---------------------------------------------------------------- free-running ThreadSanitizer pass
    std::vector<int> teams = (tier == "quick") ? std::vector<int>{2, 3} : std::vector<int>{2, 3, 4}; int reps = (int) A.geti("--reps", 1);
    if (A.has("--replay")){ // re-run the recorded history / team size (a race report depends on real timing: up to 5 runs)
        std::string v = vf::slurp(A.get("--replay")); std::string cs = vf::jget(v, "case"); Hist h; h.name = vf::jget(cs, "history"); h.cfg = vf::jget(cs, "cfg"); h.steps = words(vf::jget(cs, "steps")); h.tier = 0;
        H.assign(1, h); teams.assign(1, atoi(vf::jget(cs, "team").c_str())); reps = 5; workers = 1; }
    struct FU { size_t h; int T; }; std::vector<FU> U; for(size_t i=0;i<H.size();i++) for(int T : teams) U.push_back({i, T});
    size_t done = vf::parallel_units(U.size(), workers, [&](size_t ui){
        const Hist &h = H[U[ui].h]; int T = U[ui].T; std::string unit = "tsan:" + h.name + ":T" + std::to_string(T); std::vector<Obs> ref; std::string err;
        if (!get_ref(h, ref, err)){ vf::emit(vf::J().s("t","error").s("what", err)); return; }
        long ex = 0; std::set<std::string> verdicts; int nv = 0;
        for(int rep=0; rep<reps; rep++){
            vf::Outcome o = vf::run_child([&](int fd){ gs::team_size = T; std::string res = "same";
                run_history(h, [&](int si, Ctx &c){ Obs ob; observe(c, ob, false); std::string detail; std::string v = compare(c, ob, ref[(size_t) si], detail); if (v == "struct" || v == "numeric"){ vf::wr(fd, "V " + v + " " + step_name(h, si) + " after step " + std::to_string(si) + ": " + detail + "\n"); } else if (v == "rounding") res = "rounding"; });
                vf::wr(fd, "DONE " + res + " regions=" + std::to_string(gs::n_regions) + "\n"); }, 600.0); ex++;
            std::string cs = vf::J().s("history", h.name).s("cfg", h.cfg).s("steps", h.steps_str()).i("team", T).s("mode", "tsan-free-run").str();
            if (o.kind != vf::Outcome::OK){ nv++; vf::violation("C13:" + std::string(o.kind == vf::Outcome::SANITIZER ? "tsan:" + tsan_class(o.err) : "free-run:" + o.describe() + ":" + h.fam()), unit, cs, o.err.substr(0, 6000)); break; }
            size_t p = 0; while((p = o.out.find("V ", p)) != std::string::npos && (p == 0 || o.out[p-1] == '\n')){ size_t e = o.out.find('\n', p); std::string l = o.out.substr(p + 2, e - p - 2); std::string v = l.substr(0, l.find(' ')); std::string rest = l.substr(l.find(' ') + 1); nv++;
                vf::violation("C13:" + kind_of(v) + ":" + h.fam() + ":" + rest.substr(0, rest.find(' ')) + ":free-run", unit, cs, "free-running team of " + std::to_string(T) + ": " + rest); p = e; }
            verdicts.insert(o.out.substr(o.out.rfind("DONE")));
        }
        vf::emit(vf::J().s("t","unit").s("unit", unit).i("states", 0).i("transitions", 0).i("execs", ex).i("evals", ex).i("distinct", (long long) verdicts.size()).i("violations", nv).b("complete", true));
    });
    vf::emit(vf::J().s("t","summary").i("units_total", (long long) U.size()).i("units_done", (long long) done).s("bound", "auxiliary: " + std::to_string(H.size()) + " histories free-running under ThreadSanitizer on the shim's pthread team, teams " + vf::jarr(teams) + ", " + std::to_string(reps) + " run(s) each; observations compared with the serial build").b("exhaustive", done == U.size() && !vf::past_deadline()));
    return 0;
#else
    gs::Sym sym = gs::load_symbols(g_self.c_str());
    int bound = (int) A.geti("--bound", tier == "quick" ? 1 : 2); bool tail_history = A.get("--tail", "step") == "history";
    std::vector<int> teams = (tier == "quick") ? std::vector<int>{2, 3} : std::vector<int>{2, 3, 4};
    if (A.has("--teams")){ auto v = vf::jints(A.get("--teams")); teams.assign(v.begin(), v.end()); }
    if (A.has("--replay")){
        std::string v = vf::slurp(A.get("--replay")); std::string cs = vf::jget(v, "case"); Hist h; h.name = vf::jget(cs, "history"); h.cfg = vf::jget(cs, "cfg"); h.steps = words(vf::jget(cs, "steps")); h.tier = 0;
        std::vector<Obs> ref; std::string err; if (!get_ref(h, ref, err)){ vf::emit(vf::J().s("t","error").s("what", err)); return 0; }
        Spine s; s.h = &h; s.ref = &ref; s.T = atoi(vf::jget(cs, "team").c_str()); s.sym = &sym; s.unit = "replay:" + h.name; s.replay = true; s.replay_region = atol(vf::jget(cs, "region").c_str()); auto ch = vf::jints(vf::jget(cs, "choices")); s.replay_prefix.assign(ch.begin(), ch.end()); s.tail_history = true;
        run_spine(s); vf::emit(vf::J().s("t","summary").s("replay", h.name)); return 0;
    }
    // ---- pre-pass: every history once with a team of 2 under the default schedule: number of regions, region functions (coverage)
    std::string tmp = "out/tmp"; { int rc = system("mkdir -p out/tmp"); (void) rc; } std::string tag = tmp + "/c13pre." + std::to_string(getpid()) + ".";
    vf::parallel_units(H.size(), workers, [&](size_t hi){
        pin_worker(); vf::Outcome o = vf::run_child([&](int fd){ vs::outfd = fd; vs::max_steps = 400000; vs::begin_main(); gs::team_size = 2; std::string prof; long lastr = 0; double lastt = vf::now();
            run_history(H[hi], [&](int si, Ctx &c){ Obs ob; long r1 = gs::n_regions; double t1 = vf::now(); observe(c, ob, false); char b[200]; snprintf(b, sizeof(b), "P %s step %d %s: %ld regions %.1f ms, observe %ld regions %.1f ms, points %d+%d\n", H[hi].name.c_str(), si, step_name(H[hi], si).c_str(), r1 - lastr, 1e3 * (t1 - lastt), gs::n_regions - r1, 1e3 * (vf::now() - t1), c.pso ? 0 : c.g.getNumLoaded(), c.pso ? 0 : c.g.getNumNeeded()); prof += b; lastr = gs::n_regions; lastt = vf::now(); }); vs::end_main();
            std::string s = prof + "R " + std::to_string(gs::n_regions) + " " + std::to_string(gs::n_nested) + "\n"; for(auto &f : gs::region_fns) s += "F " + std::to_string(f.second) + " " + gs::fn_name(sym, f.first, false) + "\n"; for(auto &f : gs::nested_fns) s += "N " + std::to_string(f.second) + " " + gs::fn_name(sym, f.first, false) + "\n"; vf::wr(fd, s); }, 300.0);
        FILE *f = fopen((tag + std::to_string(hi)).c_str(), "w"); if (f){ fputs(o.kind == vf::Outcome::OK ? o.out.c_str() : "FAILED\n", f); fclose(f); }
    });
    std::vector<long> nreg(H.size(), 0); std::vector<double> hms(H.size(), 0); std::map<std::string,long> covered, nested_cov; long nested_total = 0;
    for(size_t hi=0; hi<H.size(); hi++){ std::string s = vf::slurp(tag + std::to_string(hi)); unlink((tag + std::to_string(hi)).c_str()); std::istringstream in(s); std::string line;
        while(std::getline(in, line)){ if (line.compare(0, 2, "P ") == 0){ if (A.has("--profile")) fprintf(stderr, "%s\n", line.c_str()); size_t q = line.find(" regions "); if (q != std::string::npos) hms[hi] += atof(line.c_str() + q + 9); q = line.find(" regions ", q + 1); if (q != std::string::npos) hms[hi] += atof(line.c_str() + q + 9); } else if (line.compare(0, 2, "R ") == 0){ long a = 0, b = 0; sscanf(line.c_str() + 2, "%ld %ld", &a, &b); nreg[hi] = a; nested_total += b; } else if (line.compare(0, 2, "F ") == 0){ size_t p = line.find(' ', 2); covered[line.substr(p + 1)] += atol(line.c_str() + 2); } else if (line.compare(0, 2, "N ") == 0){ size_t p = line.find(' ', 2); nested_cov[line.substr(p + 1)] += atol(line.c_str() + 2); } } }
    std::string coverage_note;
    // ---- coverage of the universe of outlined parallel functions
    { std::vector<std::string> missing; long universe = 0; std::set<std::string> uniq; for(auto &p : sym.byoff) uniq.insert(p.second); universe = (long) uniq.size(); std::string nonly; for(auto &n : uniq) if (!covered.count(n)){ if (nested_cov.count(n)) nonly += (nonly.empty() ? "" : ", ") + gs::short_name(n, true); else missing.push_back(gs::short_name(n, true)); }
      std::sort(missing.begin(), missing.end()); missing.erase(std::unique(missing.begin(), missing.end()), missing.end());
      std::string m; for(auto &x : missing){ if (!m.empty()) m += ", "; m += x; } long regs = 0; for(long r : nreg) regs += r;
      coverage_note = ("region coverage: " + std::to_string(covered.size()) + " of " + std::to_string(universe) + " outlined OpenMP parallel functions of the executable (template instances counted separately) are executed by the " + std::to_string(H.size()) + " histories (" + std::to_string(regs) + " region executions per team size, " + std::to_string(nested_total) + " nested regions serialised); executed only as nested regions (team of one, not explored): " + (nonly.empty() ? "none" : nonly) + "; not executed: " + (m.empty() ? "none" : m)); }
    if (A.has("--profile")){ fprintf(stderr, "%s\n", coverage_note.c_str()); for(size_t hi=0; hi<H.size(); hi++) fprintf(stderr, "H %s regions %ld ms %.1f\n", H[hi].name.c_str(), nreg[hi], hms[hi]); return 0; }
    // ---- work units: (history, team size, range of regions, deviation bound, choice-point set)
    // phase A: every history of the tier, every team size, bound kA, all choice points;
    // phase B (thorough): the core histories (those of the quick tier), teams kB_teams, bound 2, without the choice points after critical exit /
    //          loop-end-nowait (no visible operation follows them before the next choice point, so no behaviour is lost under data-race freedom)
    auto coreB = [](const Hist &h)->bool{ return h.tier == 0 && (h.name.find("2d") != std::string::npos || h.fam() == "pso" || h.name == "localp:localp:o1:3d:refine"); };
    struct WU { size_t h; int T; long r0, r1; int bound; bool fine; }; std::vector<WU> W; long per = A.geti("--regions-per-unit", tier == "quick" ? 60 : 30);
    long cap2 = A.geti("--k2-cap", 40); std::string phase = A.get("--phase", "AB");
    int kA = A.has("--bound") ? bound : 1; bool phaseB = (tier != "quick") && !A.has("--bound"); if (phase.find('B') == std::string::npos) phaseB = false; std::vector<int> teamsB = {2, 3}; if (A.has("--teams2")){ auto v = vf::jints(A.get("--teams2")); teamsB.assign(v.begin(), v.end()); }
    bool fineA = !A.has("--coarse");
    for(size_t hi=0; hi<H.size(); hi++){ if (phase.find('A') == std::string::npos) break; W.push_back({hi, 1, 0, 0, 0, true}); for(int T : teams){ if (T >= 4 && H[hi].tier != 0 && !A.has("--teams")) continue; long R = std::max<long>(nreg[hi], 1); for(long r = 0; r < R; r += per) W.push_back({hi, T, r, (r + per >= R) ? LONG_MAX : r + per, kA, fineA}); } }
    { auto rank = [](int T)->int{ return T == 3 ? 0 : T == 2 ? 1 : T == 1 ? 2 : T; }; std::stable_sort(W.begin(), W.end(), [&](const WU &a, const WU &b){ return rank(a.T) < rank(b.T); }); }   // teams of 3, 2, (1), then 4: if the deadline cuts the run, the smaller teams are complete
    size_t nA = W.size(); long perB = std::max<long>(per / 4, 5);
    if (phaseB) for(int T : std::vector<int>(teamsB.rbegin(), teamsB.rend())) for(size_t hi=0; hi<H.size(); hi++){ if (!coreB(H[hi])) continue; long R = std::max<long>(nreg[hi], 1); for(long r = 0; r < R; r += perB) W.push_back({hi, T, r, (r + perB >= R) ? LONG_MAX : r + perB, 2, false}); }
    std::string ctag = tmp + "/c13cls." + std::to_string(getpid()) + ".";
    size_t done = vf::parallel_units(W.size(), workers, [&](size_t ui){
        pin_worker(); const WU &u = W[ui]; const Hist &h = H[u.h]; static std::map<size_t, std::vector<Obs>> cache; std::string err;
        if (!cache.count(u.h)){ std::vector<Obs> ref; if (!get_ref(h, ref, err)){ vf::emit(vf::J().s("t","error").s("what", err)); return; } cache[u.h] = ref; }
        Spine s; s.h = &h; s.ref = &cache[u.h]; s.T = u.T; s.bound = u.bound; s.fine = u.fine; s.cap2 = (u.bound >= 2 && !u.fine) ? cap2 : 0; s.tail_history = tail_history; s.r0 = u.r0; s.r1 = u.r1; s.sym = &sym;
        s.class_file = ctag + std::to_string(ui);
        s.unit = h.name + ":T" + std::to_string(u.T) + (u.T > 1 ? ":k" + std::to_string(u.bound) + (u.fine ? "" : "c") + ":regions[" + std::to_string(u.r0) + "," + (u.r1 == LONG_MAX ? std::string("end") : std::to_string(u.r1)) + ")" : "");
        run_spine(s);
    });
    { // distinct (history, team, region, trace) classes, de-duplicated over all units (the two phases of the thorough tier revisit the same regions)
      std::vector<uint64_t> all; for(size_t ui=0; ui<W.size(); ui++){ std::string f = ctag + std::to_string(ui); std::string b = vf::slurp(f); unlink(f.c_str()); size_t n = b.size() / sizeof(uint64_t); size_t o = all.size(); all.resize(o + n); if (n) memcpy(&all[o], b.data(), n * sizeof(uint64_t)); }
      std::sort(all.begin(), all.end()); all.erase(std::unique(all.begin(), all.end()), all.end());
      vf::emit(vf::J().s("t","unit").s("unit","distinct (history, team size, region, thread-order/chunk-assignment/critical-order trace) classes over all units").i("states", 0).i("transitions", 0).i("execs", 0).i("evals", 0).i("distinct", (long long) all.size()).b("complete", true)); }
    std::string bound_text = std::to_string(H.size()) + " scripted histories (5 grid families, 2-D and 3-D, PSO, node optimiser); every history with a team of 1 and, for team sizes " + vf::jarr(teams) + (tier != "quick" && !A.has("--teams") ? " (team size 4: the core histories only)" : "") + ", per outermost parallel region all schedules with <= " + std::to_string(kA) + " deviation(s) from the default schedule (choice points: region start, critical entry" + (fineA ? "/exit" : "") + ", dynamic chunk acquisition" + std::string(fineA ? " and chunk start" : "") + ", barrier release, " + (fineA ? "loop-end-nowait, " : "") + "thread end/join)";
    if (phaseB){ long nb = 0; for(auto &h : H) if (coreB(h)) nb++; bound_text += "; in addition the " + std::to_string(nb) + " core histories (the 2-D and PSO histories of the quick tier and the 3-D localp history) with team sizes " + vf::jarr(teamsB) + " and <= 2 deviations per region whose default execution has at most " + std::to_string(cap2) + " choice points (choice points before every visible operation: region start, critical entry, chunk acquisition, barrier release, thread end/join; larger regions stay at one deviation)"; }
    bound_text += std::string("; an execution merges with the default run at the end of the first step whose observation is bitwise identical to the serial build") + (tail_history ? " (disabled: every execution runs to the end of the history)" : ""); (void) nA;
    vf::emit(vf::J().s("t","note").s("text", coverage_note));
    vf::emit(vf::J().s("t","sample").raw("case", vf::J().s("history", H[0].name).s("cfg", H[0].cfg).s("steps", H[0].steps_str()).s("schedules", "default everywhere; inside region r (r = every outermost parallel region of the history in turn) every choice vector with <= " + std::to_string(phaseB ? 2 : kA) + " non-default choices").str()));
    for(size_t i = 1; i < H.size() && i < 6; i++) vf::emit(vf::J().s("t","sample").raw("case", vf::J().s("history", H[i * (H.size() / 6)].name).s("cfg", H[i * (H.size() / 6)].cfg).s("steps", H[i * (H.size() / 6)].steps_str()).str()));
    vf::emit(vf::J().s("t","summary").i("units_total", (long long) W.size()).i("units_done", (long long) done).s("bound", bound_text).b("exhaustive", done == W.size() && !vf::past_deadline()));
    return 0;
#endif
#endif
}
