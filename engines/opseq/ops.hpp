// ops.hpp - operation alphabet of the E-A explorer: real public API calls with tiny argument domains,
// guards that mirror the *documented* preconditions, and the boring reference state carried along a history.
#ifndef OPS_HPP
#define OPS_HPP
#include "tgrid.hpp"
namespace ea {
using namespace tg;

struct Op {
    std::string k; int a = 0, b = 0, c = 0, d = 0, e = 0, f = 0;
    Op(){} Op(const std::string &kk, int aa=0, int bb=0, int cc=0, int dd=0, int ee=0, int ff=0) : k(kk), a(aa), b(bb), c(cc), d(dd), e(ee), f(ff){}
    std::string str() const{ std::ostringstream o; o << k << ":" << a << "," << b << "," << c << "," << d << "," << e << "," << f; return o.str(); }
    static Op parse(const std::string &s){ Op o; size_t p = s.find(':'); o.k = s.substr(0, p); if (p != std::string::npos){ auto v = vf::jints(s.substr(p+1)); int *t[6] = {&o.a,&o.b,&o.c,&o.d,&o.e,&o.f}; for(size_t i=0;i<v.size() && i<6;i++) *t[i] = (int) v[i]; } return o; }
};
typedef std::vector<Op> Hist;
inline std::string hstr(const Hist &h){ std::string s; for(auto &o : h){ if (!s.empty()) s += " "; s += o.str(); } return s; }
inline Hist hparse(const std::string &s){ Hist h; std::istringstream in(s); std::string t; while(in >> t) h.push_back(Op::parse(t)); return h; }

// argument alphabets -----------------------------------------------------------------------------
inline double tol_of(int i){ static const double t[] = {0.0, 1e-2, 1e3, 1e-4}; return t[i]; }
inline TypeRefinement crit_of(int i){ static const TypeRefinement c[] = {refine_classic, refine_parents_first, refine_direction_selective, refine_fds, refine_stable}; return c[i]; }
inline TypeDepth type_of(int i){ static const TypeDepth t[] = {type_level, type_iptotal, type_curved, type_iphyperbolic, type_qptotal, type_tensor, type_ipcurved}; return t[i]; }
// limit vectors (index 0 = none)
inline std::vector<int> limits_of(int i, int d){
    static const int L[6][2] = {{0,0}, {0,2}, {1,-1}, {-1,1}, {2,1}, {1,1}};
    if (i == 0) return std::vector<int>(); if (i >= 6) return std::vector<int>((size_t) d, 3); std::vector<int> r(d); for(int j=0;j<d;j++) r[j] = L[i][j < 2 ? j : 1]; return r;
}

// every loaded point of a local polynomial grid (canonical domain or the transform of the configuration is not needed: levels are read from the library's own 1-D cross-check) has its parents
static bool swap_complete(const TasmanianSparseGrid &g){
    int d = g.getNumDimensions(), n = g.getNumLoaded(); auto x = g.getLoadedPoints(); RefLocal R(g.getRule(), g.getOrder());
    std::vector<double> a, b; if (g.isSetDomainTransfrom()) g.getDomainTransform(a, b);
    std::set<std::vector<long>> have; std::vector<std::vector<long>> keys;
    for(int i=0;i<n;i++){ std::vector<long> k((size_t) d); for(int j=0;j<d;j++){ double v = x[(size_t) i*d+j]; if (!a.empty()) v = to_canonical(v, a[(size_t) j], b[(size_t) j]); k[(size_t) j] = dy(v); } have.insert(k); keys.push_back(k); }
    for(int i=0;i<n;i++) for(int j=0;j<d;j++) for(long q : R.parents(keys[(size_t) i][(size_t) j])){ auto c = keys[(size_t) i]; c[(size_t) j] = q; if (!have.count(c)) return false; }
    return true;
}
static bool fresh_setcoef_allowed = false; // set by the explorer for the differential properties

// reference state ----------------------------------------------------------------------------------
struct Ref {
    std::map<Pt, std::vector<double>> vals;   // coordinate -> values last supplied for it
    bool vals_valid = true;                   // false once stored values stop being "supplied" values (coefficient overwrite)
    std::vector<int> limits;                  // effective level limits per the documentation
    bool limits_trusted = true;               // false after limits were tightened below existing levels (scope decision of C08)
    int nloads = 0; int model_kind = 0;
    bool coeffs_stale = false;                // after removePointsByHierarchicalCoefficient the kept coefficients are not those of the kept values (until the next load)
    std::set<Pt> stale;                       // loaded points whose stored value is not a supplied one (after a coefficient overwrite) until they are re-supplied
    std::set<Pt> present;                     // every point the grid has held or been given so far (C08: domination of new limits)
    std::set<Pt> present_loaded;              // the subset that was loaded or delivered (a pending refinement is replaced by the next refinement call: it does not bind new limits)
    std::set<Pt> initial;                     // points that were present but not loaded when a construction began (handed back as candidates whatever the limits)
};

inline bool isLocalFam(const TasmanianSparseGrid &g){ return g.isLocalPolynomial() || g.isWavelet(); }

struct ApplyInfo { std::vector<double> cand; std::vector<double> delivered; bool limits_passed = false; std::vector<int> limits_arg; };

// record supplied values in the reference map
inline void ref_supply(Ref &r, const std::vector<double> &x, const std::vector<double> &v, int d, int outs){
    for(size_t i=0;i<x.size()/d;i++){ Pt p(x.begin()+i*d, x.begin()+(i+1)*d); r.vals[p] = std::vector<double>(v.begin()+i*outs, v.begin()+(i+1)*outs); r.stale.erase(p); }
    r.vals_valid = r.stale.empty();
}
inline void ref_set_limits(Ref &r, const std::vector<int> &L){ if (!L.empty()) r.limits = L; }

inline std::vector<double> scale_vec(const TasmanianSparseGrid &g, int mode, int output){
    int n = g.getNumLoaded(), outs = g.getNumOutputs(); int act = (output == -1) ? outs : 1; std::vector<double> s;
    if (mode == 0) return s;
    s.resize((size_t) n * act);
    if (mode == 1) std::fill(s.begin(), s.end(), 1.0);
    else if (mode == 2){ std::vector<double> w((size_t) g.getNumPoints()); g.integrateHierarchicalFunctions(w.data()); for(int i=0;i<n;i++) for(int k=0;k<act;k++) s[(size_t) i*act+k] = std::abs(w[i]); } // the header's own example
    else for(size_t i=0;i<s.size();i++) s[i] = 0.25 + 0.5 * ((i * 7) % 5);
    return s;
}

// candidates appropriate for the family (the call itself may set limits: e = limits index)
inline std::vector<double> candidates(TasmanianSparseGrid &g, const Op &op, Ref &r){
    int d = g.getNumDimensions(); auto L = limits_of(op.e, d); ref_set_limits(r, L);
    if (isLocalFam(g)) return g.getCandidateConstructionPoints(tol_of(op.a == 0 ? 3 : 0), crit_of(op.b), -1, L);
    if (op.c == 1) return g.getCandidateConstructionPoints(type_of(op.b), (g.isGlobal() || g.getNumLoaded() > 0) ? 0 : -1, L);
    TypeDepth t = type_of(op.b); std::vector<int> w(OneDimensionalMeta::isTypeCurved(t) ? 2*d : d, 1); if (OneDimensionalMeta::isTypeCurved(t)) for(int j=d;j<2*d;j++) w[j] = 0;
    if (op.d == 1){ w[0] = 2; }
    return g.getCandidateConstructionPoints(t, w, L);
}

// Applies op. Returns false when the documented preconditions do not admit the op in this state (pruned, no call made).
inline bool apply(TasmanianSparseGrid &g, const Op &op, Ref &r, ApplyInfo *info = nullptr){
    if (g.empty()) return false;
    if (g.getNumLoaded() + g.getNumNeeded() > 3000 && !(op.k == "load" && g.getNumLoaded() == 0)) return false; // the lattice is bounded by 3000 points: no transitions out of larger states (O(n^2) operations would look like hangs), except the first load of a deliberately large configuration
    int d = g.getNumDimensions(), outs = g.getNumOutputs(); bool constr = g.isUsingConstruction(); bool local = isLocalFam(g);
    const std::string &k = op.k;
    if (k == "load"){
        if (constr || outs == 0 || g.getNumPoints() == 0) return false;
        auto x = (g.getNumNeeded() > 0) ? g.getNeededPoints() : g.getLoadedPoints();
        auto v = model_values(op.a, x, d, outs);
        ref_supply(r, x, v, d, outs); r.nloads++; r.model_kind = op.a; r.coeffs_stale = false;
        g.loadNeededValues(v); return true;
    }
    if (k == "refsurp"){ // a tol, b criteria, c output, d scale mode, e limits, f overload (0 vector, 1 raw)
        if (!local || constr || outs == 0 || g.getNumLoaded() == 0 || op.c >= outs) return false;
        if (g.isWavelet() && op.d != 0) return false; // scale correction is a local-polynomial feature
        auto L = limits_of(op.e, d); auto s = scale_vec(g, op.d, op.c); ref_set_limits(r, L);
        if (info){ info->limits_passed = !L.empty(); info->limits_arg = L; }
        if (op.f == 0) g.setSurplusRefinement(tol_of(op.a), crit_of(op.b), op.c, L, s);
        else g.setSurplusRefinement(tol_of(op.a), crit_of(op.b), op.c, L.empty() ? nullptr : L.data(), s.empty() ? nullptr : s.data());
        return true;
    }
    if (k == "round"){ // macro transition: one complete adaptive round = refine (a tol, b criteria / type) then load the model values of the needed points
        if (constr || outs == 0 || g.getNumLoaded() == 0 || g.getNumNeeded() > 0) return false;
        if (local && op.d >= 10){ // d = 10 + k: the scale correction is the indicator of loaded point k (refinement steered to a single point: irregular, non-lower index sets)
            int n = g.getNumLoaded(); if (op.d - 10 >= n) return false; std::vector<double> s((size_t) n * (size_t) outs, 0.0); for(int q=0;q<outs;q++) s[(size_t)(op.d - 10) * (size_t) outs + (size_t) q] = 1.0;
            g.setSurplusRefinement(tol_of(op.a), crit_of(op.b), -1, std::vector<int>(), s); }
        else if (local) g.setSurplusRefinement(tol_of(op.a), crit_of(op.b), -1, std::vector<int>());
        else if (nonNestedGlobal(g)) return false;
        else g.setAnisotropicRefinement(type_of(op.b), 2, 0, std::vector<int>());
        if (g.getNumNeeded() == 0) return true;
        auto x = g.getNeededPoints(); auto v = model_values(r.model_kind, x, d, outs); ref_supply(r, x, v, d, outs); r.nloads++; r.coeffs_stale = false;
        g.loadNeededValues(v); return true;
    }
    if (k == "rmpoints"){ // removePointsByHierarchicalCoefficient: a tolerance index (b = 0) or the number of points to keep (b = 1, a = count)
        if (!g.isLocalPolynomial() || constr || outs == 0 || g.getNumLoaded() < 4 || g.getNumNeeded() > 0) return false;
        if (op.b == 0) g.removePointsByHierarchicalCoefficient(tol_of(op.a), -1); else g.removePointsByHierarchicalCoefficient(std::max(2, g.getNumLoaded() * op.a / 4), -1);
        r.coeffs_stale = true;
        return true;
    }
    if (k == "deliverpair"){ // two user-chosen samples in one batch: points a and b of the full grid of depth c (enumerated exhaustively by the C04 pair experiment)
        if (!constr || !g.isLocalPolynomial()) return false;
        TasmanianSparseGrid fine; fine.makeLocalPolynomialGrid(d, 0, op.c, g.getOrder(), g.getRule()); auto xf = fine.getPoints(); int nf = fine.getNumPoints();
        if (op.a >= nf || op.b >= nf) return false;
        std::vector<double> y(xf.begin() + (size_t) op.a*d, xf.begin() + (size_t)(op.a+1)*d); if (op.b != op.a) y.insert(y.end(), xf.begin() + (size_t) op.b*d, xf.begin() + (size_t)(op.b+1)*d);
        { auto xl = g.getLoadedPoints(); std::set<Pt> have; for(size_t i=0;i+d<=xl.size();i+=d) have.insert(Pt(xl.begin()+i, xl.begin()+i+d)); for(size_t i=0;i+d<=y.size();i+=d) if (have.count(Pt(y.begin()+i, y.begin()+i+d))) return false; } // a loaded point is not delivered again
        auto v = model_values(r.model_kind, y, d, outs); ref_supply(r, y, v, d, outs); if (info) info->delivered = y;
        g.loadConstructedPoints(y, v); return true;
    }
    if (k == "deliverx"){ // samples the user computed on his own: every point i of the two-levels-deeper full grid with i % 3 == a (an irregular set with holes in the hierarchy), minus the loaded ones
        if (!constr || !g.isLocalPolynomial()) return false;
        TasmanianSparseGrid fine; fine.makeLocalPolynomialGrid(d, 0, op.b, g.getOrder(), g.getRule());
        if (g.isSetDomainTransfrom()){ std::vector<double> ta, tb; g.getDomainTransform(ta, tb); fine.setDomainTransform(ta, tb); }
        auto xf = fine.getPoints(); std::set<Pt> have; { auto xl = g.getLoadedPoints(); for(size_t i=0;i+d<=xl.size();i+=d) have.insert(Pt(xl.begin()+i, xl.begin()+i+d)); }
        std::vector<double> y; for(size_t i=0;i<xf.size()/d;i++) if ((int)(i % 3) == op.a){ Pt p(xf.begin()+i*d, xf.begin()+(i+1)*d); if (!have.count(p)) y.insert(y.end(), p.begin(), p.end()); }
        if (y.empty() || y.size() / d > 60) return false;
        auto v = model_values(r.model_kind, y, d, outs); ref_supply(r, y, v, d, outs); if (info) info->delivered = y;
        g.loadConstructedPoints(y, v); return true;
    }
    if (k == "refaniso"){ // a type, b min_growth, c output, e limits
        if (local || constr || outs == 0 || g.getNumLoaded() == 0 || op.c >= outs || nonNestedGlobal(g)) return false;
        auto L = limits_of(op.e, d); ref_set_limits(r, L); if (info){ info->limits_passed = !L.empty(); info->limits_arg = L; }
        g.setAnisotropicRefinement(type_of(op.a), op.b, (g.isGlobal() && op.c < 0) ? 0 : op.c, L); return true; // Global grids require a specific output (documented)
    }
    if (k == "refsurpgs"){ // a tol, c output, e limits
        if (!(g.isSequence() || (g.isGlobal() && OneDimensionalMeta::isSequence(g.getRule()))) || constr || outs == 0 || g.getNumLoaded() == 0 || op.c >= outs) return false;
        auto L = limits_of(op.e, d); ref_set_limits(r, L); if (info){ info->limits_passed = !L.empty(); info->limits_arg = L; }
        g.setSurplusRefinement(tol_of(op.a), (g.isGlobal() && op.c < 0) ? 0 : op.c, L); return true;
    }
    if (k == "update"){ // a depth, b type, e limits
        if (local || constr) return false;
        if (g.getRule() == rule_customtabulated && op.a > 2) return false; // the table objects of the lattice hold 3 levels: a deeper update is documented to throw
        auto L = limits_of(op.e, d); ref_set_limits(r, L); if (info){ info->limits_passed = !L.empty(); info->limits_arg = L; }
        TypeDepth t = type_of(op.b); std::vector<int> w; if (op.d == 1){ w.assign(OneDimensionalMeta::isTypeCurved(t) ? 2*d : d, 1); w[0] = 2; if (OneDimensionalMeta::isTypeCurved(t)) for(int j=d;j<2*d;j++) w[j] = 0; }
        if (op.d == 2){ if (!OneDimensionalMeta::isTypeCurved(t)) return false; w.assign(2*d, 1); for(int j=d;j<2*d;j++) w[j] = -2; } // curved weights with negative sum: the non-lower selection path
        if (g.getNumLoaded() == 0 || outs == 0) r.vals.clear();
        g.updateGrid(op.a, t, w, L); return true;
    }
    if (k == "merge"){
        if (g.getNumNeeded() == 0 || constr || outs == 0) return false;
        { auto x = g.getPoints(); auto xn = g.getNeededPoints(); auto xl = g.getLoadedPoints(); std::vector<double> all = xl; all.insert(all.end(), xn.begin(), xn.end());
          ref_supply(r, all, std::vector<double>(all.size() / d * outs, 0.0), d, outs); } // documented: all values reset to 0
        g.mergeRefinement(); return true;
    }
    if (k == "clear"){ if (g.getNumNeeded() == 0 || g.getNumLoaded() == 0 || constr) return false; g.clearRefinement(); return true; }
    if (k == "setcoef"){
        if (outs == 0 || constr) return false; // a pending refinement is legal: the call discards it
        if (g.getNumLoaded() == 0 && !(fresh_setcoef_allowed && g.getNumNeeded() > 0)) return false; // on a grid without values the call turns the needed points into loaded ones (explored for C06 / C11 only)
        size_t n = (size_t) g.getNumPoints() * outs * (g.isFourier() ? 2 : 1); std::vector<double> c(n); for(size_t i=0;i<n;i++) c[i] = std::cos(0.7 * i + 0.1 + op.a) / (1.0 + 0.05 * i);
        { auto xl = g.getLoadedPoints(); for(size_t i=0;i+d<=xl.size();i+=d) r.stale.insert(Pt(xl.begin()+i, xl.begin()+i+d)); }
        g.setHierarchicalCoefficients(c); r.vals_valid = false; return true;
    }
    if (k == "swap"){ // C04 swap experiment (never part of an alphabet): affine values, a of the zero-coefficient nodes removed, a NEW nodes delivered one sample at a time
        if (!g.isLocalPolynomial() || constr || outs == 0 || g.getNumLoaded() > 0 || g.getOrder() == 0) return false;
        auto x0 = g.getNeededPoints(); auto v0 = model_values(1, x0, d, outs); g.loadNeededValues(v0); ref_supply(r, x0, v0, d, outs); r.model_kind = 1; int n = g.getNumLoaded(); if (n < op.a + 4) return false;
        std::set<Pt> original; for(size_t i=0;i+d<=x0.size();i+=d) original.insert(Pt(x0.begin()+i, x0.begin()+i+d));
        g.removePointsByHierarchicalCoefficient(n - op.a, -1); if (g.getNumLoaded() != n - op.a) return false;
        if (!swap_complete(g)) return false; // the removal took an inner node and left its descendants: a grid with holes is outside what the routes promise (C01 exemption)
        g.beginConstruction(); auto cand = g.getCandidateConstructionPoints(0.0, refine_classic); int added = 0;
        for(size_t i=0; i+d<=cand.size() && added < op.a; i+=d){ Pt p(cand.begin()+i, cand.begin()+i+d); if (original.count(p)) continue; auto v = model_values(1, p, d, outs); g.loadConstructedPoints(p, v); ref_supply(r, p, v, d, outs); added++; }
        return added == op.a && g.getNumLoaded() == n && swap_complete(g);
    }
    if (k == "clearlim"){ if (g.getLevelLimits().empty()) return false; g.clearLevelLimits(); r.limits.clear(); return true; }
    if (k == "begin"){ if (constr || outs == 0 || nonNestedGlobal(g)) return false; g.beginConstruction(); return true; }
    if (k == "finish"){ if (!constr) return false; g.finishConstruction(); return true; }
    if (k == "cand"){ if (!constr) return false; auto c = candidates(g, op, r); if (info){ info->cand = c; auto L = limits_of(op.e, d); info->limits_passed = !L.empty(); info->limits_arg = L; } return true; }
    if (k == "bdeliver"){ // macro transition: beginConstruction() followed by deliver (same arguments)
        if (constr || outs == 0 || nonNestedGlobal(g)) return false;
        g.beginConstruction(); Op q = op; q.a = 0; auto x = candidates(g, q, r); size_t n = x.size() / d; if (n == 0) return true;
        if (info){ info->cand = x; auto L = limits_of(op.e, d); info->limits_passed = !L.empty(); info->limits_arg = L; }
        size_t cnt = (op.a == 0) ? std::min<size_t>(n, 12) : std::min<size_t>(n, (size_t) op.a);
        std::vector<double> y = (op.b == 0) ? std::vector<double>(x.begin(), x.begin() + cnt * d) : std::vector<double>(x.end() - cnt * d, x.end());
        auto v = model_values(r.model_kind, y, d, outs); ref_supply(r, y, v, d, outs); if (info) info->delivered = y;
        g.loadConstructedPoints(y, v); return true;
    }
    if (k == "deliver"){ // a: how many (0 = all, capped at 12), b: from the front (0) or the back (1) of the candidate list; e limits, c/d as for cand
        if (!constr) return false;
        Op q = op; q.a = 0; auto x = candidates(g, q, r); size_t n = x.size() / d; if (n == 0) return false;
        if (info){ info->cand = x; auto L = limits_of(op.e, d); info->limits_passed = !L.empty(); info->limits_arg = L; }
        size_t cnt = (op.a == 0) ? std::min<size_t>(n, 12) : std::min<size_t>(n, (size_t) op.a);
        std::vector<double> y = (op.b == 0) ? std::vector<double>(x.begin(), x.begin() + cnt * d) : std::vector<double>(x.end() - cnt * d, x.end());
        auto v = model_values(r.model_kind, y, d, outs); ref_supply(r, y, v, d, outs); if (info) info->delivered = y;
        g.loadConstructedPoints(y, v); return true;
    }
    return false;
}

} // namespace ea
#endif
