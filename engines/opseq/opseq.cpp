// opseq - engine E-A: explicit-state breadth-first search over operation histories of one real grid object.
//   state      = (configuration, history) replayed on a fresh object; deduplicated by a canonical observation key
//   transition = one real public API call; every transition runs in a process forked from the live state
//                (the fork is the copy of the state; crashes, sanitizer reports and hangs become outcomes)
//   monitors   = per property: invariants on every state, step relations on every transition, differential
//                relations (restore-from-file vs original, copy vs source, misuse then continue)
#include "ops.hpp"
#include <deque>
using namespace ea;

static std::string g_prop = "C01", g_tier = "quick"; static int g_depth = 3; static double g_watch = 8.0;

struct Mon {
    const Cfg *cfg = nullptr; Hist hist; std::string unit; long evals = 0; int nviol = 0;
    void fail(const std::string &sig, const std::string &detail){
        nviol++;
        vf::violation(sig, unit, vf::J().s("cfg", cfg->str()).s("hist", hstr(hist)).s("prop", g_prop).str(), detail);
    }
};
static std::string famof(const TasmanianSparseGrid &g){ return g.isGlobal()?"global":g.isSequence()?"sequence":g.isLocalPolynomial()?"localp":g.isWavelet()?"wavelet":"fourier"; }
static std::string rulefam(const TasmanianSparseGrid &g){ std::string s = famof(g) + ":" + IO::getRuleString(g.getRule()); if (isLocalFam(g)) s += ":order" + std::to_string(g.getOrder()); return s; }

static std::vector<double> probes(const TasmanianSparseGrid &g, const Cfg &cfg, int np = 3){
    int d = g.getNumDimensions(); std::vector<double> x; bool tr = !cfg.ta.empty();
    for(int t=0;t<np;t++) for(int j=0;j<d;j++){
        double u = -0.83 + 0.55 * t + 0.21 * j; if (u > 0.97) u -= 1.7;
        if (g.isFourier()){ u = 0.5 * (u + 1.0); x.push_back(tr ? cfg.ta[j] + u * (cfg.tb[j] - cfg.ta[j]) : u); }
        else if (cfg.rule == rule_gausslaguerre || cfg.rule == rule_gausslaguerreodd) x.push_back(tr ? (1.0 + u) / cfg.tb[j] + cfg.ta[j] : 1.0 + u);
        else if (cfg.rule == rule_gausshermite || cfg.rule == rule_gausshermiteodd) x.push_back(tr ? u / std::sqrt(cfg.tb[j]) + cfg.ta[j] : u);
        else x.push_back(tr ? 0.5 * (cfg.tb[j] - cfg.ta[j]) * u + 0.5 * (cfg.tb[j] + cfg.ta[j]) : u);
    }
    return x;
}
static double vscale(const TasmanianSparseGrid &g){ double s = 1.0; const double *v = g.getLoadedValues(); if (v) for(size_t i=0;i<(size_t) g.getNumLoaded() * g.getNumOutputs();i++) s = std::max(s, std::abs(v[i])); return s; }
static double canon_coord(const Cfg &cfg, double v, int j){ return cfg.ta.empty() ? v : to_canonical(v, cfg.ta[j], cfg.tb[j]); }

// snapshot of the observable state before an operation (for step relations)
struct Snap { std::vector<double> loaded, needed, values, surrogate, coeffs; std::vector<int> limits; bool constr = false; int nl = 0, nn = 0; };
static Snap snapshot(const TasmanianSparseGrid &g, const Cfg &cfg){
    Snap s; s.nl = g.getNumLoaded(); s.nn = g.getNumNeeded(); s.constr = g.isUsingConstruction(); s.limits = g.getLevelLimits();
    if (s.nl > 0) s.loaded = g.getLoadedPoints(); if (s.nn > 0) s.needed = g.getNeededPoints();
    int outs = g.getNumOutputs();
    if (s.nl > 0 && outs > 0){ const double *v = g.getLoadedValues(); s.values.assign(v, v + (size_t) s.nl * outs); auto p = probes(g, cfg); g.evaluateBatch(p, s.surrogate);
        const double *c = g.getHierarchicalCoefficients(); if (c) s.coeffs.assign(c, c + (size_t) s.nl * outs * (g.isFourier() ? 2 : 1)); }
    return s;
}

static std::vector<Op> alphabet_for(const std::string &prop, const Cfg &cfg, const std::string &tier);
static void c04_pair_experiment(Mon &m, TasmanianSparseGrid &g, const Ref &r, long &nexp);
static void c04_swap_experiment(Mon &m, TasmanianSparseGrid &g, const Ref &r, long &nexp);
#include "mon_c01.inc"
#include "mon_c04.inc"
#include "mon_c07.inc"
#include "mon_c08.inc"
#include "mon_diff.inc"
#include "mon_c14.inc"
#include "lattice.inc"

// ---------------------------------------------------------------- state key
static std::string refbits(const Ref &r){ std::ostringstream o; o << " ref:" << r.vals_valid << r.coeffs_stale << r.stale.size() << r.limits_trusted << r.model_kind << ":"; for(int v : r.limits) o << v << ",";
    if (g_prop == "C08"){ std::ostringstream q; for(auto &p : r.present) for(double v : p) q << vf::hexd(v) << ","; o << " present:" << vf::digest(q.str()); } return o.str(); }
static std::string obskey(const TasmanianSparseGrid &g, const Ref &r){ return vf::digest(obs(g) + refbits(r)); }

static void run_state_monitors(Mon &m, TasmanianSparseGrid &g, const Ref &r){
    if (g_prop == "C01") c01_state(m, g, r);
    else if (g_prop == "C04") c04_state(m, g, r);
    else if (g_prop == "C07") c07_state(m, g, r);
    else if (g_prop == "C08") c08_state(m, g, r);
}
static void run_step_monitors(Mon &m, const Snap &before, const Op &op, TasmanianSparseGrid &g, const Ref &rb, Ref &ra, const ApplyInfo &info){
    if (g_prop == "C07") c07_step(m, before, op, g, rb, ra, info);
    else if (g_prop == "C08") c08_step(m, before, op, g, rb, ra, info);
    else if (g_prop == "C04") c04_step(m, before, op, g, rb, ra, info);
}
static void run_pre_monitors(Mon &m, TasmanianSparseGrid &g, const Op &op, const Ref &r){
    if (g_prop == "C07" && op.k == "refsurp"){ g_c07_scale = scale_vec(g, op.d, op.c); }
    if (g_prop == "C08") c08_pre(m, g, op, r);
}
// differential / misuse experiments fork from the live state themselves
static void run_experiments(Mon &m, TasmanianSparseGrid &g, const Ref &r, long &nexp){
    if (g_prop == "C06") c06_experiments(m, g, r, nexp);
    else if (g_prop == "C11") c11_experiments(m, g, r, nexp);
    else if (g_prop == "C14") c14_experiments(m, g, r, nexp);
    else if (g_prop == "C04"){ c04_pair_experiment(m, g, r, nexp); c04_swap_experiment(m, g, r, nexp); }
}

// replays a history on a fresh object; returns false if some op is not applicable (cannot happen for recorded histories)
static bool rebuild(const Cfg &cfg, const Hist &h, TasmanianSparseGrid &g, Ref &r){
    make(g, cfg); r = Ref(); r.limits = cfg.limits; if (g_prop == "C08") ref_observe(g, r);
    for(auto &op : h){ ApplyInfo info; if (!apply(g, op, r, &info)) return false; if (g_prop == "C08") c08_ref_after(cfg, g, op, r, info); }
    return true;
}

// C04 (and C01-like nodal) on user-chosen sample pairs: in the initial state of a 3-D local polynomial configuration, a depth-1 grid is put
// under construction, its initial points are delivered, then EVERY pair of points of the depth-3 full grid is delivered as one batch
// (holes in the hierarchy: a point whose direct parent is missing but a farther ancestor exists) and all routes are compared.
static void c04_pair_experiment(Mon &m, TasmanianSparseGrid &g, const Ref &r, long &nexp){
    const Cfg &cfg = *m.cfg; if (!(cfg.fam == F_LOCALP && cfg.dims == 3 && m.hist.empty() && cfg.outs > 0)) return;
    Cfg c1 = cfg; c1.depth = 1; int fd = 3; TasmanianSparseGrid fine; fine.makeLocalPolynomialGrid(3, 0, fd, cfg.order, cfg.rule); int nf = fine.getNumPoints();
    experiment(m, nexp, "C04:crash:pair-experiment", [&](std::ostream &out){
        long ev = 0; int reported = 0;
        for(int i=0;i<nf && reported < 3;i++) for(int j=i;j<nf && reported < 3;j++){
            Hist h; h.push_back(Op("begin")); h.push_back(Op("deliver", 0, 0)); h.push_back(Op("deliverpair", i, j, fd));
            TasmanianSparseGrid g2; Ref r2; if (!rebuild(c1, h, g2, r2)) continue;
            Mon m2; m2.cfg = &c1; m2.hist = h; m2.unit = m.unit; c04_state(m2, g2, r2); ev += m2.evals; nexp++; if (m2.nviol) reported++;
        }
        out << "E " << ev << "\n";
    }, 600.0);
    (void) g; (void) r;
}

// C04 swap experiment (initial state of every local polynomial configuration): values of an affine model are loaded (all deeper nodes then carry a zero coefficient),
// k of those nodes are removed (the routes still agree: a basis function with a zero coefficient went away) and k NEW nodes are added one sample at a time through
// the construction path, which updates the grid in place. The number of points is back where it was, the points are not: anything cached per grid and validated
// by a count only is now stale. All routes of c04_state must still agree.
static void c04_swap_experiment(Mon &m, TasmanianSparseGrid &g, const Ref &r, long &nexp){
    const Cfg &cfg = *m.cfg; if (!(cfg.fam == F_LOCALP && m.hist.empty() && cfg.outs > 0 && cfg.order != 0)) return;
    experiment(m, nexp, "C04:crash:swap-experiment", [&](std::ostream &out){
        long ev = 0;
        for(int k = 1; k <= 3; k++){
            Hist h; h.push_back(Op("swap", k)); TasmanianSparseGrid g2; Ref r2; if (!rebuild(cfg, h, g2, r2)) continue;
            Mon m2; m2.cfg = &cfg; m2.hist = h; m2.unit = m.unit; c04_state(m2, g2, r2); ev += m2.evals; nexp++; if (m2.nviol) break;
        }
        out << "E " << ev << "\n";
    }, 120.0);
    (void) g; (void) r;
}

struct TransRes { Op op; std::string key; bool ok = false; std::string outcome; long evals = 0, nexp = 0; int nviol = 0; };

// executed in the child that holds state (cfg, h): expands every op in a grandchild
static void expand_state(const Cfg &cfg, const Hist &h, const std::string &expect_key, const std::string &unit, const std::vector<Op> &alphabet, int fd, std::map<std::string,int> &hangs){
    TasmanianSparseGrid g; Ref r;
    if (!rebuild(cfg, h, g, r)){ vf::wr(fd, "E replay-failed\n"); return; }
    std::string key = obskey(g, r);
    if (!expect_key.empty() && key != expect_key){ vf::wr(fd, "E non-deterministic-replay\n"); return; }
    if (expect_key.empty()){ // initial state: monitors run here
        Mon m; m.cfg = &cfg; m.hist = h; m.unit = unit; long nexp = 0;
        run_state_monitors(m, g, r); run_experiments(m, g, r, nexp);
        vf::wr(fd, "I " + key + " " + std::to_string(m.evals) + " " + std::to_string(nexp) + " " + std::to_string(m.nviol) + "\n");
    }
    for(auto &op : alphabet){
        if (vf::past_deadline()){ vf::wr(fd, "D deadline\n"); return; }
        { Ref rt = r; /* guard evaluation must not touch the live state: guards only read */ }
        std::string hk = op.k + (r.limits.empty() && op.e == 0 ? "" : ":lim");
        if (hangs[hk] >= 2){ vf::wr(fd, "S " + op.str() + "\n"); continue; } // known hanging situation in this unit: skipped, counted
        vf::Outcome o = vf::run_child([&](int gfd){
            Mon m; m.cfg = &cfg; m.hist = h; m.hist.push_back(op); m.unit = unit;
            Snap before = snapshot(g, cfg); Ref ra = r; ApplyInfo info; bool ok;
            run_pre_monitors(m, g, op, r);
            try{ ok = apply(g, op, ra, &info); }
            catch(std::exception &e){
                // the alphabet only issues calls whose documented preconditions hold: an exception is a finding of the property that owns the call
                std::string what = e.what(); std::string slug; for(char ch : what.substr(0, 60)) slug += (isalnum((unsigned char) ch) ? ch : '-');
                m.fail(g_prop + ":unexpected-exception:" + op.k + ":" + famof(g) + ":" + slug, "legal call " + op.str() + " throws: " + what);
                vf::wr(gfd, "X " + std::to_string(m.nviol) + "\n"); return; }
            if (!ok){ vf::wr(gfd, "P\n"); return; }
            long nexp = 0;
            if (g_prop == "C08") c08_ref_after(cfg, g, op, ra, info);
            run_step_monitors(m, before, op, g, r, ra, info);
            run_state_monitors(m, g, ra);
            std::string k1 = obskey(g, ra);
            vf::wr(gfd, "K " + k1 + " " + std::to_string(m.evals) + " " + std::to_string(m.nviol) + "\n");
            run_experiments(m, g, ra, nexp);
            vf::wr(gfd, "N " + std::to_string(m.evals) + " " + std::to_string(nexp) + " " + std::to_string(m.nviol) + "\n");
            std::string k2 = vf::digest(bytes(g, true));
            vf::wr(gfd, "W " + k2 + "\n");
        }, 4.0 * g_watch, g_watch); // g_watch limits the CPU time of the transition (a loaded machine must not turn a slow load into a hang), 4x that the wall-clock time
        std::istringstream in(o.out); std::string line, k1, k2; long ev = 0, nexp = 0; int nv = 0; bool pruned = false, exc = false;
        while(std::getline(in, line)){ std::istringstream ls(line); std::string t; ls >> t; if (t == "P") pruned = true; else if (t == "X"){ exc = true; ls >> nv; } else if (t == "K"){ ls >> k1 >> ev >> nv; } else if (t == "N"){ ls >> ev >> nexp >> nv; } else if (t == "W") ls >> k2; }
        if (pruned) continue;
        std::string outcome = o.describe();
        if (o.kind != vf::Outcome::OK){
            std::string cls = (o.kind == vf::Outcome::SANITIZER) ? o.sanitizer_class() : o.describe();
            bool in_write = !k1.empty() && k2.empty();
            if (o.kind == vf::Outcome::TIMEOUT) hangs[hk]++;
            Hist hh = h; hh.push_back(op);
            // a failure inside the final write() belongs to the round-trip property only
            if (!in_write || g_prop == "C06"){
                std::string sig = g_prop + (o.kind == vf::Outcome::TIMEOUT ? ":hang:" : ":crash:") + (in_write ? "write-after-" : "") + op.k + ":" + (o.kind == vf::Outcome::TIMEOUT ? cfgfam(cfg) : cls);
                vf::violation(sig, unit, vf::J().s("cfg", cfg.str()).s("hist", hstr(hh)).s("prop", g_prop).str(), outcome + " in " + op.str() + ": " + o.err.substr(0, 1200)); nv++;
            }
            if (k1.empty()){ vf::wr(fd, "F " + op.str() + " " + std::to_string(nv) + "\n"); continue; }
        }
        if (exc){ vf::wr(fd, "F " + op.str() + " " + std::to_string(nv) + "\n"); continue; }
        std::string key2 = k1 + (k2.empty() ? "!nowrite" : k2.substr(0, 12));
        vf::wr(fd, "T " + op.str() + " " + key2 + " " + std::to_string(ev) + " " + std::to_string(nexp) + " " + std::to_string(nv) + "\n");
    }
}

struct UnitStats { long states = 0, transitions = 0, execs = 0, evals = 0, nexp = 0, failed_ops = 0, skipped = 0; int nviol = 0; bool complete = true; int maxdepth = 0; std::map<std::string,long> optally; std::string sample; };

static void explore_unit(const Cfg &cfg, const std::string &unit, UnitStats &S){
    std::vector<Op> alphabet = alphabet_for(g_prop, cfg, g_tier);
    std::set<std::string> seen; std::deque<std::pair<Hist,std::string>> frontier; frontier.push_back(std::make_pair(Hist(), std::string()));
    std::map<std::string,int> hangs; bool first = true;
    while(!frontier.empty()){
        if (vf::past_deadline()){ S.complete = false; break; }
        Hist h = frontier.front().first; std::string key = frontier.front().second; frontier.pop_front();
        bool expand = (int) h.size() < g_depth;
        std::vector<Op> ops = expand ? alphabet : std::vector<Op>();
        // hang counters are carried across children through a small text protocol
        vf::Outcome o = vf::run_child([&](int fd){ std::map<std::string,int> hg = hangs; expand_state(cfg, h, key, unit, ops, fd, hg); std::string hs = "H"; for(auto &p : hg) hs += " " + p.first + "=" + std::to_string(p.second); vf::wr(fd, hs + "\n"); }, 60.0 + 4.0 * g_watch * (ops.size() + 2));
        S.execs++;
        std::istringstream in(o.out); std::string line;
        while(std::getline(in, line)){
            std::istringstream ls(line); std::string t; ls >> t;
            if (t == "I"){ std::string k; long ev, nx; int nv; ls >> k >> ev >> nx >> nv; seen.insert(k); S.states++; S.evals += ev; S.nexp += nx; S.nviol += nv; }
            else if (t == "T"){ std::string ops_, k; long ev, nx; int nv; ls >> ops_ >> k >> ev >> nx >> nv; S.transitions++; S.execs++; S.evals += ev; S.nexp += nx; S.nviol += nv; S.optally[Op::parse(ops_).k]++;
                if (seen.insert(k).second){ S.states++; Hist hn = h; hn.push_back(Op::parse(ops_)); S.maxdepth = std::max(S.maxdepth, (int) hn.size()); if ((int) hn.size() >= S.maxdepth) S.sample = hstr(hn); frontier.push_back(std::make_pair(hn, k.substr(0, 32))); } }
            else if (t == "F"){ std::string ops_; int nv; ls >> ops_ >> nv; S.transitions++; S.execs++; S.failed_ops++; S.nviol += nv; }
            else if (t == "S"){ S.skipped++; }
            else if (t == "D"){ S.complete = false; }
            else if (t == "H"){ std::string kv; while(ls >> kv){ size_t p = kv.rfind('='); hangs[kv.substr(0, p)] = atoi(kv.substr(p+1).c_str()); } }
            else if (t == "E"){ std::string what; ls >> what; vf::emit(vf::J().s("t","error").s("what", unit + " [" + hstr(h) + "]: " + what)); }
        }
        if (o.kind != vf::Outcome::OK){
            // the expanding child itself died: replay of a recorded history failed (or monitors of the initial state crashed)
            std::string cls = (o.kind == vf::Outcome::SANITIZER) ? o.sanitizer_class() : o.describe();
            if (first){ vf::violation(g_prop + ":crash:initial-state:" + cls, unit, vf::J().s("cfg", cfg.str()).s("hist", "").s("prop", g_prop).str(), o.describe() + ": " + o.err.substr(0, 1200)); S.nviol++; }
            else vf::emit(vf::J().s("t","error").s("what", unit + " [" + hstr(h) + "]: expanding child failed: " + o.describe() + " " + o.err.substr(0, 600)));
        }
        first = false;
    }
}

int main(int argc, char **argv){
    vf::Args A(argc, argv);
    g_prop = A.get("--prop", "C01"); fresh_setcoef_allowed = (g_prop == "C06" || g_prop == "C11"); g_tier = A.get("--tier", "quick"); g_depth = (int) A.geti("--depth", g_tier == "quick" ? 3 : 4);
    g_watch = A.getd("--watchdog", g_prop == "C08" ? 5.0 : 15.0);
    double dl = A.getd("--deadline", 0); if (dl > 0) vf::g_deadline = vf::now() + dl;
    if (A.has("--replay")){
        std::string v = vf::slurp(A.get("--replay")); std::string cs = vf::jget(v, "case"); Cfg cfg = Cfg::parse(vf::jget(cs, "cfg")); Hist h = hparse(vf::jget(cs, "hist"));
        g_watch = std::max(120.0, 2.0 * g_watch); // a timed-out history is re-run alone with a long limit (CPU seconds) before it is called a hang
        UnitStats S;
        if (h.empty()){ std::map<std::string,int> hg; vf::Outcome o = vf::run_child([&](int fd){ expand_state(cfg, h, "", "replay", std::vector<Op>(), fd, hg); }, 120.0);
            if (o.kind != vf::Outcome::OK){ std::string cls = (o.kind == vf::Outcome::SANITIZER) ? o.sanitizer_class() : o.describe(); vf::violation(g_prop + ":crash:initial-state:" + cls, "replay", cs, o.describe()); } }
        else { Hist pre(h.begin(), h.end() - 1); std::map<std::string,int> hg;
            vf::Outcome o = vf::run_child([&](int fd){ TasmanianSparseGrid g; Ref r; rebuild(cfg, pre, g, r); std::string k = obskey(g, r); expand_state(cfg, pre, k, "replay", std::vector<Op>(1, h.back()), fd, hg); }, 600.0);
            if (o.kind != vf::Outcome::OK) vf::emit(vf::J().s("t","note").s("text", "replay prefix failed: " + o.describe())); }
        vf::emit(vf::J().s("t","summary").s("replay","done")); return 0;
    }
    std::vector<Cfg> L = lattice_for(g_prop, g_tier);
    size_t done = vf::parallel_units(L.size(), (int) A.geti("--workers", 8), [&](size_t ui){
        const Cfg &cfg = L[ui]; std::string unit = cfg.str(); UnitStats S; double t0 = vf::now();
        explore_unit(cfg, unit, S);
        std::string tally; for(auto &p : S.optally) tally += p.first + "=" + std::to_string(p.second) + " ";
        vf::emit(vf::J().s("t","unit").s("unit", unit).i("states", S.states).i("transitions", S.transitions).i("execs", S.execs + S.nexp).i("evals", S.evals).i("distinct", S.states).i("experiments", S.nexp)
                 .i("failed_ops", S.failed_ops).i("skipped", S.skipped).i("violations", S.nviol).i("maxdepth", S.maxdepth).s("ops", tally).n("wall", vf::now() - t0).b("complete", S.complete));
        if (ui % 7 == 0 && !S.sample.empty()) vf::emit(vf::J().s("t","sample").raw("case", vf::J().s("cfg", unit).s("history", S.sample).str()));
    });
    vf::emit(vf::J().s("t","sample").raw("case", vf::J().s("cfg", L[0].str()).s("alphabet", [&]{ std::string s; for(auto &o : alphabet_for(g_prop, L[0], g_tier)) s += o.str() + " "; return s; }()).str()));
    if (L.size() > 1) vf::emit(vf::J().s("t","sample").raw("case", vf::J().s("cfg", L[L.size()/2].str()).s("alphabet", [&]{ std::string s; for(auto &o : alphabet_for(g_prop, L[L.size()/2], g_tier)) s += o.str() + " "; return s; }()).str()));
    vf::emit(vf::J().s("t","summary").i("units_total", (long long) L.size()).i("units_done", (long long) done).s("bound", g_prop + ": all histories of depth <= " + std::to_string(g_depth) + " over the op alphabet from every configuration of the " + g_tier + " lattice").b("exhaustive", done == L.size() && !vf::past_deadline()));
    return 0;
}
