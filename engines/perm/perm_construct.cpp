// perm_construct - C09: dynamic construction does not depend on arrival order or batching of samples.
//
// E-A over the permutation x composition space.  For every configuration (host grid, target set T, optional
// orphan samples and a completion batch) EVERY arrival order of the samples (n!) x EVERY batch partition (2^(n-1)
// compositions of n) x EVERY query mode is ONE execution on a fresh real grid:
//     make(host); beginConstruction(); { loadConstructedPoints(batch); [getCandidateConstructionPoints] }* ; finishConstruction()
// (thorough: additionally every position x {binary, ASCII} of a write()/read() round trip between two deliveries).
// Oracle (public API + independent reference models of admissibility, see struct Ref):
//   after every delivery  : loaded points are delivered points, nothing loaded vanishes, values are the supplied ones (bitwise, by coordinates),
//                           loaded set == admissible part of the delivered set (lower-complete tensors / lower index set / connected hierarchy),
//                           candidate lists contain no loaded point;
//   after the last one    : surrogate == one-batch load of the same data (evaluateBatch at probes), nodal reproduction;
//   completion batch      : parked (not yet admissible) samples must be loaded with their original values once their prerequisites arrive;
//   finishConstruction()  : loaded set, values, surrogate bitwise unchanged.
// Sequences run in chunks inside a forked child; the current sequence id and all counters live in shared memory, so a
// crash / sanitizer report / hang is attributed to exactly one delivery sequence.
#include "tgrid.hpp"
#include <memory>
#include <numeric>
using namespace tg;

static std::string g_tier = "quick";
static bool thorough(){ return g_tier == "thorough"; }

// ------------------------------------------------------------------------------------------------ configuration
static std::string pts_str(const std::vector<Pt> &P){ std::string o; char b[40]; for(size_t i=0;i<P.size();i++){ if (i) o += "/"; for(size_t j=0;j<P[i].size();j++){ snprintf(b, sizeof(b), "%.17g", P[i][j]); if (j) o += ","; o += b; } } return o; }
static std::vector<Pt> pts_parse(const std::string &s){ std::vector<Pt> P; if (s.empty()) return P; std::stringstream ss(s); std::string t; while(std::getline(ss, t, '/')){ Pt p; std::stringstream s2(t); std::string u; while(std::getline(s2, u, ',')) p.push_back(atof(u.c_str())); P.push_back(p); } return P; }

struct Conf {
    std::string cls = "full";          // full | subset | orphan | beyond
    Cfg host, target;                  // grid that is constructed / grid whose points are the (complete part of the) target set
    std::vector<Pt> orphans;           // delivered samples that are NOT admissible (user coordinates)
    std::vector<Pt> completion;        // delivered afterwards in one batch: makes the orphans admissible
    bool rt = false;                   // enumerate mid-construction write/read round trips (thorough)
    std::string str() const{ return "cls=" + cls + "|H=" + host.str() + "|T=" + target.str() + "|O=" + pts_str(orphans) + "|C=" + pts_str(completion); }
    static Conf parse(const std::string &s){
        Conf c; std::map<std::string,std::string> kv; size_t p = 0;
        while(p < s.size()){ size_t e = s.find('|', p); if (e == std::string::npos) e = s.size(); std::string t = s.substr(p, e - p); size_t q = t.find('='); if (q != std::string::npos) kv[t.substr(0,q)] = t.substr(q+1); p = e + 1; }
        c.cls = kv["cls"]; c.host = Cfg::parse(kv["H"]); c.target = Cfg::parse(kv["T"]); c.orphans = pts_parse(kv["O"]); c.completion = pts_parse(kv["C"]); return c;
    }
    std::string name() const{
        std::ostringstream o; const Cfg &t = target; o << cls << "/" << famname(t.fam) << "/" << IO::getRuleString(t.rule);
        if (t.fam == F_LOCALP || t.fam == F_WAVELET) o << "/order" << t.order;
        o << "/d" << t.dims << "/o" << t.outs << "/T:depth" << t.depth << (t.type != type_level ? ":" + depthname(t.type) : ""); if (!t.aw.empty()){ o << ":aw"; for(int v : t.aw) o << v; }
        if (!t.limits.empty()){ o << ":lim"; for(int v : t.limits) o << v << "_"; }
        o << "/H:depth" << host.depth << (host.type != type_level ? ":" + depthname(host.type) : ""); if (!host.aw.empty()){ o << ":aw"; for(int v : host.aw) o << v; }
        if (!t.ta.empty()) o << "/tr"; if (!orphans.empty()) o << "/orph" << orphans.size(); return o.str();
    }
};

// ------------------------------------------------------------------------------------------------ reference data of one configuration
static const long ONE = 1048576; // dyadic key of 1.0
struct Ref {
    Conf conf; int d = 0, outs = 1, fam = 0; TypeOneDRule rule = rule_none; int order = 0;
    int nT = 0, n = 0, nu = 0;                        // complete part, delivered samples, universe (delivered + completion)
    std::vector<Pt> U; std::vector<std::vector<double>> V; std::vector<std::vector<double>> Uc; // user coords, values, canonical coords
    std::vector<std::vector<long>> key;                // per point per dimension: level (global/fourier), index (sequence), dyadic key (local/wavelet)
    std::vector<int> N1;                               // global/fourier: number of 1-D points up to level l
    std::vector<std::vector<double>> lev1;             // 1-D canonical points per level/index (from 1-D grids made by the library)
    std::vector<double> probes, yref, yrefC; double vscale = 1.0, tol = 1e-9;
    std::string famtag, build_error, ref_mismatch; bool beyond = false;
    mutable std::vector<int> amin_cache, amax_cache;   // memoised admissible sets per delivered mask (-1 = not computed)

    // ---- local-polynomial geometry (independent of the library): 1-D parents of a dyadic key
    std::vector<long> parents1(long k) const{
        if (fam == F_WAVELET){ std::vector<long> r; int l = wlevel(k); if (l < 1 || l > 8) return r; long h = wspacing(l); for(long c : {k - h, k + h}) if (c >= -ONE && c <= ONE && wlevel(c) == l - 1) r.push_back(c); return r; }
        if (order == 0){ // piecewise constant: key = index of the node (table below, indices 0..8), parent(p) = p / 3, no step-parents below level 3
            std::vector<long> r; if (k > 0) r.push_back(k / 3); return r; }
        return RefLocal(rule, order).parents(k);
    }
    int level1(long k) const{ if (fam == F_WAVELET) return wlevel(k); if (order == 0) return k == 0 ? 0 : (k <= 2 ? 1 : 2); return RefLocal(rule, order).level(k); }
    long nearest_parent(long k) const{ auto p = parents1(k); if (p.size() != 1){ if (p.size() == 2 && order != 0){ long a = std::labs(p[0] - k), b = std::labs(p[1] - k); if (a < b) return p[0]; if (b < a) return p[1]; } return -999999999; } return p[0]; }
    bool desc_or_equal1(long q, long p) const{ if (q == p) return true; for(long a : parents1(q)) if (desc_or_equal1(a, p)) return true; return false; }
    // ---- wavelets: level 0 = {0, +-1} (order 1) or {0, +-1/2, +-1} (order 3); level 1 = the mid points
    // ---- wavelets: level 0 = {0, +-1} (order 1) or {0, +-1/2, +-1} (order 3); level l >= 1 = the new dyadic mid points
    int wlevel(long k) const{ long a = std::labs(k); if (a > ONE) return 99; long h0 = (order == 1) ? ONE : ONE / 2; if (a % h0 == 0) return 0; for(int l=1; l<=8; l++) if (a % (h0 >> l) == 0) return l; return 99; }
    long wspacing(int l) const{ return ((order == 1) ? ONE : ONE / 2) >> l; }
    bool lower_family() const{ return fam == F_GLOBAL || fam == F_FOURIER || fam == F_SEQUENCE; }
    // q depends on p (the admissibility / coefficient of q involves p)
    bool dependent(int q, int p) const{
        if (q == p) return false;
        if (lower_family()){ for(int j=0;j<d;j++) if (key[q][j] < key[p][j]) return false; return true; }
        if (fam == F_WAVELET){ for(int j=0;j<d;j++) if (!(key[q][j] == key[p][j] || wlevel(key[q][j]) > wlevel(key[p][j]))) return false; return true; }
        for(int j=0;j<d;j++) if (!desc_or_equal1(key[q][j], key[p][j])) return false; return true;
    }
    bool stepchild(int q, int p) const{ // local only: in some dimension p is a parent of q other than the nearest one
        if (fam != F_LOCALP || order == 0) return false; bool step = false;
        for(int j=0;j<d;j++){ if (key[q][j] == key[p][j]) continue; auto ps = parents1(key[q][j]); bool isp = std::find(ps.begin(), ps.end(), key[p][j]) != ps.end();
            if (isp && ps.size() > 1 && nearest_parent(key[q][j]) != key[p][j]) step = true; else if (!desc_or_equal1(key[q][j], key[p][j])) return false; }
        return step;
    }
    bool related_local(int a, int b) const{ // immediate relatives: differ in exactly one dimension, there one is a parent of the other
        int diff = -1; for(int j=0;j<d;j++) if (key[a][j] != key[b][j]){ if (diff >= 0) return false; diff = j; } if (diff < 0) return false;
        auto pa = parents1(key[a][diff]), pb = parents1(key[b][diff]);
        return std::find(pa.begin(), pa.end(), key[b][diff]) != pa.end() || std::find(pb.begin(), pb.end(), key[a][diff]) != pb.end();
    }
    bool related_wavelet(int a, int b) const{ // as related_local, plus: every level-0 node counts as a parent of every level-1 node
        if (related_local(a, b)) return true;
        int diff = -1; for(int j=0;j<d;j++) if (key[a][j] != key[b][j]){ if (diff >= 0) return false; diff = j; } if (diff < 0) return false;
        return wlevel(key[a][diff]) + wlevel(key[b][diff]) == 1;
    }
    int total_level(int i) const{ int l = 0; for(int j=0;j<d;j++) l += level1(key[i][j]); return l; }

    // ---- admissible part of a delivered set (bit masks over the universe); lo = certainly admissible, hi = possibly admissible
    void admissible(unsigned D, unsigned &lo, unsigned &hi) const{
        if (amin_cache.empty()){ amin_cache.assign(1u << nu, -1); amax_cache.assign(1u << nu, -1); }
        if (amin_cache[D] >= 0){ lo = (unsigned) amin_cache[D]; hi = (unsigned) amax_cache[D]; return; }
        if (fam == F_GLOBAL || fam == F_FOURIER){
            std::map<std::vector<long>, unsigned> tens; for(int i=0;i<nu;i++) if (D >> i & 1) tens[key[i]] |= 1u << i;
            std::set<std::vector<long>> A;
            for(auto &t : tens){ long need = 1; for(int j=0;j<d;j++){ long l = t.first[j]; need *= (N1[l] - (l > 0 ? N1[l-1] : 0)); } if (__builtin_popcount(t.second) == need) A.insert(t.first); }
            bool ch = true; while(ch){ ch = false; for(auto it = A.begin(); it != A.end(); ){ bool ok = true; for(int j=0;j<d && ok;j++) if ((*it)[j] > 0){ auto lower = *it; lower[j]--; if (!A.count(lower)) ok = false; } if (!ok){ it = A.erase(it); ch = true; } else ++it; } }
            lo = 0; for(auto &t : A) lo |= tens[t]; hi = lo;
        }else if (fam == F_SEQUENCE){
            unsigned A = D; bool ch = true;
            while(ch){ ch = false; for(int i=0;i<nu;i++) if (A >> i & 1){ bool ok = true; for(int j=0;j<d && ok;j++) if (key[i][j] > 0){ auto lower = key[i]; lower[j]--; bool f = false; for(int q=0;q<nu;q++) if ((A >> q & 1) && key[q] == lower) f = true; if (!f) ok = false; } if (!ok){ A &= ~(1u << i); ch = true; } } }
            lo = hi = A;
        }else{
            // certainly admissible: the largest subset in which every point has ALL its parents (hierarchy-complete part);
            // possibly admissible: everything connected to a root through parent/child relations (the documented "connected graph").
            // Sets between the two are accepted: for a set that is not hierarchy-complete the statement does not say which notion applies.
            unsigned A = D; bool ch = true;
            while(ch){ ch = false; for(int i=0;i<nu;i++) if (A >> i & 1){ bool ok = true; for(int j=0;j<d && ok;j++) for(long pk : parents1(key[i][j])){ auto k = key[i]; k[j] = pk; bool f = false; for(int q=0;q<nu;q++) if ((A >> q & 1) && key[q] == k) f = true; if (!f){ ok = false; break; } } if (!ok){ A &= ~(1u << i); ch = true; } } }
            lo = A;
            A = 0; for(int i=0;i<nu;i++) if ((D >> i & 1) && total_level(i) == 0) A |= 1u << i;
            ch = true; while(ch){ ch = false; for(int i=0;i<nu;i++) if ((D >> i & 1) && !(A >> i & 1)) for(int a=0;a<nu;a++) if ((A >> a & 1) && (fam == F_WAVELET ? related_wavelet(i, a) : related_local(i, a))){ A |= 1u << i; ch = true; break; } }
            hi = A | lo;
        }
        amin_cache[D] = (int) lo; amax_cache[D] = (int) hi;
    }
    bool hierarchy_complete(unsigned L) const{ // every loaded point has all its 1-D parents (in every dimension) loaded
        if (fam != F_LOCALP) return true;   // the other families reproduce nodal values on every admissible set
        for(int i=0;i<nu;i++) if (L >> i & 1) for(int j=0;j<d;j++) for(long p : parents1(key[i][j])){ auto k = key[i]; k[j] = p; bool f = false; for(int q=0;q<nu;q++) if ((L >> q & 1) && key[q] == k) f = true; if (!f) return false; }
        return true;
    }
    int find(const double *x) const{ for(int i=0;i<nu;i++){ bool ok = true; for(int j=0;j<d;j++) if (!(std::abs(U[i][j] - x[j]) <= 1e-12 * std::max(1.0, std::abs(x[j])))){ ok = false; break; } if (ok) return i; } return -1; }
};

// points of 'big' that are not in 'small'
static std::vector<Pt> minus(const std::vector<Pt> &big, const std::vector<Pt> &small){ std::vector<Pt> r; for(auto &p : big){ bool f = false; for(auto &q : small){ bool same = true; for(size_t j=0;j<p.size();j++) if (std::abs(p[j] - q[j]) > 1e-12) same = false; if (same) f = true; } if (!f) r.push_back(p); } return r; }

static double canon(const Cfg &c, double x, int j){ if (c.ta.empty()) return x; if (c.fam == F_FOURIER) return (x - c.ta[j]) / (c.tb[j] - c.ta[j]); return to_canonical(x, c.ta[j], c.tb[j]); }

static std::vector<double> grid1d(const Cfg &t, int l){
    TasmanianSparseGrid g;
    if (t.fam == F_GLOBAL) g.makeGlobalGrid(1, 0, l, type_level, t.rule, {}, t.alpha, t.beta);
    else if (t.fam == F_SEQUENCE) g.makeSequenceGrid(1, 0, l, type_level, t.rule);
    else g.makeFourierGrid(1, 0, l, type_level);
    return g.getPoints();
}

static void deliver_all(TasmanianSparseGrid &g, const Ref &R, int count){
    std::vector<double> x, y; for(int i=0;i<count;i++){ x.insert(x.end(), R.U[i].begin(), R.U[i].end()); y.insert(y.end(), R.V[i].begin(), R.V[i].end()); }
    g.loadConstructedPoints(x, y);
}

// with_reference = false: only the reference model (no construction call on the library); true: also the one-batch reference surrogates
static Ref build_ref(const Conf &conf, bool with_reference = true){
    Ref R; R.conf = conf; const Cfg &t = conf.target; R.d = t.dims; R.outs = t.outs; R.fam = t.fam; R.rule = t.rule; R.order = t.order;
    if (R.fam == F_LOCALP && R.rule == rule_semilocalp && R.order < 2) R.rule = rule_localp; // below order 2 (incl. -1) the library builds the localp hierarchy for rule_semilocalp (getRule() reports localp)
    try{
        TasmanianSparseGrid tg0; std::vector<Pt> P; if (conf.cls != "points"){ make(tg0, t); P = split(tg0.getPoints(), R.d); }
        R.U = P; R.nT = (int) P.size(); for(auto &p : conf.orphans) R.U.push_back(p); R.n = (int) R.U.size(); for(auto &p : conf.completion) R.U.push_back(p); R.nu = (int) R.U.size();
        if (R.nu > 12){ R.build_error = "universe too large"; return R; }
        for(int a=0;a<R.nu;a++) for(int b=a+1;b<R.nu;b++){ bool same = true; for(int j=0;j<R.d;j++) if (std::abs(R.U[a][j] - R.U[b][j]) > 1e-12) same = false; if (same){ R.build_error = "duplicate point in the universe"; return R; } }
        int kind = 0; R.vscale = 1.0;
        for(auto &p : R.U){ std::vector<double> v(R.outs); for(int k=0;k<R.outs;k++){ v[k] = model(kind, p.data(), R.d, k); R.vscale = std::max(R.vscale, std::abs(v[k])); } R.V.push_back(v); }
        for(auto &p : R.U){ std::vector<double> c(R.d); for(int j=0;j<R.d;j++) c[j] = canon(t, p[j], j); R.Uc.push_back(c); }
        // keys
        if (R.lower_family()){
            for(int l=0; l<=8; l++){ R.lev1.push_back(grid1d(t, l)); R.N1.push_back((int) R.lev1.back().size()); }
            for(auto &c : R.Uc){ std::vector<long> k(R.d, -1); for(int j=0;j<R.d;j++){ for(int l=0; l<=8 && k[j] < 0; l++) for(double v : R.lev1[l]) if (std::abs(v - c[j]) < 1e-9){ k[j] = l; break; } if (k[j] < 0){ R.build_error = "1-D level of a coordinate not found"; return R; } } R.key.push_back(k); }
        }else if (R.fam == F_LOCALP && R.order == 0){
            // piecewise-constant rule, tabulated from the rule definition for the 9 nodes of levels 0..2: node = m * 2/9, m = -4..4 -> index
            static const long pwc_index[9] = {3, 1, 4, 5, 0, 6, 7, 2, 8};
            for(auto &c : R.Uc){ std::vector<long> k(R.d, -1); for(int j=0;j<R.d;j++){ double m = c[j] * 4.5; long mi = std::lround(m); if (std::abs(m - mi) < 1e-9 && mi >= -4 && mi <= 4) k[j] = pwc_index[mi + 4]; if (k[j] < 0){ R.build_error = "pwc level above 2 not modelled"; return R; } } R.key.push_back(k); }
        }else{
            for(auto &c : R.Uc){ std::vector<long> k(R.d); for(int j=0;j<R.d;j++){ k[j] = dy(c[j]); int lv = R.level1(k[j]); if (lv < 0 || lv > 8){ R.build_error = "coordinate is not a node of the reference hierarchy"; return R; } } R.key.push_back(k); }
        }
        R.tol = (R.fam == F_WAVELET) ? 1e-7 : 1e-9;
        { TasmanianSparseGrid h; Cfg h0 = conf.host; h0.outs = 0; make(h, h0); auto HP = split(h.getPoints(), R.d); for(auto &p : R.U) if (minus({p}, HP).size()) R.beyond = true; }
        { std::ostringstream o; bool one = true; if (R.lower_family()) for(size_t l=1;l<R.N1.size();l++) if (R.N1[l] - R.N1[l-1] != 1) one = false;
          // Global/Fourier keep a list of registered tensors: deliveries outside the initial grid take different paths, the class is part of the tag
          if (R.fam == F_LOCALP) o << IO::getRuleString(t.rule) << ":order" << t.order; else if (R.fam == F_WAVELET) o << "wavelet:order" << t.order;
          else if (R.beyond && R.fam != F_SEQUENCE) o << famname(R.fam) << ":beyond-initial:" << (one ? "one-point-levels" : "multi-point-levels");
          else if (R.fam == F_FOURIER) o << "fourier"; else o << famname(R.fam) << ":" << IO::getRuleString(t.rule); R.famtag = o.str(); }
        // probes (user coordinates, interior, not nodes)
        const double base[6][2] = {{0.3127, -0.6181}, {-0.9371, 0.8713}, {0.1113, 0.4519}, {-0.4337, -0.2971}, {0.7411, 0.0917}, {-0.0631, -0.8853}};
        for(int p=0;p<6;p++) for(int j=0;j<R.d;j++){ double u = base[p][j % 2]; double x; if (t.fam == F_FOURIER){ u = 0.5 * (u + 1.0); x = t.ta.empty() ? u : t.ta[j] + u * (t.tb[j] - t.ta[j]); } else x = t.ta.empty() ? u : 0.5 * (t.tb[j] - t.ta[j]) * u + 0.5 * (t.tb[j] + t.ta[j]); R.probes.push_back(x); }
        if (!with_reference) return R;
        // reference surrogates: one loadConstructedPoints call on a fresh host grid
        { TasmanianSparseGrid g; make(g, conf.host); g.beginConstruction(); deliver_all(g, R, R.n); if (g.getNumLoaded() > 0) g.evaluateBatch(R.probes, R.yref); }
        if (R.nu > R.n){ TasmanianSparseGrid g; make(g, conf.host); g.beginConstruction(); deliver_all(g, R, R.nu); if (g.getNumLoaded() > 0) g.evaluateBatch(R.probes, R.yrefC); }
        // second reference: the target grid loaded with loadNeededValues
        unsigned lo0 = 0, hi0 = 0; R.admissible((1u << R.n) - 1, lo0, hi0);
        if (conf.cls != "points" && lo0 == (1u << R.nT) - 1 && hi0 == lo0){ std::vector<double> vals; for(int i=0;i<R.nT;i++) vals.insert(vals.end(), R.V[i].begin(), R.V[i].end()); tg0.loadNeededValues(vals); std::vector<double> y2; tg0.evaluateBatch(R.probes, y2);
          if (R.yref.size() != y2.size()) R.ref_mismatch = "one loadConstructedPoints call of the whole target set does not load the grid (" + std::to_string(R.yref.size()) + " vs " + std::to_string(y2.size()) + " results)";
          else for(size_t i=0;i<y2.size();i++) if (!(std::abs(y2[i] - R.yref[i]) <= R.tol * R.vscale)){ std::ostringstream o; o.precision(17); o << "one-batch loadConstructedPoints gives " << R.yref[i] << " but loadNeededValues on the target grid gives " << y2[i] << " at probe " << i / R.outs << " output " << i % R.outs; R.ref_mismatch = o.str(); break; } }
    }catch(std::exception &e){ R.build_error = std::string("exception while building the reference: ") + e.what(); }
    return R;
}

// ------------------------------------------------------------------------------------------------ one delivery sequence
struct Seq { std::vector<int> perm; unsigned mask = 0; int q = 0; int rtpos = -1; int rtfmt = 0;
    std::string json(const Ref &R) const{ return vf::J().s("conf", R.conf.str()).raw("perm", vf::jarr(perm)).i("mask", mask).i("q", q).i("rtpos", rtpos).i("rtfmt", rtfmt).str(); } };

static std::string batches_str(const Ref &R, const Seq &s){ std::string o = "{"; for(int i=0;i<R.n;i++){ o += std::to_string(s.perm[i]); bool end = (i == R.n-1) || (s.mask >> i & 1); o += end ? (i == R.n-1 ? "}" : "},{") : ","; } return o; }

static std::string shape(const Ref &R, const Seq &s){
    bool has_single = false, has_dep = false, has_step = false; unsigned D = 0; int start = 0;
    for(int i=0;i<R.n;i++){ bool end = (i == R.n-1) || (s.mask >> i & 1); if (!end) continue;
        if (start == i){ int p = s.perm[i]; has_single = true; for(int q=0;q<R.nu;q++) if (D >> q & 1){ if (R.stepchild(q, p)) has_step = true; else if (R.dependent(q, p)) has_dep = true; } }
        for(int k=start;k<=i;k++) D |= 1u << s.perm[k]; start = i + 1; }
    std::string dep = R.lower_family() ? "successor" : "child";
    return has_step ? "single-point-delivery-after-stepchild" : has_dep ? "single-point-delivery-after-" + dep : has_single ? "single-point-delivery" : "batch-only";
}

struct Fail { bool failed; std::string kind, detail; bool completion = false; Fail() : failed(false){} Fail(bool f, const std::string &k, const std::string &d) : failed(f), kind(k), detail(d){} };
struct Obs { unsigned L = 0; int nl = 0; std::vector<double> pts; };
static long g_evals = 0, g_transitions = 0; // accumulated by run_seq (caller resets)
static std::vector<unsigned> g_trace;       // (loaded mask, parked count) after each delivery of the last sequence
static std::string g_final_digest;          // digest of the final (loaded set, surrogate) of the last sequence

static bool observe(const Ref &R, TasmanianSparseGrid &g, Obs &o, Fail &f, const char *when){
    o.L = 0; o.nl = g.getNumLoaded(); o.pts.clear(); if (o.nl == 0) return true;
    o.pts = g.getLoadedPoints(); const double *v = g.getLoadedValues(); g_evals++;
    if ((int) o.pts.size() != o.nl * R.d){ f = {true, "loaded-set-differs:inconsistent-sizes", std::string(when) + ": getLoadedPoints size does not match getNumLoaded"}; return false; }
    for(int i=0;i<o.nl;i++){
        int u = R.find(&o.pts[(size_t) i * R.d]);
        if (u < 0){ std::ostringstream m; m.precision(17); m << when << ": loaded point ("; for(int j=0;j<R.d;j++) m << (j?",":"") << o.pts[(size_t) i*R.d+j]; m << ") was never delivered"; f = {true, "foreign-point-loaded", m.str()}; return false; }
        if (o.L >> u & 1){ f = {true, "duplicate-point-loaded", std::string(when) + ": point " + std::to_string(u) + " appears twice among the loaded points"}; return false; }
        o.L |= 1u << u;
        if (!v || memcmp(v + (size_t) i * R.outs, R.V[u].data(), sizeof(double) * R.outs) != 0){ std::ostringstream m; m.precision(17); m << when << ": value stored for sample " << u << " is " << (v ? v[(size_t) i*R.outs] : 0.0) << ", supplied " << R.V[u][0]; f = {true, "value-differs", m.str()}; return false; }
    }
    return true;
}
static std::string maskstr(unsigned m){ std::string o = "{"; bool first = true; for(int i=0;i<32;i++) if (m >> i & 1){ if (!first) o += ","; o += std::to_string(i); first = false; } return o + "}"; }

static bool compare_surrogate(const Ref &R, TasmanianSparseGrid &g, const std::vector<double> &yref, Fail &f, const char *when, std::vector<double> *keep = nullptr){
    std::vector<double> y; if (g.getNumLoaded() > 0) g.evaluateBatch(R.probes, y); g_evals++;
    if (keep) *keep = y;
    if (y.size() != yref.size()){ f = {true, "surrogate-differs", std::string(when) + ": number of surrogate values differs from the one-batch reference"}; return false; }
    for(size_t i=0;i<y.size();i++) if (!(std::abs(y[i] - yref[i]) <= R.tol * R.vscale)){ std::ostringstream m; m.precision(17); m << when << ": surrogate at probe " << i / R.outs << " output " << i % R.outs << " is " << y[i] << ", one-batch load of the same data gives " << yref[i] << " (difference " << y[i] - yref[i] << ")"; f = {true, "surrogate-differs", m.str()}; return false; }
    return true;
}
static bool nodal(const Ref &R, TasmanianSparseGrid &g, const Obs &o, Fail &f, const char *when){
    if (o.nl == 0 || !R.hierarchy_complete(o.L)) return true;
    std::vector<double> y; g.evaluateBatch(o.pts, y); g_evals++;
    for(int i=0;i<o.nl;i++){ int u = R.find(&o.pts[(size_t) i*R.d]); for(int k=0;k<R.outs;k++) if (!(std::abs(y[(size_t) i*R.outs+k] - R.V[u][k]) <= R.tol * R.vscale)){
        std::ostringstream m; m.precision(17); m << when << ": surrogate at loaded sample " << u << " (x = "; for(int j=0;j<R.d;j++) m << (j?",":"") << R.U[u][j]; m << ") is " << y[(size_t) i*R.outs+k] << ", supplied value " << R.V[u][k]; f = {true, "nodal-differs", m.str()}; return false; } }
    return true;
}
static bool query(const Ref &R, TasmanianSparseGrid &g, int q, const Obs &o, Fail &f, int b){
    std::vector<double> cand; g_evals++;
    try{
        if (R.fam == F_LOCALP || R.fam == F_WAVELET) cand = (q == 1) ? g.getCandidateConstructionPoints(1e-4, refine_classic) : g.getCandidateConstructionPoints(0.0, refine_fds, 0);
        else cand = (q == 1) ? g.getCandidateConstructionPoints(type_level, std::vector<int>(R.d, 1)) : g.getCandidateConstructionPoints(type_iptotal, 0);
    }catch(std::exception &e){ f = {true, "exception:candidates", "getCandidateConstructionPoints (mode " + std::to_string(q) + ") after delivery " + std::to_string(b) + " threw: " + e.what()}; return false; }
    size_t nc = cand.size() / R.d;
    for(size_t c=0;c<nc;c++) for(int i=0;i<o.nl;i++){ bool same = true; for(int j=0;j<R.d;j++) if (!(std::abs(cand[c*R.d+j] - o.pts[(size_t) i*R.d+j]) <= 1e-12 * std::max(1.0, std::abs(cand[c*R.d+j])))){ same = false; break; }
        if (same){ std::ostringstream m; m.precision(17); m << "after delivery " << b << " candidate " << c << " of " << nc << " ("; for(int j=0;j<R.d;j++) m << (j?",":"") << cand[c*R.d+j]; m << ") is already loaded"; f = {true, "candidate-is-loaded", m.str()}; return false; } }
    return true;
}

// Executes one delivery sequence on a fresh grid. Returns the failure (if any).
static Fail run_seq(const Ref &R, const Seq &s){
    Fail f; g_trace.clear(); g_final_digest.clear();
    std::unique_ptr<TasmanianSparseGrid> g(new TasmanianSparseGrid());
    const char *step = "make";
    try{
        make(*g, R.conf.host); step = "beginConstruction"; g->beginConstruction();
        unsigned D = 0, Lprev = 0; int start = 0, b = 0; Obs o;
        for(int i=0;i<R.n;i++){
            bool last = (i == R.n - 1), end = last || (s.mask >> i & 1); if (!end) continue;
            std::vector<double> x, y; for(int k=start;k<=i;k++){ int u = s.perm[k]; x.insert(x.end(), R.U[u].begin(), R.U[u].end()); y.insert(y.end(), R.V[u].begin(), R.V[u].end()); D |= 1u << u; }
            step = "loadConstructedPoints"; g->loadConstructedPoints(x, y); g_transitions++;
            std::string when = "after delivery " + std::to_string(b) + " of " + batches_str(R, s);
            step = "observe"; if (!observe(R, *g, o, f, when.c_str())) return f;
            g_trace.push_back(o.L | ((unsigned) __builtin_popcount(D & ~o.L) << 16));
            g_evals += 3;
            if (o.L & ~D){ f = {true, "undelivered-point-loaded", when + ": loaded " + maskstr(o.L) + " but delivered only " + maskstr(D)}; return f; }
            if (Lprev & ~o.L){ f = {true, "loaded-point-vanished", when + ": loaded set shrank from " + maskstr(Lprev) + " to " + maskstr(o.L)}; return f; }
            unsigned lo, hi; R.admissible(D, lo, hi);
            if (lo & ~o.L){ f = {true, "admissible-not-loaded", when + ": delivered " + maskstr(D) + ", admissible part " + maskstr(lo) + ", loaded only " + maskstr(o.L)}; return f; }
            if (o.L & ~hi){ f = {true, "inadmissible-loaded", when + ": delivered " + maskstr(D) + ", admissible part " + maskstr(hi) + ", loaded " + maskstr(o.L)}; return f; }
            Lprev = o.L;
            if (s.q){ step = "getCandidateConstructionPoints"; if (!query(R, *g, s.q, o, f, b)) return f; }
            if (s.rtpos == b && !last){
                step = "write"; std::stringstream ss; g->write(ss, s.rtfmt == 0);
                step = "read"; std::unique_ptr<TasmanianSparseGrid> h(new TasmanianSparseGrid()); h->read(ss, s.rtfmt == 0); g = std::move(h);
                if (!g->isUsingConstruction()){ f = {true, "construction-flag-lost", when + ": isUsingConstruction() is false after write/read"}; return f; }
                Obs o2; step = "observe"; if (!observe(R, *g, o2, f, (when + " and write/read").c_str())) return f;
                if (o2.L != o.L){ f = {true, "loaded-set-differs:after-read", when + ": loaded " + maskstr(o.L) + " before and " + maskstr(o2.L) + " after write/read"}; return f; }
            }
            b++; start = i + 1;
        }
        // ---- after the last delivery
        std::string when = "after the last delivery of " + batches_str(R, s);
        std::vector<double> ybefore; step = "evaluateBatch";
        bool same = compare_surrogate(R, *g, R.yref, f, when.c_str(), &ybefore);
        { std::ostringstream dg; dg << o.L << ":"; for(double v : ybefore) dg << vf::hexd(v) << ","; g_final_digest = vf::digest(dg.str()); } // outcome of this sequence (also when it differs)
        if (!same) return f;
        if (!nodal(R, *g, o, f, when.c_str())) return f;
        // ---- completion batch: parked samples must still be there
        if (R.nu > R.n){
            std::vector<double> x, y; for(int u=R.n; u<R.nu; u++){ x.insert(x.end(), R.U[u].begin(), R.U[u].end()); y.insert(y.end(), R.V[u].begin(), R.V[u].end()); D |= 1u << u; }
            step = "loadConstructedPoints(completion)"; g->loadConstructedPoints(x, y); g_transitions++;
            when = "after the completion batch following " + batches_str(R, s);
            step = "observe"; if (!observe(R, *g, o, f, when.c_str())){ f.completion = true; return f; }
            unsigned lo, hi; R.admissible(D, lo, hi); g_evals++;
            if (lo & ~o.L){ unsigned miss = lo & ~o.L; bool old = (miss & ((1u << R.n) - 1)) != 0; f = {true, old ? "parked-sample-not-promoted" : "admissible-not-loaded", when + ": admissible " + maskstr(lo) + ", loaded only " + maskstr(o.L) + (old ? " - a sample delivered earlier and parked is not loaded although its prerequisites have arrived" : "")}; f.completion = true; return f; }
            if (o.L & ~hi){ f = {true, "inadmissible-loaded", when + ": admissible " + maskstr(hi) + ", loaded " + maskstr(o.L)}; f.completion = true; return f; }
            if (Lprev & ~o.L){ f = {true, "loaded-point-vanished", when + ": loaded set shrank"}; f.completion = true; return f; }
            step = "evaluateBatch"; if (!compare_surrogate(R, *g, R.yrefC, f, when.c_str(), &ybefore)){ f.completion = true; return f; }
            if (!nodal(R, *g, o, f, when.c_str())){ f.completion = true; return f; }
            if (s.q){ step = "getCandidateConstructionPoints"; if (!query(R, *g, s.q, o, f, b)) f.completion = true; return f; }
        }
        // ---- finishConstruction leaves the loaded state alone
        step = "finishConstruction"; g->finishConstruction(); g_transitions++;
        Obs o3; step = "observe"; if (!observe(R, *g, o3, f, "after finishConstruction")) return f;
        if (o3.L != o.L){ f = {true, "finish-changes-loaded-set", "finishConstruction() changed the loaded set from " + maskstr(o.L) + " to " + maskstr(o3.L) + " (" + batches_str(R, s) + ")"}; return f; }
        std::vector<double> yafter; step = "evaluateBatch"; if (g->getNumLoaded() > 0) g->evaluateBatch(R.probes, yafter); g_evals++;
        if (yafter.size() != ybefore.size() || (yafter.size() && memcmp(yafter.data(), ybefore.data(), sizeof(double) * yafter.size()) != 0)){ f = {true, "finish-changes-surrogate", "evaluateBatch differs bitwise before and after finishConstruction() (" + batches_str(R, s) + ")"}; return f; }
        if (g->isUsingConstruction()){ f = {true, "finish-keeps-flag", "isUsingConstruction() still true after finishConstruction()"}; return f; }
    }catch(std::exception &e){
        std::string st = step; size_t p = st.find('('); if (p != std::string::npos) st = st.substr(0, p);
        f = {true, "exception:" + st, std::string(step) + " threw: " + e.what() + " (" + batches_str(R, s) + ")"};
    }
    return f;
}

// query_only: the same deliveries without candidate queries pass, i.e. the query itself changed the outcome
// completion: the failure was observed after the completion batch (its shape is what matters then)
static std::string signature(const Ref &R, const Seq &s, const std::string &kind, bool query_only, bool completion = false){
    std::string sh = query_only ? "after-candidate-query" : completion ? (R.nu - R.n == 1 ? "single-point-completion" : "batch-completion") : shape(R, s);
    return std::string("C09:") + (s.rtpos >= 0 ? "roundtrip-mid-construction:" : "") + kind + ":" + R.famtag + ":" + sh;
}

// ------------------------------------------------------------------------------------------------ shared memory of one unit
struct OutcomeSlot { char key[200]; long n; };
struct Shm {
    volatile long cur; volatile int cur_q, cur_rtpos, cur_rtfmt;            // sequence being executed (crash attribution)
    long execs, transitions, evals, nviol, inherited, rt_execs;
    unsigned char states[1 << 16];                                 // (loaded mask | parked << 12) seen; universe <= 12
    long nstates;
    static const size_t TAB = 1u << 20; uint64_t table[TAB]; long ndistinct; int saturated;
    OutcomeSlot out[96];
    long bump(const std::string &k){ for(auto &s : out){ if (s.key[0] == 0){ strncpy(s.key, k.c_str(), sizeof(s.key) - 1); s.n = 1; return 1; } if (k == s.key) return ++s.n; } return 1000000; }
    void add_digest(const std::string &dg){ uint64_t h = vf::fnv(dg.data(), dg.size()) | 1; if (ndistinct > (long)(TAB * 3 / 4)){ saturated = 1; return; } size_t p = vf::mix(h) & (TAB - 1); while(table[p] != 0 && table[p] != h) p = (p + 1) & (TAB - 1); if (table[p] == 0){ table[p] = h; ndistinct++; } }
    void add_state(unsigned t){ unsigned L = t & 0xfff, parked = (t >> 16) & 0xf; unsigned idx = L | (parked << 12); if (!states[idx]){ states[idx] = 1; nstates++; } }
};

static std::vector<int> unrank(long k, int n){ std::vector<int> pool(n), perm; std::iota(pool.begin(), pool.end(), 0); std::vector<long> fact(n + 1, 1); for(int i=1;i<=n;i++) fact[i] = fact[i-1] * i;
    for(int i=n; i>=1; i--){ long f = fact[i-1]; int j = (int)(k / f); k %= f; perm.push_back(pool[j]); pool.erase(pool.begin() + j); } return perm; }

static std::vector<int> qmodes(const Ref &R){ std::vector<int> q = {0, 1}; if (thorough() && R.n <= 5) q.push_back(2); return q; }

// Step s = (permutation, composition). Runs it for every query mode (mode 0 first) and, if asked, every round-trip variant of modes 0 and 1;
// records results in shm; emits violations (capped per signature).
//  * a failure of a query mode whose query-free twin passes is marked ":after-candidate-query";
//  * a failure of a round-trip variant whose twin without round trip fails as well is not reported again ("inherited").
static void decode(const Ref &R, long s, Seq &q){ long ncomp = 1L << (R.n - 1); q.mask = (unsigned)(s % ncomp); q.perm = unrank(s / ncomp, R.n); q.q = 0; q.rtpos = -1; q.rtfmt = 0; }
static void run_step(const Ref &R, const std::string &unit, Shm *sh, long s, bool with_rt){
    Seq q; decode(R, s, q);
    auto record = [&](const Seq &sq, const Fail &f, bool twin_failed, bool noquery_failed){
        sh->execs++; sh->transitions += g_transitions; sh->evals += g_evals; g_transitions = 0; g_evals = 0;
        for(unsigned t : g_trace) sh->add_state(t);
        if (!g_final_digest.empty()) sh->add_digest(g_final_digest);
        if (!f.failed){ sh->bump(sq.rtpos >= 0 ? "equal to the one-batch load (with a write/read between two deliveries)" : sq.q ? "equal to the one-batch load (candidate queries between deliveries)" : "equal to the one-batch load"); return; }
        if (sq.rtpos >= 0 && twin_failed){ sh->inherited++; sh->bump("round trip of a delivery sequence that already differs without it"); return; }
        std::string sig = signature(R, sq, f.kind, sq.q != 0 && !noquery_failed, f.completion); sh->nviol++;
        if (sh->bump(sig) <= 3) vf::violation(sig, unit, sq.json(R), f.detail);
    };
    sh->cur = s; bool base_failed = false; int nb = __builtin_popcount(q.mask) + 1;
    for(int qm : qmodes(R)){
        Seq t = q; t.q = qm; sh->cur_q = qm; sh->cur_rtpos = -1; sh->cur_rtfmt = 0;
        Fail f = run_seq(R, t); if (qm == 0) base_failed = f.failed; record(t, f, false, base_failed);
        if (with_rt && qm <= 1) for(int pos=0; pos<nb-1; pos++) for(int fmt=0; fmt<2; fmt++){ Seq r = t; r.rtpos = pos; r.rtfmt = fmt; sh->cur_rtpos = pos; sh->cur_rtfmt = fmt; Fail fr = run_seq(R, r); sh->rt_execs++; record(r, fr, f.failed, base_failed); }
    }
}

// ------------------------------------------------------------------------------------------------ lattice of configurations
static Cfg cG(TypeOneDRule r, int d, int outs, int depth, TypeDepth type = type_level, std::vector<int> aw = {}, std::vector<int> lim = {}){ Cfg c; c.fam = F_GLOBAL; c.rule = r; c.dims = d; c.outs = outs; c.depth = depth; c.type = type; c.aw = aw; c.limits = lim; return c; }
static Cfg cS(TypeOneDRule r, int d, int outs, int depth, TypeDepth type = type_level, std::vector<int> aw = {}, std::vector<int> lim = {}){ Cfg c = cG(r, d, outs, depth, type, aw, lim); c.fam = F_SEQUENCE; return c; }
static Cfg cF(int d, int outs, int depth, TypeDepth type = type_level, std::vector<int> aw = {}, std::vector<int> lim = {}){ Cfg c = cG(rule_fourier, d, outs, depth, type, aw, lim); c.fam = F_FOURIER; return c; }
static Cfg cL(TypeOneDRule r, int order, int d, int outs, int depth, std::vector<int> lim = {}){ Cfg c; c.fam = F_LOCALP; c.rule = r; c.order = order; c.dims = d; c.outs = outs; c.depth = depth; c.limits = lim; return c; }
static Cfg cW(int order, int d, int outs, int depth, std::vector<int> lim = {}){ Cfg c; c.fam = F_WAVELET; c.rule = rule_wavelet; c.order = order; c.dims = d; c.outs = outs; c.depth = depth; c.limits = lim; return c; }
static void transform(Cfg &c){ const double ta[2] = {-0.7, 0.4}, tb[2] = {2.1, 3.0}; c.ta.assign(ta, ta + c.dims); c.tb.assign(tb, tb + c.dims); }
static int npoints(const Cfg &c){ TasmanianSparseGrid g; Cfg c0 = c; c0.outs = 0; make(g, c0); return g.getNumPoints(); }
static std::vector<Pt> points_of(const Cfg &c){ TasmanianSparseGrid g; Cfg c0 = c; c0.outs = 0; make(g, c0); return split(g.getPoints(), c.dims); }

struct Lattice {
    std::vector<Conf> confs; std::set<std::string> seen; int nmax, nmin = 3; bool variant = false;
    void add(const std::string &cls, Cfg host, Cfg target, std::vector<Pt> orphans = {}, std::vector<Pt> completion = {}, bool rt = false, int allow = 0){
        Conf c; c.cls = cls; c.host = host; c.target = target; c.orphans = orphans; c.completion = completion; c.rt = rt;
        int n; try{ n = (cls == "points" ? 0 : npoints(target)) + (int) orphans.size(); }catch(std::exception &){ return; }
        if (n < nmin || n > std::max(nmax, allow) || n + (int) completion.size() > 12) return;
        if (n >= 6 && variant && cls != "full" && cls != "points") return;                      // budget: 6-sample sets of the outputs/transform variants only as full grids
        if (n >= 7 && (cls != "full" || target.rule == rule_fejer2 || (!target.aw.empty() && target.aw[0] == 2))) return; // budget: five 7-sample sets (cc 2-D anisotropic, rleja, gauss-patterson, sequence rleja, localp-zero)
        if (seen.insert(c.str()).second) confs.push_back(c);
    }
    // full / subset / beyond variants of one target (host = target, host = deeper grid, host = shallower grid)
    void family(Cfg t, std::vector<Cfg> bigger, std::vector<Cfg> smaller, bool rt, int allow = 0){
        add("full", t, t, {}, {}, rt, allow);
        for(auto &h : bigger) add("subset", h, t, {}, {}, rt, allow);
        for(auto &h : smaller) add("beyond", h, t, {}, {}, false, allow);
    }
};
static std::vector<Conf> lattice(){
    Lattice L; bool th = thorough(); L.nmax = th ? 6 : 5;
    std::vector<int> OUTS = th ? std::vector<int>{1, 2} : std::vector<int>{1};
    for(int outs : OUTS) for(int tr = 0; tr < 2; tr++){
        bool variant = (outs == 2 || tr == 1);         // the plain variant carries the widest lattice
        if (outs == 2 && tr == 1 && !th) continue;
        L.variant = variant; if (th && variant && !(outs == 2 && tr == 1)) L.nmax = 5; else L.nmax = th ? 6 : 5;
        auto T = [&](Cfg c){ if (tr) transform(c); return c; };
        bool rt = th && !variant;
        // ---------------- Global nested rules
        for(auto r : {rule_clenshawcurtis, rule_rleja, rule_gausspatterson, rule_fejer2, rule_leja}){
            for(int depth=1; depth<=6; depth++) L.family(T(cG(r, 1, outs, depth)), {T(cG(r, 1, outs, depth + 1))}, {T(cG(r, 1, outs, 0)), T(cG(r, 1, outs, depth - 1))}, rt, (th && !variant && r != rule_leja) ? 7 : 0);
            for(int depth=1; depth<=2; depth++){
                L.family(T(cG(r, 2, outs, depth)), {T(cG(r, 2, outs, depth + 1))}, {T(cG(r, 2, outs, 0))}, rt);
                if (variant && !th) continue;
                for(auto aw : {std::vector<int>{1, 2}, std::vector<int>{2, 1}}) L.family(T(cG(r, 2, outs, depth + 1, type_level, aw)), {T(cG(r, 2, outs, depth + 1)), T(cG(r, 2, outs, depth + 2, type_level, aw))}, {T(cG(r, 2, outs, 0))}, rt, (th && !variant && r == rule_clenshawcurtis) ? 7 : 0);
                L.family(T(cG(r, 2, outs, depth, type_level, {}, {1, 0})), {T(cG(r, 2, outs, depth + 1, type_level, {}, {2, 0}))}, {}, rt);
                L.family(T(cG(r, 2, outs, depth + 1, type_level, {}, {depth, 1})), {}, {}, rt);
                L.family(T(cG(r, 2, outs, 1, type_tensor, {1, 1})), {T(cG(r, 2, outs, 2))}, {}, rt);
            }
        }
        // ---------------- Sequence
        for(auto r : {rule_rleja, rule_leja, rule_minlebesgue}){
            for(int depth=2; depth<=6; depth++) L.family(T(cS(r, 1, outs, depth)), {T(cS(r, 1, outs, depth + 1))}, {T(cS(r, 1, outs, 0)), T(cS(r, 1, outs, depth - 1))}, rt, (th && !variant && r == rule_rleja) ? 7 : 0);
            for(int depth=1; depth<=2; depth++){
                L.family(T(cS(r, 2, outs, depth)), {T(cS(r, 2, outs, depth + 1))}, {T(cS(r, 2, outs, 0)), T(cS(r, 2, outs, depth - 1))}, rt);
                if (variant && !th) continue;
                for(auto aw : {std::vector<int>{1, 2}, std::vector<int>{2, 1}}) L.family(T(cS(r, 2, outs, depth + 1, type_level, aw)), {T(cS(r, 2, outs, depth + 1))}, {T(cS(r, 2, outs, 0))}, rt);
                L.family(T(cS(r, 2, outs, 1, type_tensor, {1, 1})), {T(cS(r, 2, outs, 2))}, {}, rt);
                L.family(T(cS(r, 2, outs, depth + 1, type_level, {}, {depth, 1})), {}, {}, rt);
                L.family(T(cS(r, 2, outs, 2, type_tensor, {2, 1})), {T(cS(r, 2, outs, 3))}, {T(cS(r, 2, outs, 1))}, rt);
            }
        }
        // ---------------- Fourier
        for(int depth=1; depth<=1; depth++){
            L.family(T(cF(1, outs, depth)), {T(cF(1, outs, depth + 1))}, {T(cF(1, outs, 0))}, rt);
            L.family(T(cF(2, outs, depth)), {T(cF(2, outs, depth + 1))}, {T(cF(2, outs, 0))}, rt);
            L.family(T(cF(2, outs, depth, type_level, {}, {1, 0})), {T(cF(2, outs, depth))}, {}, rt);
            L.family(T(cF(2, outs, depth, type_level, {}, {0, 1})), {T(cF(2, outs, depth))}, {}, rt);
        }
        // ---------------- Local polynomial
        for(auto r : {rule_localp, rule_semilocalp, rule_localp0, rule_localpb}) for(int order : {0, 1, 2, 3, -1}){
            if (r == rule_semilocalp && order >= 0 && order < 2) continue;
            if (variant && !th && !(order == 2 || (order == 1 && r != rule_semilocalp))) continue;
            int maxd1 = (order == 0) ? 1 : 3;
            for(int depth=0; depth<=maxd1; depth++) L.family(T(cL(r, order, 1, outs, depth)), {T(cL(r, order, 1, outs, depth + 1))}, (order == 0) ? std::vector<Cfg>{T(cL(r, order, 1, outs, 0))} : std::vector<Cfg>{T(cL(r, order, 1, outs, 0)), T(cL(r, order, 1, outs, std::max(0, depth - 1)))}, rt, (th && !variant && r == rule_localp0 && order == 2) ? 7 : 0);
            for(int depth=0; depth<=1; depth++) L.family(T(cL(r, order, 2, outs, depth)), {T(cL(r, order, 2, outs, depth + 1))}, {T(cL(r, order, 2, outs, 0))}, rt);
            if (order != 0) L.family(T(cL(r, order, 2, outs, 2, {2, 0})), {T(cL(r, order, 2, outs, 2))}, {T(cL(r, order, 2, outs, 1))}, rt);
            L.family(T(cL(r, order, 2, outs, 1, {1, 0})), {T(cL(r, order, 2, outs, 1))}, {}, rt);
            L.family(T(cL(r, order, 2, outs, 1, {0, 1})), {T(cL(r, order, 2, outs, 2))}, {}, rt);
        }
        // ---------------- Wavelets (2-D grids start at 9 (order 1) / 25 (order 3) points: only 1-D grids and root subsets fit)
        L.family(T(cW(1, 1, outs, 0)), {T(cW(1, 1, outs, 1))}, {}, rt);
        L.family(T(cW(1, 1, outs, 1)), {T(cW(1, 1, outs, 2))}, {T(cW(1, 1, outs, 0))}, rt);
        L.family(T(cW(3, 1, outs, 0)), {T(cW(3, 1, outs, 1))}, {}, rt);
    }
    // ---------------- orphan configurations: complete part + samples that cannot be admitted until the completion batch arrives
    L.nmax = th ? 6 : 5;
    for(int outs : OUTS){
        L.variant = (outs == 2);
        auto orph = [&](Cfg host, Cfg target, Cfg big, size_t norph){ // orphans = up to 'norph' points of big \ target that the reference model does not admit, completion = the rest
            std::vector<Pt> extra; int nt = 0; try{ extra = minus(points_of(big), points_of(target)); nt = npoints(target); }catch(std::exception &){ return; }
            if (extra.size() < 2 || nt + extra.size() > 12) return;
            Conf probe; probe.cls = "orphan"; probe.host = host; probe.target = target; probe.orphans = extra; Ref P = build_ref(probe, false); if (!P.build_error.empty()) return;
            std::vector<Pt> o, c; unsigned chosen = (1u << nt) - 1;
            for(size_t e = extra.size(); e-- > 0; ){ unsigned lo, hi, m = chosen | (1u << (nt + e)); P.admissible(m, lo, hi); if (o.size() < norph && hi == (1u << nt) - 1){ o.push_back(extra[e]); chosen = m; } else c.push_back(extra[e]); }
            if (o.empty() || c.empty()) return;
            L.add("orphan", host, target, o, c, th && outs == 1);
        };
        for(auto r : {rule_clenshawcurtis, rule_rleja, rule_gausspatterson, rule_fejer2, rule_leja}){
            orph(cG(r, 1, outs, 2), cG(r, 1, outs, 1), cG(r, 1, outs, 2), 1);
            orph(cG(r, 1, outs, 1), cG(r, 1, outs, 1), cG(r, 1, outs, 3), 1);
            orph(cG(r, 1, outs, 3), cG(r, 1, outs, 1), cG(r, 1, outs, 3), 2);
            orph(cG(r, 2, outs, 1), cG(r, 2, outs, 0), cG(r, 2, outs, 1), 1);
            orph(cG(r, 2, outs, 2), cG(r, 2, outs, 1), cG(r, 2, outs, 2), 1);
            orph(cG(r, 2, outs, 2), cG(r, 2, outs, 0), cG(r, 2, outs, 2, type_level, {1, 2}), 2);
        }
        for(auto r : {rule_rleja, rule_leja, rule_minlebesgue}){
            orph(cS(r, 1, outs, 3), cS(r, 1, outs, 2), cS(r, 1, outs, 4), 1);
            orph(cS(r, 1, outs, 1), cS(r, 1, outs, 1), cS(r, 1, outs, 4), 2);
            orph(cS(r, 2, outs, 1), cS(r, 2, outs, 1), cS(r, 2, outs, 2), 1);
            orph(cS(r, 2, outs, 2), cS(r, 2, outs, 1), cS(r, 2, outs, 2), 2);
        }
        orph(cF(1, outs, 1), cF(1, outs, 1), cF(1, outs, 2), 1);
        orph(cF(1, outs, 2), cF(1, outs, 1), cF(1, outs, 2), 2);
        orph(cF(2, outs, 1), cF(2, outs, 0), cF(2, outs, 1), 2);
        orph(cF(2, outs, 1), cF(2, outs, 1, type_level, {}, {1, 0}), cF(2, outs, 1), 1);
        for(auto r : {rule_localp, rule_semilocalp, rule_localp0, rule_localpb}) for(int order : {1, 2}){
            if (r == rule_semilocalp && order < 2) continue;
            orph(cL(r, order, 1, outs, 3), cL(r, order, 1, outs, 1), cL(r, order, 1, outs, 3), 2);  // level-3 samples parked until level 2 arrives
            orph(cL(r, order, 1, outs, 1), cL(r, order, 1, outs, 1), cL(r, order, 1, outs, 3), 1);
            orph(cL(r, order, 2, outs, 2), cL(r, order, 2, outs, 0), cL(r, order, 2, outs, 2, {2, 0}), 2);
            orph(cL(r, order, 2, outs, 1), cL(r, order, 2, outs, 1, {1, 0}), cL(r, order, 2, outs, 2, {2, 0}), 1);
        }
        orph(cL(rule_localp, 0, 1, outs, 2), cL(rule_localp, 0, 1, outs, 1), cL(rule_localp, 0, 1, outs, 2), 2);
        orph(cW(1, 1, outs, 2), cW(1, 1, outs, 0), cW(1, 1, outs, 2), 2);
        orph(cW(1, 1, outs, 2), cW(1, 1, outs, 1), cW(1, 1, outs, 2), 1);
    }
    // ---------------- point sets that are not grids: a corner of the 2-D hierarchy in which a point has a parent in each direction, so that it can be admitted through
    // one parent before the other arrives (single-sample deliveries then update the surpluses of points that are already in the grid); 1 and 2 outputs in both tiers
    for(int outs : {1, 2}) for(auto r : {rule_localp, rule_semilocalp, rule_localp0}) for(int order : {1, 2}){
        if (r == rule_semilocalp && order < 2) continue; if (r == rule_localp0 && order == 2 && !th) continue;
        double a = (r == rule_localp0) ? -0.5 : -1.0, b = (r == rule_localp0) ? -0.75 : -0.5;
        std::vector<Pt> pts = { Pt{0.0, 0.0}, Pt{0.0, a}, Pt{0.0, b}, Pt{a, 0.0}, Pt{a, b}, Pt{a, a} };
        L.variant = (outs == 2); L.add("points", cL(r, order, 2, outs, 2), cL(r, order, 2, outs, 2), pts, {}, false, 6);
    }
    return L.confs;
}

// ------------------------------------------------------------------------------------------------ one work unit = one configuration

static void run_unit(const Conf &conf){
    double t0 = vf::now(); std::string unit = conf.name();
    Ref R = build_ref(conf, false);
    if (!R.build_error.empty()){ vf::emit(vf::J().s("t","error").s("what", unit + ": " + R.build_error)); return; }
    Shm *sh = (Shm*) mmap(nullptr, sizeof(Shm), PROT_READ | PROT_WRITE, MAP_SHARED | MAP_ANONYMOUS, -1, 0);
    if (sh == MAP_FAILED){ vf::emit(vf::J().s("t","error").s("what","mmap failed")); return; }
    // the one-batch reference runs construction code as well: try it in a child first so that a crash becomes an outcome of this unit
    { Seq id; id.perm.resize(R.n); std::iota(id.perm.begin(), id.perm.end(), 0);
      vf::Outcome o = vf::run_child([&](int fd){ Ref T = build_ref(conf, true); vf::wr(fd, "ok\n"); }, 120.0);
      if (o.kind != vf::Outcome::OK){
          std::string cls = (o.kind == vf::Outcome::SANITIZER) ? o.sanitizer_class() : o.describe(); std::string sig = signature(R, id, "crash:" + cls, false);
          vf::violation(sig, unit, id.json(R), o.describe() + " while loading the whole target set with one loadConstructedPoints call: " + o.err.substr(0, 1500));
          vf::emit(vf::J().s("t","outcome").s("key", sig).i("n", 1));
          vf::emit(vf::J().s("t","unit").s("unit", unit).i("states", 0).i("transitions", 1).i("execs", 1).i("evals", 1).i("distinct", 1).i("n", R.n).i("violations", 1).n("wall", vf::now() - t0).b("complete", true));
          munmap(sh, sizeof(Shm)); return; }
      R = build_ref(conf, true);
      if (!R.build_error.empty()){ vf::emit(vf::J().s("t","error").s("what", unit + ": " + R.build_error)); munmap(sh, sizeof(Shm)); return; } }
    if (!R.ref_mismatch.empty()){ Seq s; s.perm.resize(R.n); std::iota(s.perm.begin(), s.perm.end(), 0); s.mask = 0; std::string sig = "C09:one-batch-construction-differs-from-loadNeededValues:" + R.famtag; sh->nviol++; sh->bump(sig); vf::violation(sig, unit, s.json(R), R.ref_mismatch); }
    // round trips: every configuration up to 4 samples; 5 samples for the families with a tensor list (Global, Fourier) and for the full grids of the others
    bool with_rt = thorough() && conf.rt && (R.n <= 4 || (R.n == 5 && (R.fam == F_GLOBAL || R.fam == F_FOURIER || conf.cls == "full")));
    long total = 1L << (R.n - 1); for(int i=2;i<=R.n;i++) total *= i;   // steps = permutations x compositions (each step runs every query mode / round-trip variant)
    long s = 0; bool complete = true; int ncrash = 0; const long CH = with_rt ? 512 : 2048;
    while(s < total){
        if (vf::past_deadline()){ complete = false; break; }
        if (ncrash >= 5){ vf::emit(vf::J().s("t","note").s("text", unit + ": stopped after 5 crashing sequences, " + std::to_string(total - s) + " sequences not run")); complete = false; break; }
        long s0 = s, s1 = std::min(total, s + CH); sh->cur = -1;
        vf::Outcome o = vf::run_child([&](int fd){ for(long k=s0; k<s1; k++){ if ((k & 255) == 0 && vf::past_deadline()) break; run_step(R, unit, sh, k, with_rt); } sh->cur = s1; vf::wr(fd, "done\n"); }, 600.0);
        if (o.kind == vf::Outcome::OK && sh->cur == s1){ s = s1; continue; }
        if (o.kind == vf::Outcome::OK){ complete = false; s = sh->cur < s0 ? s0 : sh->cur; break; } // deadline inside the child
        long bad = sh->cur; if (bad < s0 || bad >= s1){ vf::emit(vf::J().s("t","error").s("what", unit + ": child died outside a sequence: " + o.describe() + " " + o.err.substr(0, 400))); complete = false; break; }
        // attribute the crash to the sequence that was running
        Seq q; decode(R, bad, q); q.q = sh->cur_q; q.rtpos = sh->cur_rtpos; q.rtfmt = sh->cur_rtfmt;
        std::string cls = (o.kind == vf::Outcome::SANITIZER) ? o.sanitizer_class() : o.describe();
        std::string sig = signature(R, q, "crash:" + cls, false); sh->nviol++; sh->execs++; sh->bump(sig);
        vf::violation(sig, unit, q.json(R), o.describe() + " while executing " + batches_str(R, q) + ": " + o.err.substr(0, 1500));
        ncrash++; s = bad + 1;
    }
    long nout = 0; bool differs = false;
    for(auto &sl : sh->out) if (sl.key[0]){ nout++; std::string k = sl.key; if (k.compare(0, 4, "C09:") == 0) differs = true; vf::emit(vf::J().s("t","outcome").s("key", k).i("n", sl.n)); }
    vf::emit(vf::J().s("t","outcome").s("key", std::string("configuration: ") + (differs ? "some delivery sequences differ" : "all delivery sequences equal") + " (" + famname(R.fam) + ")").i("n", 1));
    vf::emit(vf::J().s("t","unit").s("unit", unit).i("states", sh->nstates).i("transitions", sh->transitions).i("execs", sh->execs).i("evals", sh->evals).i("distinct", sh->ndistinct)
        .i("n", R.n).i("universe", R.nu).i("sequences_total", total).i("sequences_done", s).i("roundtrip_execs", sh->rt_execs).i("violations", sh->nviol).i("roundtrip_inherited", sh->inherited).b("distinct_saturated", sh->saturated != 0).n("wall", vf::now() - t0).b("complete", complete));
    { Seq sm; decode(R, total / 3, sm); sm.q = 1; vf::emit(vf::J().s("t","sample").raw("case", sm.json(R))); }
    if (!complete) vf::emit(vf::J().s("t","incomplete").s("unit", unit));
    munmap(sh, sizeof(Shm));
}

int main(int argc, char **argv){
    vf::Args A(argc, argv);
    g_tier = A.get("--tier", "quick");
    double dl = A.getd("--deadline", 0); if (dl > 0) vf::g_deadline = vf::now() + dl;
    if (A.has("--replay")){
        std::string v = vf::slurp(A.get("--replay")); std::string cs = vf::jget(v, "case"); std::string tier = vf::jget(v, "tier"); if (!tier.empty()) g_tier = tier;
        Conf conf = Conf::parse(vf::jget(cs, "conf")); Ref R = build_ref(conf, false);
        if (!R.build_error.empty()){ vf::emit(vf::J().s("t","error").s("what", R.build_error)); return 0; }
        { Seq id; id.perm.resize(R.n); std::iota(id.perm.begin(), id.perm.end(), 0);
          vf::Outcome o = vf::run_child([&](int fd){ Ref T = build_ref(conf, true); vf::wr(fd, "ok\n"); }, 120.0);
          if (o.kind != vf::Outcome::OK){ std::string cls = (o.kind == vf::Outcome::SANITIZER) ? o.sanitizer_class() : o.describe(); vf::violation(signature(R, id, "crash:" + cls, false), "replay", id.json(R), o.describe() + ": " + o.err.substr(0, 1500)); vf::emit(vf::J().s("t","summary").s("replay", o.describe())); return 0; }
          R = build_ref(conf, true); if (!R.build_error.empty()){ vf::emit(vf::J().s("t","error").s("what", R.build_error)); return 0; } }
        Seq s; for(long x : vf::jints(vf::jget(cs, "perm"))) s.perm.push_back((int) x); s.mask = (unsigned) atol(vf::jget(cs, "mask").c_str()); s.q = atoi(vf::jget(cs, "q").c_str()); s.rtpos = atoi(vf::jget(cs, "rtpos").c_str()); s.rtfmt = atoi(vf::jget(cs, "rtfmt").c_str());
        if ((int) s.perm.size() != R.n){ vf::emit(vf::J().s("t","error").s("what","replay: permutation length does not match the configuration")); return 0; }
        if (!R.ref_mismatch.empty()) vf::violation("C09:one-batch-construction-differs-from-loadNeededValues:" + R.famtag, "replay", s.json(R), R.ref_mismatch);
        vf::Outcome o = vf::run_child([&](int fd){
            bool noquery_failed = true; if (s.q != 0){ Seq t = s; t.q = 0; t.rtpos = -1; noquery_failed = run_seq(R, t).failed; }
            Fail f = run_seq(R, s); if (f.failed) vf::wr(fd, std::string(s.q != 0 && !noquery_failed ? "Q" : "-") + (f.completion ? "C" : "-") + f.kind + "\n" + f.detail); }, 120.0);
        if (o.kind != vf::Outcome::OK){ std::string cls = (o.kind == vf::Outcome::SANITIZER) ? o.sanitizer_class() : o.describe(); vf::violation(signature(R, s, "crash:" + cls, false), "replay", s.json(R), o.describe() + ": " + o.err.substr(0, 1500)); }
        else if (!o.out.empty()){ size_t p = o.out.find('\n'); vf::violation(signature(R, s, o.out.substr(2, p - 2), o.out[0] == 'Q', o.out[1] == 'C'), "replay", s.json(R), o.out.substr(p + 1)); }
        vf::emit(vf::J().s("t","summary").s("replay", o.describe())); return 0;
    }
    auto confs = lattice();
    if (A.has("--list")){ for(auto &c : confs){ Ref R = build_ref(c, false); printf("%-90s n=%d nu=%d %s %s\n", c.name().c_str(), R.n, R.nu, R.build_error.c_str(), R.ref_mismatch.c_str()); } return 0; }
    std::string only = A.get("--only");
    if (!only.empty()){ std::vector<Conf> f; for(auto &c : confs) if (c.name().find(only) != std::string::npos) f.push_back(c); confs = f; }
    // most expensive units first (dynamic distribution then balances the tail)
    { std::vector<std::pair<double,size_t>> ord; for(size_t i=0;i<confs.size();i++){ int n = 0; try{ n = (confs[i].cls == "points" ? 0 : npoints(confs[i].target)) + (int) confs[i].orphans.size(); }catch(...){} double c = 1; for(int k=2;k<=n;k++) c *= 2.0 * k; if (confs[i].rt && thorough() && n <= 5) c *= 4; ord.push_back({-c, i}); }
      std::stable_sort(ord.begin(), ord.end()); std::vector<Conf> s; for(auto &p : ord) s.push_back(confs[p.second]); confs = s; }
    size_t done = vf::parallel_units(confs.size(), (int) A.geti("--workers", 8), [&](size_t ui){ run_unit(confs[ui]); });
    std::string bound = std::string("every permutation x every batch composition x query modes ") + (thorough() ? "{none, weights/classic, estimated/fds}" : "{none, weights/classic}") + " of target sets with n <= " + (thorough() ? "6 (selected n = 7; third query mode for n <= 5)" : "5") + " samples"
        + (thorough() ? "; write/read round trip at every position x {binary, ascii} for n <= 4 and for the Global/Fourier and full-grid configurations with n = 5" : "") + "; " + std::to_string(confs.size()) + " configurations";
    vf::emit(vf::J().s("t","summary").i("units_total", (long long) confs.size()).i("units_done", (long long) done).s("bound", bound).b("exhaustive", done == confs.size() && !vf::past_deadline()));
    return 0;
}
