#!/usr/bin/env python3
"""conform.py - C18: Spin model of the constructSurrogate worker protocol, bound to the code in both directions.

  1. verification: models/surrogate_protocol.pml is checked by Spin over ALL interleavings (no deviation bound) for a list of
     (workers, budget, pool) configurations: no invalid end state (deadlock), budget respected, every launched sample computed once,
     no worker left running (assertions in the model); states/transitions of every run are reported
  2. model -> code: for the configurations whose trace set is small enough, EVERY complete trace of the model (the -DHIST build prints
     them all, no state merging) is replayed on the real constructSurrogate<mode_parallel> by engines/sched/sched_conform --follow
     (the scheduler runs the thread the model names in each block); the operations the real code performs must be exactly the model's
  3. code -> model: every execution of the real code explored by the deviation-bounded scheduler (sched_conform --dump) is given to the
     -DFOLLOW acceptor of the model, which must accept it as one of its complete runs; for the small configurations the two trace SETS
     must be equal (all schedules of the code = all runs of the model)
What is a violation of C18 and what is not: a disagreement between model and code (a trace of one that the other does not have) only says that
the model no longer describes the code (for instance after a harmless restructuring of the locking); it is reported as a note, the unit is
'incomplete' (the Spin result then says nothing about this tree) and the verdict is left to the direct exploration of sched_surrogate.
An error found by Spin (deadlock = invalid end state, assertion) is a violation only after its counterexample trace has been followed on the
real code and the code has really deadlocked / broken the per-execution oracle there; otherwise it is again 'model not bound'.
Records go to stdout in the JSONL format of engines/README.md.
"""
import sys, os, json, subprocess, time, hashlib, shutil, argparse

ROOT = os.path.dirname(os.path.dirname(os.path.dirname(os.path.abspath(__file__))))
MODEL = os.environ.get("VERIF_MODEL", os.path.join(ROOT, "models", "surrogate_protocol.pml"))   # VERIF_MODEL: self-test with a mutated model
T0 = time.time()

def emit(rec):
    sys.stdout.write(json.dumps(rec) + "\n"); sys.stdout.flush()

def sh(cmd, cwd=None, env=None, timeout=None):
    p = subprocess.run(cmd, cwd=cwd, env=env, stdout=subprocess.PIPE, stderr=subprocess.STDOUT, text=True, timeout=timeout)
    return p.returncode, p.stdout

def build_pan(wd, name, defs, cflags=("-DSAFETY",)):
    """spin -a + gcc for one set of defines; returns the path of the executable (cached per defines + model digest)"""
    d = os.path.join(wd, name); os.makedirs(d, exist_ok=True)
    stamp = hashlib.md5((open(MODEL).read() + " ".join(defs) + " ".join(cflags)).encode()).hexdigest()
    exe = os.path.join(d, "pan")
    if os.path.exists(exe) and os.path.exists(os.path.join(d, "stamp")) and open(os.path.join(d, "stamp")).read() == stamp:
        return exe
    shutil.copy(MODEL, os.path.join(d, "m.pml"))
    rc, out = sh(["spin", "-a"] + list(defs) + ["m.pml"], cwd=d)
    if rc != 0 or not os.path.exists(os.path.join(d, "pan.c")):
        emit({"t": "error", "what": "spin -a failed: " + out[-800:]}); return None
    rc, out = sh(["gcc", "-O2", "-w", "-DMEMLIM=6000"] + list(cflags) + ["-o", "pan", "pan.c"], cwd=d)
    if rc != 0:
        emit({"t": "error", "what": "gcc pan.c failed: " + out[-800:]}); return None
    open(os.path.join(d, "stamp"), "w").write(stamp)
    return exe

def parse_pan(out):
    st = tr = -1; errors = -1; incomplete = False
    for l in out.splitlines():
        l = l.strip()
        if l.endswith("states, stored"): st = int(float(l.split()[0]))
        elif l.endswith("transitions (= stored+matched)"): tr = int(float(l.split()[0]))
        elif l.startswith("State-vector") and "errors:" in l: errors = int(l.split("errors:")[1].split()[0])
        if "max search depth too small" in l or "out of memory" in l or "Search not completed" in l: incomplete = True
    return st, tr, errors, incomplete

def confirm_on_code(harness, wd, defs, nw, b, depth, what, unit, panout, a):
    """a counterexample of Spin counts only if the real code follows its trace and fails there too"""
    hp = build_pan(wd, "c_%d_%d_%d" % (nw, b, depth), defs + ["-DHIST"])
    if not hp: return
    d = os.path.dirname(hp)
    sh([hp, "-m1000000", "-c1"], cwd=d, timeout=600)
    rc, out = sh(["spin", "-t", "-g"] + defs + ["-DHIST", "m.pml"], cwd=d, timeout=120)
    hist = {}; hn = 0
    for l in out.splitlines():
        l = l.strip()
        if l.startswith("hist[") and "=" in l: hist[int(l[5:l.index("]")])] = int(l.split("=")[1])
        elif l.startswith("hn ="): hn = int(l.split("=")[1])
    tr = " ".join("%d:%d" % (hist.get(i, 0) // 16, hist.get(i, 0) % 16) for i in range(hn))
    fn = os.path.join(d, "cex.txt"); open(fn, "w").write(tr + "\n")
    rc, out = sh([harness, "--follow", fn, "--workers", "1", "--nw", str(nw), "--budget", str(b), "--depth", str(depth)], cwd=ROOT)
    fl = [l for l in out.splitlines() if l.startswith("F ")]; recs = [l for l in out.splitlines() if l.startswith("{")]
    f = [x.strip() for x in fl[0][2:].split("|")] if fl else ["?", "?", "", "", "[]"]
    status = f[1]; got = f[3] if len(f) > 3 else ""
    follows = got.startswith(tr.strip()) or tr.strip().startswith(got)       # the code performed the operations of the counterexample as far as either goes
    bad = status.split()[0] in ("DEADLOCK", "LIVELOCK", "TIMEOUT", "SANITIZER", "DIED") or bool(recs)
    if follows and bad:
        for r in recs: sys.stdout.write(r + "\n")
        if not recs:
            emit({"t": "viol", "sig": "C18:constructSurrogate:" + status.split()[0].lower() + ":spin-counterexample", "unit": unit,
                  "case": {"nw": nw, "budget": b, "depth": depth, "mode": "verify", "trace": tr, "choices": f[4] if len(f) > 4 else "[]"},
                  "detail": "Spin: %s in the protocol model (%d workers, budget %d, pool %d); the real constructSurrogate<mode_parallel> follows the counterexample [%s] and ends with %s" % (what, nw, b, 2 ** depth + 1, tr, status)})
    else:
        emit({"t": "note", "text": "MODEL-NOT-BOUND %s: Spin reports '%s' but the real code does not fail on the counterexample [%s] (status %s, operations [%s]): the model does not describe this tree, its result is not used" % (unit, what, tr, status, got)})
        emit({"t": "incomplete", "unit": unit})

def main():
    ap = argparse.ArgumentParser()
    ap.add_argument("--tier", default="quick"); ap.add_argument("--deadline", type=float, default=0); ap.add_argument("--workers", type=int, default=8)
    ap.add_argument("--seed"); ap.add_argument("--variant", default="asan"); ap.add_argument("--repo", default="/repo"); ap.add_argument("--broot", default="build")
    ap.add_argument("--replay")
    a = ap.parse_args()
    deadline = T0 + a.deadline if a.deadline > 0 else None
    def late(): return deadline is not None and time.time() > deadline
    harness = os.path.join(ROOT, a.broot, a.variant, "bin", "sched_conform")
    wd = os.path.join(ROOT, a.broot, "spin"); os.makedirs(wd, exist_ok=True)
    if a.replay:
        v = json.load(open(a.replay)); c = v.get("case", {})
        if isinstance(c, str): c = json.loads(c)
        # a conformance violation is replayed by running the two sides again for its configuration
        a.only = (c.get("nw"), c.get("budget"), bool(c.get("noyield")))
    else:
        a.only = None
    thorough = (a.tier == "thorough")
    units_total = units_done = 0; exhaustive = True

    # ---- 1. verification over all interleavings
    # (workers, budget, depth): the pool is the 1-D local polynomial grid of that depth, 2^depth + 1 points
    vcfg = [(2, 1, 1), (2, 2, 1), (2, 3, 1), (2, 4, 1), (3, 2, 1), (3, 3, 1), (2, 3, 2), (3, 4, 2)]
    if thorough: vcfg += [(3, 5, 2), (4, 3, 1), (4, 4, 2), (3, 6, 3), (4, 5, 3), (4, 6, 3)]
    for nw, b, depth in ([] if a.only else vcfg):
        pool = 2 ** depth + 1
        units_total += 1
        if late(): exhaustive = False; emit({"t": "incomplete", "unit": "verify:w%d:b%d:p%d" % (nw, b, pool)}); continue
        defs = ["-DNW=%d" % nw, "-DBUDGET=%d" % b, "-DPOOL=%d" % pool]
        exe = build_pan(wd, "v_%d_%d_%d" % (nw, b, pool), defs)
        if not exe: continue
        try:
            rc, out = sh([exe, "-m1000000", "-c1"], cwd=os.path.dirname(exe), timeout=900 if thorough else 200)
        except subprocess.TimeoutExpired:
            exhaustive = False; emit({"t": "incomplete", "unit": "verify:w%d:b%d:p%d" % (nw, b, pool)}); continue
        st, tr, errors, inc = parse_pan(out)
        unit = "model-verify:w%d:b%d:pool%d" % (nw, b, pool)
        if errors != 0:
            what = "assertion violated" if "assertion violated" in out else ("invalid end state" if "invalid end state" in out else "error")
            confirm_on_code(harness, wd, defs, nw, b, depth, what, unit, out, a)
            exhaustive = False
        if inc or st < 0: exhaustive = False; emit({"t": "incomplete", "unit": unit})
        else: units_done += 1
        emit({"t": "unit", "unit": unit, "states": max(st, 0), "transitions": max(tr, 0), "execs": 0, "evals": 1, "distinct": max(st, 0), "complete": not inc and st >= 0})

    # ---- 2 + 3. binding. scenario indices in surrogate_body.inc: 13.. = w2 b1,b2,b3,b4 ; w3 b2,b3 (pool 3)
    # (nw, budget, depth, noyield, all_traces?, impl bound)
    bcfg = [(2, 1, 1, False, True, 99), (2, 1, 1, True, True, 99), (2, 2, 1, False, False, 2), (2, 3, 1, True, False, 2), (3, 2, 1, True, False, 1), (2, 3, 2, True, False, 1)]
    if thorough: bcfg += [(2, 2, 1, True, False, 3), (2, 3, 1, False, False, 3), (2, 4, 1, False, False, 2), (3, 2, 1, False, False, 2), (3, 3, 1, False, False, 2), (3, 3, 1, True, False, 2),
                          (3, 4, 2, True, False, 2), (4, 4, 2, True, False, 1), (3, 6, 3, True, False, 1), (2, 1, 2, False, True, 99)]
    for nw, b, depth, noy, alltr, ibound in bcfg:
        if a.only and a.only != (nw, b, noy): continue
        unit = "bind:w%d:b%d:pool%d:%s:%s" % (nw, b, 2 ** depth + 1, "noyield" if noy else "yield", "all-traces" if alltr else "impl-bound-%d" % ibound)
        units_total += 1
        if late(): exhaustive = False; emit({"t": "incomplete", "unit": unit}); continue
        case = {"nw": nw, "budget": b, "depth": depth, "noyield": noy, "mode": "bind"}
        defs = ["-DNW=%d" % nw, "-DBUDGET=%d" % b, "-DPOOL=%d" % (2 ** depth + 1)] + (["-DNOYIELD"] if noy else [])
        hflags = ["--nw", str(nw), "--budget", str(b), "--depth", str(depth)] + (["--noyield"] if noy else [])
        tag = "%d_%d_%d_%d" % (nw, b, depth, 1 if noy else 0)
        notbound = []
        # implementation side: all executions within the bound
        rc, out = sh([harness, "--dump", "--bound", str(ibound)] + hflags + (["--deadline", str(max(10, deadline - time.time()))] if deadline else []), cwd=ROOT)
        impl = []; complete = False
        for l in out.splitlines():
            if l.startswith("T "):
                f = [x.strip() for x in l[2:].split("|")]; impl.append((f[0], f[1], f[2], f[3] if len(f) > 3 else "[]"))
            elif l.startswith("D "): complete = l.split()[2] == "complete"
        if not impl: emit({"t": "error", "what": "sched_conform --dump produced nothing: " + out[-500:]}); continue
        nviol = 0
        for tr, status, obs, ch in impl:
            if status != "OK":
                nviol += 1
                if nviol <= 3: emit({"t": "viol", "sig": "C18:constructSurrogate:" + status.split()[0].lower(), "unit": unit, "case": dict(case, choices=ch), "detail": "%s with choices %s: %s" % (status, ch, obs[:300])})
        # code -> model: the acceptor
        acc = build_pan(wd, "f_" + tag, defs + ["-DFOLLOW"])
        if not acc: continue
        tdir = os.path.join(wd, "traces_" + tag); os.makedirs(tdir, exist_ok=True)
        uniq = sorted(set(t for t, _, _, _ in impl)); rejected = 0
        procs = []
        def drain(limit):
            nonlocal rejected
            while len(procs) > limit:
                p, tr, fn = procs.pop(0); o = p.communicate()[0]
                if "ACCEPTED" not in o:
                    rejected += 1
                    if rejected <= 2: notbound.append("the code performs [%s], which is not a run of the model" % tr)
                os.unlink(fn)
        for i, tr in enumerate(uniq):
            fn = os.path.join(tdir, "t%d.txt" % i); open(fn, "w").write(tr.replace(" ", "\n") + "\n")
            procs.append((subprocess.Popen([acc, "-m100000"], cwd=os.path.dirname(acc), env=dict(os.environ, VERIF_TRACE=fn), stdout=subprocess.PIPE, stderr=subprocess.STDOUT, text=True), tr, fn))
            drain(a.workers)
        drain(0)
        ntr_model = 0; mism = 0
        if alltr:
            # model -> code: every trace of the model
            hp = build_pan(wd, "h_" + tag, defs + ["-DHIST"])
            if not hp: continue
            rc, out = sh([hp, "-m100000"], cwd=os.path.dirname(hp), timeout=600)
            mtr = sorted(set(" ".join(l.split()) for l in out.splitlines() if l[:1].isdigit() and ":" in l.split(" ")[0]))
            if "out of memory" in out or not mtr: emit({"t": "error", "what": "the HIST run of the model did not complete: " + out[-400:]}); continue
            ntr_model = len(mtr)
            fn = os.path.join(tdir, "model_traces.txt"); open(fn, "w").write("\n".join(mtr) + "\n")
            rc, out = sh([harness, "--follow", fn, "--workers", str(a.workers)] + hflags, cwd=ROOT)
            nf = 0
            for l in out.splitlines():
                if l.startswith("{"): sys.stdout.write(l + "\n")      # oracle violations found while following (records of check_exec)
                elif l.startswith("F "):
                    nf += 1; f = [x.strip() for x in l[2:].split("|")]
                    if f[0] != "ok":
                        mism += 1
                        if mism <= 2: notbound.append("the run [%s] of the model is not an execution of the code: following it gives status %s and operations [%s]" % (f[2], f[1], f[3]))
            if nf != len(mtr): emit({"t": "error", "what": "followed %d of %d model traces: %s" % (nf, len(mtr), out[-300:])})
            if complete and set(uniq) != set(mtr) and mism == 0 and rejected == 0: notbound.append("code: %d distinct traces, model: %d" % (len(uniq), len(mtr)))
            os.unlink(fn)
        ok = complete and not late() and not notbound
        for nb in notbound: emit({"t": "note", "text": "MODEL-NOT-BOUND %s: %s (the model does not describe this tree; the Spin results are not used, the verdict rests on the direct exploration)" % (unit, nb)})
        if ok: units_done += 1
        else: exhaustive = False; emit({"t": "incomplete", "unit": unit})
        emit({"t": "unit", "unit": unit, "states": len(uniq), "transitions": sum(len(t.split()) for t in uniq), "execs": len(impl) + ntr_model, "evals": len(uniq) + ntr_model,
              "distinct": len(uniq), "complete": ok})
        if not notbound: emit({"t": "note", "text": "%s: %d executions of the code (%d distinct operation traces) all accepted by the model%s" % (unit, len(impl), len(uniq),
              ("; all %d traces of the model reproduced by the code; trace sets equal" % ntr_model) if alltr else "")})
    emit({"t": "sample", "case": {"binding": "one model step = one scheduling block of engines/sched/sched.hpp", "trace_alphabet": "thread:operation"}})
    emit({"t": "summary", "units_total": units_total, "units_done": units_done, "exhaustive": exhaustive and units_done == units_total,
          "bound": "Spin: all interleavings of the protocol model per configuration; binding: all schedules (small configurations) or all schedules within the stated deviation bound, every one checked against the model, and every model trace replayed on the code"})

if __name__ == "__main__":
    try: main()
    except Exception as e:
        import traceback
        emit({"t": "error", "what": "conform.py crashed: %s %s" % (e, traceback.format_exc()[-1500:])}); sys.exit(0)
