// sched.hpp - engine E-C: cooperative scheduler that owns every synchronisation operation of the real code
// (link-time interposition of the pthread entry points used by libstdc++'s std::thread / std::mutex /
// std::condition_variable) and a deviation(delay)-bounded depth-first explorer over scheduler choices.
//
//  * exactly one managed thread runs at a time; every interposed operation is a choice point placed *before*
//    the operation takes effect; blocked threads are not enabled
//  * default choice (index 0) = keep running the current thread if it is enabled, otherwise the next enabled thread
//    in round-robin order; any other choice is a *deviation*; bounds 0,1,2,... are explored completely
//  * no enabled thread while some thread is unfinished = DEADLOCK; more than max_steps choice points = LIVELOCK
//  * an execution is identified by its vector of choices; replay = run with that vector as prefix
//  * with -DVS_NO_INTERPOSE nothing is interposed (free-running pass of the same harness bodies under TSan)
#ifndef SCHED_HPP
#define SCHED_HPP
#include "vf.hpp"
#include <pthread.h>
#include <dlfcn.h>
#include <semaphore.h>
#include <map>
#include <set>
#include <algorithm>

namespace vs {
enum St { RUNNABLE, WANT_LOCK, COND_WAIT, WANT_JOIN, FINISHED, SLEEP };
struct Th { pthread_t real; St st; void *obj; void *obj2; sem_t gate; void*(*fn)(void*); void *arg; int id; long wake; };
struct Point { int nenabled; int chosen; int running; char kind; };
static std::vector<Th*> th;
static bool active = false;
static __thread int self_id = -1;
static std::map<void*, int> owner;                  // mutex -> owner id
static std::map<void*, std::vector<int>> waiters;   // condition variable -> waiting thread ids (FIFO)
static std::vector<int> prefix;                     // choices to replay
static std::vector<Point> points;
static std::vector<std::string> trace;              // operation trace (thread:op), for model conformance
static bool keep_trace = false;
static int current = -1; static int outfd = -1; static long nsteps = 0; static long max_steps = 20000;
static std::vector<int> follow;                     // follow mode: thread id that performs block i (from a model trace); empty = off
static bool choose_waiter = false;                  // notify_one picks any waiter (extra choice point) instead of FIFO
static int max_conc_model = 0;
static long vclock = 0;                             // virtual time: advances only when no thread is enabled and some thread sleeps (model latencies)

template<typename F> static F real(const char *name){ return (F) dlsym(RTLD_NEXT, name); }
static int (*r_create)(pthread_t*, const pthread_attr_t*, void*(*)(void*), void*);
static int (*r_join)(pthread_t, void**);
static int (*r_lock)(pthread_mutex_t*); static int (*r_trylock)(pthread_mutex_t*); static int (*r_unlock)(pthread_mutex_t*);
static int (*r_cwait)(pthread_cond_t*, pthread_mutex_t*); static int (*r_csig)(pthread_cond_t*); static int (*r_cbc)(pthread_cond_t*);
static void init_real(){ if (r_create) return; r_create = real<decltype(r_create)>("pthread_create"); r_join = real<decltype(r_join)>("pthread_join"); r_lock = real<decltype(r_lock)>("pthread_mutex_lock"); r_trylock = real<decltype(r_trylock)>("pthread_mutex_trylock"); r_unlock = real<decltype(r_unlock)>("pthread_mutex_unlock"); r_cwait = real<decltype(r_cwait)>("pthread_cond_wait"); r_csig = real<decltype(r_csig)>("pthread_cond_signal"); r_cbc = real<decltype(r_cbc)>("pthread_cond_broadcast"); }

static bool enabled(Th *t){
    switch(t->st){
        case RUNNABLE: return true;
        case WANT_LOCK: return owner.find(t->obj) == owner.end();
        case COND_WAIT: return false;
        case WANT_JOIN: return th[(size_t)(intptr_t) t->obj]->st == FINISHED;
        case SLEEP: return vclock >= t->wake;
        default: return false;
    }
}
static void finish_report(const char *why, int code){
    std::ostringstream o; o << why << "\n" << points.size() << "\n";
    for(auto &p : points) o << p.nenabled << " " << p.chosen << " " << p.running << " " << p.kind << "\n";
    if (keep_trace){ o << trace.size() << "\n"; for(auto &t : trace) o << t << "\n"; } else o << "0\n";
    vf::wr(outfd, o.str()); _exit(code);
}
static int choose(int n, char kind, int running){
    int c = 0; size_t k = points.size();
    if (k < prefix.size()){ c = prefix[k]; if (c >= n) finish_report("REPLAY-DIVERGED", 4); }
    Point p; p.nenabled = n; p.chosen = c; p.running = running; p.kind = kind; points.push_back(p); return c;
}
// called by the running thread after it registered its pending operation
static void schedule(char kind, const char *opname){
    if (++nsteps > max_steps) finish_report("LIVELOCK", 3);
    if (keep_trace && opname){ trace.push_back(std::to_string(self_id) + ":" + opname); }
    std::vector<int> en; bool cur_en = (current >= 0 && enabled(th[current]));
    if (cur_en) en.push_back(current);
    { int n = (int) th.size(); for(int k=1;k<=n;k++){ int id = ((current < 0 ? 0 : current) + k) % n; if (id != current && enabled(th[id])) en.push_back(id); } }
    if (en.empty()){ // nobody can run: let the virtual clock jump to the earliest wake-up of a sleeping thread
        long mw = -1; for(auto t : th) if (t->st == SLEEP && (mw < 0 || t->wake < mw)) mw = t->wake;
        if (mw >= 0){ vclock = std::max(vclock, mw); int n = (int) th.size(); for(int k=1;k<=n;k++){ int id = ((current < 0 ? 0 : current) + k) % n; if (enabled(th[id])) en.push_back(id); } cur_en = false; }
    }
    if (en.empty()){
        bool all_done = true; for(auto t : th) if (t->st != FINISHED) all_done = false;
        if (all_done) return;
        finish_report("DEADLOCK", 3);
    }
    int c = 0;
    if (!follow.empty() && nsteps < (long) follow.size()){
        // block number nsteps (0-based; block 0 is the start of main) must be run by the thread the model trace names
        int want = follow[(size_t) nsteps]; c = -1; for(size_t q=0;q<en.size();q++) if (en[q] == want) c = (int) q;
        if (c < 0) finish_report("MODEL-DIVERGED", 5);
        Point p; p.nenabled = (int) en.size(); p.chosen = c; p.running = cur_en ? 1 : 0; p.kind = kind; points.push_back(p);
    }else c = (en.size() > 1) ? choose((int) en.size(), kind, cur_en ? 1 : 0) : 0;
    int next = en[c], me = self_id; current = next;
    // after the hand-off the next thread really runs in parallel with the rest of this function and may append to 'th' (pthread_create): take the pointers first
    if (next != me){ Th *tn = th[(size_t) next], *tm = th[(size_t) me]; bool finished = (tm->st == FINISHED); sem_post(&tn->gate); if (!finished) sem_wait(&tm->gate); }
}
static void *trampoline(void *p){
    Th *t = (Th*) p; self_id = t->id; sem_wait(&t->gate);
    void *r = t->fn(t->arg);
    t->st = FINISHED; schedule('x', "exit");
    return r;
}
// explicit choice point for the harness (e.g. inside the model callback: "any latency")
static void yield(const char *opname = "yield"){ if (active && self_id >= 0) schedule('y', opname); }
// the calling thread is busy for L ticks of virtual time (a model latency): it is not enabled until the clock reaches its wake-up time,
// and the clock only advances when nothing else can run - "this call takes longer than anything the other threads can do meanwhile"
static void sleep_ticks(long L, const char *opname = "yield"){
    if (!active || self_id < 0) return;
    if (L <= 0){ schedule('y', opname); return; }
    Th *me = th[self_id]; me->st = SLEEP; me->wake = vclock + L; schedule('z', opname); me->st = RUNNABLE;
}
static void begin_main(){
    init_real(); Th *m = new Th(); m->st = RUNNABLE; m->id = 0; m->real = pthread_self(); sem_init(&m->gate, 0, 0); th.push_back(m); self_id = 0; current = 0; active = true;
}
static void end_main(){ active = false; }
} // namespace vs

#ifndef VS_NO_INTERPOSE
extern "C" {
int pthread_create(pthread_t *t, const pthread_attr_t *a, void*(*fn)(void*), void *arg){
    vs::init_real(); if (!vs::active || vs::self_id < 0) return vs::r_create(t, a, fn, arg);
    vs::Th *n = new vs::Th(); n->st = vs::RUNNABLE; n->fn = fn; n->arg = arg; n->id = (int) vs::th.size(); sem_init(&n->gate, 0, 0); vs::th.push_back(n);
    int rc = vs::r_create(&n->real, a, vs::trampoline, n); *t = n->real;
    vs::schedule('c', "create"); return rc;
}
int pthread_join(pthread_t t, void **r){
    vs::init_real(); if (!vs::active || vs::self_id < 0) return vs::r_join(t, r);
    int target = -1; for(auto x : vs::th) if (x->id > 0 && pthread_equal(x->real, t)) target = x->id;
    if (target < 0) return vs::r_join(t, r);
    vs::Th *me = vs::th[vs::self_id]; me->st = vs::WANT_JOIN; me->obj = (void*)(intptr_t) target; vs::schedule('j', "join"); me->st = vs::RUNNABLE;
    return vs::r_join(t, r);
}
int pthread_mutex_lock(pthread_mutex_t *m){
    vs::init_real(); if (!vs::active || vs::self_id < 0) return vs::r_lock(m);
    vs::Th *me = vs::th[vs::self_id]; me->st = vs::WANT_LOCK; me->obj = m; vs::schedule('l', "lock"); me->st = vs::RUNNABLE; vs::owner[m] = me->id; return 0;
}
int pthread_mutex_trylock(pthread_mutex_t *m){
    vs::init_real(); if (!vs::active || vs::self_id < 0) return vs::r_trylock(m);
    vs::schedule('t', "trylock"); if (vs::owner.find(m) != vs::owner.end()) return 16 /*EBUSY*/; vs::owner[m] = vs::self_id; return 0;
}
int pthread_mutex_unlock(pthread_mutex_t *m){
    vs::init_real(); if (!vs::active || vs::self_id < 0) return vs::r_unlock(m);
    vs::owner.erase(m); vs::schedule('u', "unlock"); return 0;
}
int pthread_cond_wait(pthread_cond_t *c, pthread_mutex_t *m){
    vs::init_real(); if (!vs::active || vs::self_id < 0) return vs::r_cwait(c, m);
    vs::Th *me = vs::th[vs::self_id]; vs::owner.erase(m); me->st = vs::COND_WAIT; me->obj = m; me->obj2 = c; vs::waiters[c].push_back(me->id);
    vs::schedule('w', "wait"); me->st = vs::RUNNABLE; vs::owner[m] = me->id; return 0;
}
int pthread_cond_clockwait(pthread_cond_t *c, pthread_mutex_t *m, clockid_t, const struct timespec*){ return pthread_cond_wait(c, m); }
int pthread_cond_timedwait(pthread_cond_t *c, pthread_mutex_t *m, const struct timespec*){ return pthread_cond_wait(c, m); }
int pthread_cond_signal(pthread_cond_t *c){
    vs::init_real(); if (!vs::active || vs::self_id < 0) return vs::r_csig(c);
    auto &w = vs::waiters[c];
    if (!w.empty()){ size_t k = 0; if (vs::choose_waiter && w.size() > 1) k = (size_t) vs::choose((int) w.size(), 'n', 1); int id = w[k]; w.erase(w.begin() + (long) k); vs::th[id]->st = vs::WANT_LOCK; }
    vs::schedule('s', "signal"); return 0;
}
int pthread_cond_broadcast(pthread_cond_t *c){
    vs::init_real(); if (!vs::active || vs::self_id < 0) return vs::r_cbc(c);
    auto &w = vs::waiters[c]; for(int id : w) vs::th[id]->st = vs::WANT_LOCK; w.clear();
    vs::schedule('b', "broadcast"); return 0;
}
}
#endif

// ---------------------------------------------------------------- explorer
namespace vx {
struct Result { std::string status; std::vector<vs::Point> pts; std::vector<std::string> trace; std::string obs; vf::Outcome out; };

// runs body() under the scheduler in a forked child with the given choice prefix
static Result run(const std::vector<int> &prefix, const std::function<std::string()> &body, double timeout = 60.0, bool want_trace = false, const std::vector<int> &follow = std::vector<int>()){
    vf::Outcome o = vf::run_child([&](int fd){
        vs::outfd = fd; vs::prefix = prefix; vs::keep_trace = want_trace; vs::follow = follow; vs::begin_main();
        std::string obs = body();
        vs::end_main();
        std::ostringstream s; s << "OK\n" << vs::points.size() << "\n"; for(auto &p : vs::points) s << p.nenabled << " " << p.chosen << " " << p.running << " " << p.kind << "\n";
        if (want_trace){ s << vs::trace.size() << "\n"; for(auto &t : vs::trace) s << t << "\n"; } else s << "0\n";
        s << obs << "\n"; vf::wr(fd, s.str());
    }, timeout);
    Result R; R.out = o; std::istringstream in(o.out); std::getline(in, R.status);
    if (R.status.empty()) R.status = (o.kind == vf::Outcome::TIMEOUT) ? "TIMEOUT" : (o.kind == vf::Outcome::SANITIZER ? "SANITIZER " + o.sanitizer_class() : "DIED " + o.describe());
    else if (o.kind == vf::Outcome::SANITIZER) R.status = "SANITIZER " + o.sanitizer_class();
    size_t n = 0; in >> n; for(size_t i=0;i<n;i++){ vs::Point p; in >> p.nenabled >> p.chosen >> p.running >> p.kind; R.pts.push_back(p); }
    size_t nt = 0; in >> nt; std::string line; std::getline(in, line); for(size_t i=0;i<nt;i++){ std::getline(in, line); R.trace.push_back(line); }
    std::string rest, l2; while(std::getline(in, l2)){ if (!rest.empty()) rest += "\n"; rest += l2; } R.obs = rest;
    return R;
}
inline std::string choices_str(const std::vector<vs::Point> &p){ std::string s; for(auto &q : p){ s += std::to_string(q.chosen); s += ","; } return s; }
inline std::vector<int> nonzero_prefix(const std::vector<vs::Point> &p){ std::vector<int> v; size_t last = 0; for(size_t i=0;i<p.size();i++) if (p[i].chosen) last = i + 1; for(size_t i=0;i<last;i++) v.push_back(p[i].chosen); return v; }

struct Stats { long execs = 0, points = 0, maxpoints = 0; std::map<std::string,long> outcomes; };

// deviation-bounded DFS below a given prefix. on_exec is called for every complete execution.
static void explore(const std::vector<int> &prefix, int used, int bound, const std::function<std::string()> &body,
                    const std::function<void(const Result&, const std::vector<int>&)> &on_exec, Stats &S, double timeout = 60.0){
    if (vf::past_deadline()) return;
    Result x = run(prefix, body, timeout); S.execs++; S.points += (long) x.pts.size(); S.maxpoints = std::max(S.maxpoints, (long) x.pts.size());
    on_exec(x, prefix);
    int u = used;
    for(size_t i = prefix.size(); i < x.pts.size(); i++){
        if (u + 1 > bound) break;
        for(int alt = 1; alt < x.pts[i].nenabled; alt++){
            std::vector<int> np; for(size_t k=0;k<i;k++) np.push_back(x.pts[k].chosen); np.push_back(alt);
            explore(np, u + 1, bound, body, on_exec, S, timeout);
        }
        if (x.pts[i].chosen != 0) u++; // cannot happen beyond the prefix (defaults are 0), kept for clarity
    }
}
} // namespace vx
#endif
