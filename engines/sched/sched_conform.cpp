// sched_conform - C18: binding of the Promela model models/surrogate_protocol.pml to the real constructSurrogate<mode_parallel>.
// One model step = one scheduling block of sched.hpp (thread p runs to the next interposed operation l), so a model trace and an
// implementation trace are both words over (thread, operation):
//   --dump --sc <i> --bound <k> [--noyield]    every execution of scenario i with <= k deviations (k >= 99: all schedules) on the real code;
//                                              one line per execution: "T <p:l p:l ...> | <status> | <observation>"  (fed to the FOLLOW acceptor of the model)
//   --follow <file> --sc <i> [--noyield]       every line of <file> is a complete trace of the model ("p:l p:l ..."): the real code is run with the
//                                              scheduler in follow mode (block n is run by the thread the model names) and must perform exactly the
//                                              operations the model names, terminate, and satisfy the per-execution oracle of C18
// The orchestration (Spin runs, comparison of the two trace sets) is in engines/sched/conform.py.
#include "surrogate_body.inc"
#include <fstream>

static int label_of(const std::string &op){
    static const char *names[] = {"", "create", "lock", "unlock", "wait", "signal", "broadcast", "join", "exit", "model-begin", "model-end"};
    for(int i=1;i<=10;i++) if (op == names[i]) return i; return 0;
}
static std::string numeric(const std::vector<std::string> &trace){
    std::string s; for(auto &t : trace){ size_t c = t.find(':'); s += t.substr(0, c) + ":" + std::to_string(label_of(t.substr(c + 1))) + " "; } return s;
}

int main(int argc, char **argv){
    vf::Args A(argc, argv); int si = (int) A.geti("--sc", NSC); g_noyield = A.has("--noyield");
    double dl = A.getd("--deadline", 0); if (dl > 0) vf::g_deadline = vf::now() + dl;
    if (si < 0 || si >= NSC_ALL){ fprintf(stderr, "bad scenario\n"); return 2; }
    if (A.has("--nw")){ si = NSC; SC[si].workers = (int) A.geti("--nw", 2); SC[si].budget = (int) A.geti("--budget", 1); g_depth0 = (int) A.geti("--depth", 1); } // any (workers, budget, pool = 2^depth + 1)
    if (A.has("--dump")){
        int bound = (int) A.geti("--bound", 99); long n = 0;
        // explore with traces: vx::explore runs without traces, so the DFS is re-implemented here with want_trace = true
        std::function<void(const std::vector<int>&, int)> rec = [&](const std::vector<int> &prefix, int used){
            if (vf::past_deadline()) return;
            vx::Result x = vx::run(prefix, [&]{ return body(si); }, 120.0, true); n++;
            printf("T %s| %s | %s | %s\n", numeric(x.trace).c_str(), x.status.c_str(), x.obs.c_str(), vf::jarr(vx::nonzero_prefix(x.pts)).c_str());
            for(size_t i = prefix.size(); i < x.pts.size(); i++){
                if (used + 1 > bound) break;
                for(int alt = 1; alt < x.pts[i].nenabled; alt++){ std::vector<int> np; for(size_t k=0;k<i;k++) np.push_back(x.pts[k].chosen); np.push_back(alt); rec(np, used + 1); }
            }
        };
        rec(std::vector<int>(), 0);
        printf("D %ld %s\n", n, vf::past_deadline() ? "incomplete" : "complete"); return 0;
    }
    if (A.has("--follow")){
        std::ifstream in(A.get("--follow")); std::string line; std::vector<std::string> lines; while(std::getline(in, line)) if (!line.empty()) lines.push_back(line);
        std::vector<std::string> res(lines.size());
        size_t done = vf::parallel_units(lines.size(), (int) A.geti("--workers", 8), [&](size_t ui){
            std::vector<int> who; { std::istringstream s(lines[ui]); std::string tok; while(s >> tok) who.push_back(atoi(tok.c_str())); }
            vx::Result x = vx::run(std::vector<int>(), [&]{ return body(si); }, 120.0, true, who);
            std::string got = numeric(x.trace); std::string want = lines[ui]; while(!want.empty() && want.back() == ' ') want.pop_back(); while(!got.empty() && got.back() == ' ') got.pop_back();
            std::map<std::string,long> oc; g_nviol = 0; check_exec(si, x, std::vector<int>(), oc);
            vf::wr(vf::out_fd, std::string("F ") + ((x.status == "OK" && got == want && g_nviol == 0) ? "ok" : "MISMATCH") + " | " + x.status + " | " + want + " | " + got + " | " + vf::jarr(vx::nonzero_prefix(x.pts)) + "\n");
        });
        fflush(stdout); printf("D %zu %s\n", done, done == lines.size() ? "complete" : "incomplete"); return 0;
    }
    fprintf(stderr, "usage: sched_conform --dump|--follow <file> --sc <i> [--bound k] [--noyield]\n"); return 2;
}
