// sched_const - C12: concurrent const calls on one grid.
// Two managed threads each run one const operation on the same real grid object. The library is compiled with
// -finstrument-functions (variant inst): every entry of a Tasmanian function is a scheduler choice point, filtered to the
// functions that a sequential profiling pre-pass of the same operation enters at most MAXCALLS times (explicit, reported
// reduction: the dropped ones are leaf evaluations). All schedules with <= k deviations run to completion; the oracle:
// each call returns bitwise what it returns alone (reference computed on an independent restored copy), ASan clean, no deadlock.
// Variant tsan (-DVS_NO_INTERPOSE): the same pairs run free under ThreadSanitizer - the race detector proper.
#include "sched.hpp"
#include "tgrid.hpp"
#include <atomic>
#include <thread>
using namespace tg;

static int MAXCALLS = 8;
namespace hook {
static bool profiling = false, scheduling = false; static __thread int depth = 0;
static std::map<void*, long> counts; static std::set<void*> selected;
}
extern "C" {
void __cyg_profile_func_enter(void *fn, void *site) __attribute__((no_instrument_function));
void __cyg_profile_func_exit(void *fn, void *site) __attribute__((no_instrument_function));
void __cyg_profile_func_enter(void *fn, void *){
    if (hook::depth) return; hook::depth++;
    if (hook::profiling) hook::counts[fn]++;
    else if (hook::scheduling && vs::active && vs::self_id > 0 && hook::selected.count(fn)) vs::schedule('f', nullptr);
    hook::depth--;
}
void __cyg_profile_func_exit(void *, void *){}
}

// stable class of a sanitizer report: the shared object that is raced on / corrupted
static std::string site_class(const std::string &report, const std::string &fallback){
    if (report.find("WaveletBasisMatrix") != std::string::npos || report.find("buildInterpolationMatrix") != std::string::npos) return "wavelet-interpolation-matrix-cache";
    return fallback;
}
// ---------------------------------------------------------------- const operations
static const char *OPN[] = {"evaluate", "evaluateBatch", "getInterpolationWeights", "getQuadratureWeights", "getDifferentiationWeights", "integrate", "differentiate",
                            "evaluateHierarchicalFunctions", "evaluateSparseHierarchicalFunctions", "getPoints", "getHierarchicalCoefficients", "write-binary", "write-ascii",
                            "integrateHierarchicalFunctions", "getHierarchicalSupport", "evaluateFast", "evaluateSparseHierarchicalFunctionsGetNZ+Static"};
static const int NOPS = 17;
static std::vector<double> cprobes(const TasmanianSparseGrid &g, const Cfg &cfg, int np, int who = 0){ // who: the two threads ask about different points
    int d = g.getNumDimensions(); std::vector<double> x; bool tr = !cfg.ta.empty();
    for(int t=0;t<np;t++) for(int j=0;j<d;j++){ double u = -0.83 + 0.55 * t + 0.21 * j + 0.137 * who; if (u > 0.97) u -= 1.7; if (g.isFourier()) u = 0.5 * (u + 1.0); x.push_back(tr ? (g.isFourier() ? cfg.ta[j] + u * (cfg.tb[j] - cfg.ta[j]) : 0.5 * (cfg.tb[j] - cfg.ta[j]) * u + 0.5 * (cfg.tb[j] + cfg.ta[j])) : u); }
    return x;
}
static bool op_applicable(const TasmanianSparseGrid &g, int op){
    bool vals = g.getNumLoaded() > 0 && g.getNumOutputs() > 0;
    switch(op){ case 0: case 1: case 5: case 6: case 10: case 15: return vals; default: return g.getNumPoints() > 0; }
}
static std::string hexv(const std::vector<double> &v){ std::string s; for(double x : v){ s += vf::hexd(x); s += ','; } return s; }
static std::string run_op(const TasmanianSparseGrid &g, const Cfg &cfg, int op, int who = 0){
    int d = g.getNumDimensions(), outs = g.getNumOutputs(); auto x = cprobes(g, cfg, 3, who); std::vector<double> x0(x.begin(), x.begin() + d), y;
    try{
    switch(op){
        case 0: y.resize(outs); g.evaluate(x0.data(), y.data()); return hexv(y);
        case 1: g.evaluateBatch(x, y); return hexv(y);
        case 2: return hexv(g.getInterpolationWeights(x0));
        case 3: return hexv(g.getQuadratureWeights());
        case 4: return hexv(g.getDifferentiationWeights(x0));
        case 5: g.integrate(y); return hexv(y);
        case 6: g.differentiate(x0, y); return hexv(y);
        case 7: g.evaluateHierarchicalFunctions(x, y); return hexv(y);
        case 8: { std::vector<int> p, i; g.evaluateSparseHierarchicalFunctions(x, p, i, y); std::string s = hexv(y); for(int v : p) s += std::to_string(v) + ";"; for(int v : i) s += std::to_string(v) + ";"; return s; }
        case 9: return hexv(g.getPoints()) + "|" + hexv(g.getLoadedPoints()) + "|" + hexv(g.getNeededPoints());
        case 10: { const double *c = g.getHierarchicalCoefficients(); size_t n = (size_t) g.getNumLoaded() * outs * (g.isFourier() ? 2 : 1); return c ? hexv(std::vector<double>(c, c + n)) : "null"; }
        case 11: return vf::digest(bytes(g, true));
        case 12: return vf::digest(bytes(g, false));
        case 13: { std::vector<double> w; g.integrateHierarchicalFunctions(w); return hexv(w); }
        case 14: return hexv(g.getHierarchicalSupport());
        case 16: { // the two-step protocol of the C / Python interface: ask for the number of non-zeros, allocate, fill
            int nx = (int)(x.size() / (size_t) d); int nz = g.evaluateSparseHierarchicalFunctionsGetNZ(x.data(), nx); if (nz < 0) return "negative count";
            std::vector<int> p((size_t) nx + 1, -7), i((size_t) nz, -7); y.assign((size_t) nz * (g.isFourier() ? 2 : 1), -7.0);
            g.evaluateSparseHierarchicalFunctionsStatic(x.data(), nx, p.data(), i.data(), y.data());
            std::string s = hexv(y); for(int v : p) s += std::to_string(v) + ";"; for(int v : i) s += std::to_string(v) + ";"; return s; }
        default: y.resize(outs); g.evaluateFast(x0.data(), y.data()); return hexv(y);
    }
    }catch(std::exception &e){ return std::string("EXC ") + e.what(); }
}

// ---------------------------------------------------------------- grid states
struct StateSpec { Cfg cfg; int kind; }; // kind: 0 fresh (no values), 1 loaded, 2 loaded + pending refinement, 3 restored from file (loaded), 4 dynamic construction with parked samples
static const char *SKN[] = {"fresh", "loaded", "refined-pending", "read-from-file", "construction-parked-samples"};
static void build_state(const StateSpec &s, TasmanianSparseGrid &g){
    make(g, s.cfg); int d = s.cfg.dims, outs = s.cfg.outs;
    if (s.kind >= 1 && outs > 0) g.loadNeededValues(model_values(s.cfg.fam == F_FOURIER ? 4 : 0, g.getNeededPoints(), d, outs));
    if (s.kind == 2 && outs > 0){ if (g.isLocalPolynomial() || g.isWavelet()) g.setSurplusRefinement(1e-2, refine_classic, -1, std::vector<int>()); else if (!nonNestedGlobal(g)) g.setAnisotropicRefinement(type_iptotal, 2, 0, std::vector<int>()); }
    if (s.kind == 3){ std::stringstream ss; g.write(ss, true); TasmanianSparseGrid h; h.read(ss, true); g = std::move(h); }
    if (s.kind == 4 && outs > 0){ // construction in progress: the least important candidates are delivered first, so they stay parked in the construction data (lists of samples / candidate tensors)
        try{
            g.beginConstruction();
            std::vector<double> cand = (g.isLocalPolynomial() || g.isWavelet()) ? g.getCandidateConstructionPoints(1e-5, refine_classic) : g.getCandidateConstructionPoints(type_level, std::vector<int>((size_t) d, 1));
            size_t nc = cand.size() / (size_t) d, take = std::min<size_t>(4, nc);
            if (take > 0){ std::vector<double> x(cand.end() - (long)(take * d), cand.end()); g.loadConstructedPoints(x, model_values(s.cfg.fam == F_FOURIER ? 4 : 0, x, d, outs)); }
        }catch(std::exception &){ /* a family that does not admit construction stays in the loaded state */ }
    }
}
static Cfg mkc(int fam, TypeOneDRule rule, int dims, int outs, int depth, int order = 1){ Cfg c; c.fam = fam; c.rule = rule; c.dims = dims; c.outs = outs; c.depth = depth; c.order = order; return c; }
static bool nonNestedRule(TypeOneDRule r){ return OneDimensionalMeta::isNonNested(r); }
static std::vector<StateSpec> states(const std::string &tier){
    std::vector<Cfg> C = { mkc(F_WAVELET, rule_wavelet, 1, 1, 2, 1), mkc(F_WAVELET, rule_wavelet, 2, 1, 1, 3), mkc(F_LOCALP, rule_localp, 2, 2, 2, 1), mkc(F_LOCALP, rule_semilocalp, 1, 1, 2, 2),
                           mkc(F_SEQUENCE, rule_rleja, 2, 1, 2), mkc(F_GLOBAL, rule_clenshawcurtis, 2, 1, 2), mkc(F_GLOBAL, rule_gausslegendre, 1, 1, 2), mkc(F_FOURIER, rule_fourier, 1, 1, 1),
                           mkc(F_LOCALP, rule_localp, 2, 0, 2, 1), mkc(F_WAVELET, rule_wavelet, 1, 0, 1, 1) };
    if (tier == "thorough"){ C.push_back(mkc(F_LOCALP, rule_localp0, 2, 1, 2, 2)); C.push_back(mkc(F_LOCALP, rule_localp, 1, 1, 2, 0)); C.push_back(mkc(F_FOURIER, rule_fourier, 2, 1, 1)); C.push_back(mkc(F_SEQUENCE, rule_leja, 1, 2, 3));
        Cfg t = mkc(F_WAVELET, rule_wavelet, 1, 1, 2, 1); t.ta = {-0.7}; t.tb = {2.1}; C.push_back(t); }
    std::vector<StateSpec> S;
    for(auto &c : C) for(int k=0;k<5;k++){ if (c.outs == 0 && k != 0) continue; if (tier == "quick" && k == 3 && c.fam != F_WAVELET && c.fam != F_LOCALP) continue;
        if (k == 4 && (nonNestedRule(c.rule) || (tier == "quick" && c.fam == F_WAVELET))) continue; StateSpec s; s.cfg = c; s.kind = k; S.push_back(s); }
    return S;
}

// ---------------------------------------------------------------- one pair under the scheduler
static std::string pair_body(const StateSpec &ss, int opa, int opb, std::string *refa, std::string *refb){
    TasmanianSparseGrid g; build_state(ss, g);
    // reference results from an independent copy (restored through the file format) so that caches of g stay untouched
    { TasmanianSparseGrid c; std::stringstream st; g.write(st, true); c.read(st, true); *refa = run_op(c, ss.cfg, opa, 0); TasmanianSparseGrid c2; std::stringstream st2; g.write(st2, true); c2.read(st2, true); *refb = run_op(c2, ss.cfg, opb, 1); }
    std::string ra, rb;
    hook::scheduling = true;
    std::thread ta([&]{ ra = run_op(g, ss.cfg, opa, 0); }); std::thread tb([&]{ rb = run_op(g, ss.cfg, opb, 1); });
    ta.join(); tb.join();
    hook::scheduling = false;
    return std::string(ra == *refa ? "A=ok" : "A=DIFF") + " " + (rb == *refb ? "B=ok" : "B=DIFF");
}
static void profile_pair(const StateSpec &ss, int opa, int opb){
    // sequential pre-pass in a throw-away fork decides which functions are choice points (call count <= MAXCALLS)
    vf::Outcome o = vf::run_child([&](int fd){ TasmanianSparseGrid g; build_state(ss, g); hook::profiling = true; run_op(g, ss.cfg, opa, 0); run_op(g, ss.cfg, opb, 1); hook::profiling = false;
        std::ostringstream s; for(auto &p : hook::counts) if (p.second <= MAXCALLS) s << (unsigned long) p.first << " "; s << "| " << hook::counts.size(); vf::wr(fd, s.str()); }, 60.0);
    hook::selected.clear(); std::istringstream in(o.out); std::string t; while(in >> t){ if (t == "|") break; hook::selected.insert((void*) strtoul(t.c_str(), nullptr, 10)); }
}

int main(int argc, char **argv){
    vf::Args A(argc, argv); std::string tier = A.get("--tier", "quick"); int bound = (int) A.geti("--bound", tier == "quick" ? 1 : 2);
    double dl = A.getd("--deadline", 0); if (dl > 0) vf::g_deadline = vf::now() + dl;
    auto S = states(tier);
    struct WU { size_t si; int a, b; int bound; }; std::vector<WU> W;
    if (tier == "quick") MAXCALLS = 4;
    // quick: 7 representative operations, states {fresh, loaded}, bound 1.  thorough: all 17 operations on all states at bound 1,
    // and the weight / evaluation operations (the ones that may touch lazily built caches) at bound 2.
    static const int QOPS[] = {0, 2, 3, 4, 7, 11, 16}; static const int DEEP[] = {2, 3, 4, 1, 16};
    auto in = [](const int *set, int n, int v){ for(int i=0;i<n;i++) if (set[i] == v) return true; return false; };
    for(size_t si=0; si<S.size(); si++){ TasmanianSparseGrid g; build_state(S[si], g);
        for(int a=0;a<NOPS;a++) for(int b=0;b<NOPS;b++) if (op_applicable(g, a) && op_applicable(g, b)){
            WU u; u.si = si; u.a = a; u.b = b; u.bound = 1;
#ifndef VS_NO_INTERPOSE
            if (tier == "quick"){ if (!in(QOPS, 7, a) || !in(QOPS, 7, b) || a > b || S[si].kind != ((S[si].cfg.outs == 0) ? 0 : 1)) continue; }
            else if (bound >= 2 && in(DEEP, 5, a) && in(DEEP, 5, b) && (S[si].cfg.fam == F_WAVELET || S[si].cfg.fam == F_LOCALP || S[si].cfg.fam == F_SEQUENCE) && S[si].kind == 1) u.bound = 2;
#endif
            W.push_back(u); } }
#ifdef VS_NO_INTERPOSE
    { // free-running pass under ThreadSanitizer: per state one child runs every pair (fresh grid per pair, two real threads released
      // together); when the child reports a race the pairs of that state are re-run one per child to name the pair
        int reps = (tier == "quick") ? 1 : 3;
        auto run_pairs = [&](const StateSpec &ss, const std::vector<WU> &pairs){
            for(auto &u : pairs) for(int r=0;r<reps;r++){ TasmanianSparseGrid g; build_state(ss, g); std::atomic<int> go(0); std::string ra, rb;
                std::thread ta([&]{ go++; while(go.load() < 2){} ra = run_op(g, ss.cfg, u.a, 0); }); std::thread tb([&]{ go++; while(go.load() < 2){} rb = run_op(g, ss.cfg, u.b, 1); }); ta.join(); tb.join(); } };
        if (A.has("--replay")){
            std::string v = vf::slurp(A.get("--replay")); std::string cs = vf::jget(v, "case"); StateSpec ss; ss.cfg = Cfg::parse(vf::jget(cs, "cfg")); ss.kind = atoi(vf::jget(cs, "state").c_str()); WU u; u.si = 0; u.bound = 0; u.a = atoi(vf::jget(cs, "opa").c_str()); u.b = atoi(vf::jget(cs, "opb").c_str());
            reps = 5; vf::Outcome q = vf::run_child([&](int fd){ run_pairs(ss, std::vector<WU>(1, u)); vf::wr(fd, "done"); }, 300.0);
            if (q.kind != vf::Outcome::OK){ std::string cls = (q.kind == vf::Outcome::SANITIZER) ? q.sanitizer_class() : q.describe(); vf::violation(std::string("C12:tsan:") + famname(ss.cfg.fam) + ":" + site_class(q.err, std::string(OPN[u.a]) + "+" + OPN[u.b] + ":" + cls), "replay", cs, q.err.substr(0, 1800)); }
            vf::emit(vf::J().s("t","summary").s("replay", q.describe())); return 0;
        }
        size_t done = vf::parallel_units(S.size(), (int) A.geti("--workers", 8), [&](size_t si){
            const StateSpec &ss = S[si]; std::string unit = ss.cfg.str() + "/" + SKN[ss.kind]; std::vector<WU> P; for(auto &u : W) if (u.si == si && u.a <= u.b) P.push_back(u); long ex = 0;
            vf::Outcome o = vf::run_child([&](int fd){ run_pairs(ss, P); vf::wr(fd, "done"); }, 600.0); ex += (long) P.size() * reps;
            if (o.kind != vf::Outcome::OK){ int reported = 0;
                for(auto &u : P){ vf::Outcome q = vf::run_child([&](int fd){ run_pairs(ss, std::vector<WU>(1, u)); vf::wr(fd, "done"); }, 120.0); ex += reps;
                    if (q.kind != vf::Outcome::OK && reported < 6){ reported++; std::string cls = (q.kind == vf::Outcome::SANITIZER) ? q.sanitizer_class() : q.describe();
                        vf::violation(std::string("C12:tsan:") + famname(ss.cfg.fam) + ":" + site_class(q.err, std::string(OPN[u.a]) + "+" + OPN[u.b] + ":" + cls), unit, vf::J().s("cfg", ss.cfg.str()).i("state", ss.kind).i("opa", u.a).i("opb", u.b).s("mode", "tsan").str(), q.err.substr(0, 1800)); } }
                if (!reported) vf::violation(std::string("C12:tsan:") + famname(ss.cfg.fam) + ":state-level:" + (o.kind == vf::Outcome::SANITIZER ? o.sanitizer_class() : o.describe()), unit, vf::J().s("cfg", ss.cfg.str()).i("state", ss.kind).i("opa", -1).i("opb", -1).s("mode", "tsan").str(), o.err.substr(0, 1800)); }
            vf::emit(vf::J().s("t","unit").s("unit", unit).i("states", 0).i("transitions", 0).i("execs", ex).i("evals", ex).i("distinct", (long long) P.size()).b("complete", true));
        });
        vf::emit(vf::J().s("t","summary").i("units_total", (long long) S.size()).i("units_done", (long long) done).s("bound", "free-running ThreadSanitizer pass over every unordered pair of the 17 const operations on every state (auxiliary)").b("exhaustive", done == S.size() && !vf::past_deadline()));
        return 0;
    }
#endif
    if (A.has("--replay")){
        std::string v = vf::slurp(A.get("--replay")); std::string cs = vf::jget(v, "case"); StateSpec ss; ss.cfg = Cfg::parse(vf::jget(cs, "cfg")); ss.kind = atoi(vf::jget(cs, "state").c_str()); int a = atoi(vf::jget(cs, "opa").c_str()), b = atoi(vf::jget(cs, "opb").c_str());
        auto ch = vf::jints(vf::jget(cs, "choices")); std::vector<int> pre(ch.begin(), ch.end()); profile_pair(ss, a, b); std::string ra, rb;
        vx::Result x = vx::run(pre, [&]{ return pair_body(ss, a, b, &ra, &rb); }, 120.0);
        if (x.status != "OK" || x.obs.find("DIFF") != std::string::npos){ std::string cls = x.status != "OK" ? x.status : "result-differs"; vf::violation(std::string("C12:sched:") + famname(ss.cfg.fam) + ":" + site_class(x.out.err, std::string(OPN[a]) + "+" + OPN[b] + ":" + (x.status != "OK" ? (x.status.substr(0, 9) == "SANITIZER" ? x.status.substr(10) : x.status.substr(0, x.status.find(' '))) : "result-differs")), "replay", cs, cls + " " + x.obs); }
        vf::emit(vf::J().s("t","summary").s("replay", x.status + " " + x.obs)); return 0;
    }
    size_t done = vf::parallel_units(W.size(), (int) A.geti("--workers", 8), [&](size_t ui){
        const WU &u = W[ui]; const StateSpec &ss = S[u.si]; std::string unit = ss.cfg.str() + "/" + SKN[ss.kind] + "/" + OPN[u.a] + "+" + OPN[u.b];
        profile_pair(ss, u.a, u.b); vx::Stats St; std::map<std::string,long> oc; int nviol = 0; std::string ra, rb;
        auto on_exec = [&](const vx::Result &x, const std::vector<int> &){
            oc[x.status.substr(0, 40) + " " + x.obs]++;
            if (x.status != "OK" || x.obs.find("DIFF") != std::string::npos){ nviol++; if (nviol > 2) return;
                std::string cls = x.status != "OK" ? (x.status.substr(0, 9) == "SANITIZER" ? x.status.substr(10) : x.status.substr(0, x.status.find(' '))) : "result-differs";
                vf::violation(std::string("C12:sched:") + famname(ss.cfg.fam) + ":" + site_class(x.out.err, std::string(OPN[u.a]) + "+" + OPN[u.b] + ":" + cls), unit, vf::J().s("cfg", ss.cfg.str()).i("state", ss.kind).i("opa", u.a).i("opb", u.b).raw("choices", vf::jarr(vx::nonzero_prefix(x.pts))).str(), x.status + " " + x.obs + " " + x.out.err.substr(0, 1000)); } };
        vx::explore(std::vector<int>(), 0, u.bound, [&]{ return pair_body(ss, u.a, u.b, &ra, &rb); }, on_exec, St, 120.0);
        vf::emit(vf::J().s("t","unit").s("unit", unit).i("states", St.points).i("transitions", St.points).i("execs", St.execs).i("evals", 2 * St.execs).i("distinct", (long long) oc.size()).i("choice_functions", (long long) hook::selected.size()).i("maxpoints", St.maxpoints).i("violations", nviol).b("complete", !vf::past_deadline()));
    });
    vf::emit(vf::J().s("t","sample").raw("case", vf::J().s("state", S[0].cfg.str() + "/" + SKN[S[0].kind]).s("pair", std::string(OPN[W[0].a]) + "+" + OPN[W[0].b]).str()));
    vf::emit(vf::J().s("t","summary").i("units_total", (long long) W.size()).i("units_done", (long long) done).s("bound", std::string(tier == "quick" ? "7 representative const operations on the loaded state of every configuration: every unordered pair, two threads, all schedules with <= 1 deviation" : "all 17 const operations on all states: every ordered pair at <= 1 deviation; weight/evaluate operations on loaded local/wavelet/sequence grids at <= 2 deviations") + " over function-entry choice points (functions entered <= " + std::to_string(MAXCALLS) + " times per operation)").b("exhaustive", done == W.size() && !vf::past_deadline()));
    return 0;
}
