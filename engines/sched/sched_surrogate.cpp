// sched_surrogate - C18: every schedule (up to a deviation bound) of parallel constructSurrogate and of the threaded
// loadNeededValues runs on the real Addons code under the cooperative scheduler of sched.hpp; the oracle is evaluated on
// every execution: termination, exactly-once, exclusive thread ids, budget, values at their coordinates, nodal surrogate.
// With -DVS_NO_INTERPOSE (variant tsan) the same bodies run free under ThreadSanitizer (auxiliary race pass).
#include "sched.hpp"
#include "TasmanianSparseGrid.hpp"
#include "TasmanianAddons.hpp"
#include <atomic>
using namespace TasGrid;

struct Scenario { const char *name; int kind; int fam; int workers; int budget; int batch; double tol; };
// kind 0 = constructSurrogate<mode_parallel>, 1 = loadNeededValues<mode_parallel>
// fam: 0 local polynomial 1-D, 1 local polynomial 2-D, 2 sequence 2-D anisotropic, 3 global 1-D (weights variant), 4 wavelet 1-D
static const Scenario SC[] = {
    {"construct:localp1d:w2:b7:s1",      0, 0, 2, 7, 1, 1e-2},
    {"construct:localp1d:w2:b3:s2",      0, 0, 2, 3, 2, 1e-2},
    {"construct:localp1d:w3:b2:s1",      0, 0, 3, 2, 1, 1e-2},   // budget smaller than the number of workers
    {"construct:localp1d:w2:b40:tol",    0, 0, 2, 40, 1, 0.9},   // tolerance reached long before the budget
    {"construct:localp2d:w2:b9:s2",      0, 1, 2, 9, 2, 1e-2},
    {"construct:sequence2d:w2:b6:s1",    0, 2, 2, 6, 1, 0},
    {"construct:global1d:w2:b5:s1",      0, 3, 2, 5, 1, 0},
    {"construct:wavelet1d:w2:b6:s1",     0, 4, 2, 6, 1, 1e-2},
    {"construct:localp1d:w1:b4:s1",      0, 0, 1, 4, 1, 1e-2},
    {"load:localp1d:t2",                 1, 0, 2, 0, 0, 0},
    {"load:localp1d:t3",                 1, 0, 3, 0, 0, 0},
    {"load:sequence2d:t2",               1, 2, 2, 0, 0, 0},
    {"construct:localp1d:w3:b8:s2",      0, 0, 3, 8, 2, 1e-2},
};
static const int NSC = sizeof(SC) / sizeof(SC[0]);

static double fmodel(const double *x, int d, int k){ double s = 0.2 * k; for(int j=0;j<d;j++) s += std::exp(1.3 * x[j]) * (j + 1) + (x[j] > 0.3 ? 1.0 : 0.0); return s; }

static std::string body(int si){
    const Scenario &sc = SC[si]; std::ostringstream log;
    int d = (sc.fam == 1 || sc.fam == 2) ? 2 : 1; int outs = 2;
    TasmanianSparseGrid grid;
    switch(sc.fam){
        case 0: grid = makeLocalPolynomialGrid(1, outs, 1, 1, rule_localp); break;
        case 1: grid = makeLocalPolynomialGrid(2, outs, 1, 2, rule_localp); break;
        case 2: grid = makeSequenceGrid(2, outs, 1, type_level, rule_rleja); break;
        case 3: grid = makeGlobalGrid(1, outs, 1, type_level, rule_clenshawcurtis); break;
        default: grid = makeWaveletGrid(1, outs, 0, 1); break;
    }
    std::map<std::vector<double>, int> calls; std::map<size_t, int> inflight; int maxconc_same_id = 0; size_t launched = 0; std::string assign; bool bad_tid = false;
    size_t nworkers = (size_t) sc.workers;
    std::atomic_flag book = ATOMIC_FLAG_INIT; // protects the harness' own bookkeeping (no pthread call: invisible to the scheduler, visible to TSan)
    auto enter = [&](size_t tid, const double *x, size_t npts){
        while(book.test_and_set(std::memory_order_acquire)){}
        if (tid >= nworkers) bad_tid = true;
        inflight[tid]++; maxconc_same_id = std::max(maxconc_same_id, inflight[tid]);
        for(size_t i=0;i<npts;i++){ calls[std::vector<double>(x + i*d, x + (i+1)*d)]++; launched++; }
        assign += std::to_string(tid) + "x" + std::to_string(npts) + ";";
        book.clear(std::memory_order_release);
        vs::yield("model-begin");
    };
    auto leave = [&](size_t tid){ vs::yield("model-end"); while(book.test_and_set(std::memory_order_acquire)){} inflight[tid]--; book.clear(std::memory_order_release); };
    if (sc.kind == 0){
        auto model = [&](std::vector<double> const &x, std::vector<double> &y, size_t tid)->void{
            size_t n = x.size() / d; enter(tid, x.data(), n); y.resize(n * outs);
            for(size_t i=0;i<n;i++) for(int k=0;k<outs;k++) y[i*outs+k] = fmodel(&x[i*d], d, k);
            leave(tid);
        };
        if (sc.fam == 2) constructSurrogate<mode_parallel>(model, sc.budget, sc.workers, sc.batch, grid, type_iptotal, 0);
        else if (sc.fam == 3) constructSurrogate<mode_parallel>(model, sc.budget, sc.workers, sc.batch, grid, type_level, std::vector<int>{1});
        else constructSurrogate<mode_parallel>(model, sc.budget, sc.workers, sc.batch, grid, sc.tol, refine_classic);
    }else{
        auto model = [&](double const x[], double y[], size_t tid)->void{ enter(tid, x, 1); for(int k=0;k<outs;k++) y[k] = fmodel(x, d, k); leave(tid); };
        if (sc.fam == 2){ grid = makeSequenceGrid(2, outs, 2, type_level, rule_rleja); }
        else grid = makeLocalPolynomialGrid(1, outs, 2, 1, rule_localp);
        loadNeededValues<mode_parallel, false>(model, grid, (size_t) sc.workers);
    }
    int dup = 0; for(auto &c : calls) if (c.second > 1) dup++;
    bool misplaced = false; double worst = 0;
    if (grid.getNumLoaded() > 0){
        auto pts = grid.getLoadedPoints(); const double *v = grid.getLoadedValues(); std::vector<double> y; grid.evaluateBatch(pts, y);
        for(int i=0;i<grid.getNumLoaded();i++) for(int k=0;k<outs;k++){ double ex = fmodel(&pts[(size_t) i*d], d, k); if (v[(size_t) i*outs+k] != ex) misplaced = true; worst = std::max(worst, std::abs(y[(size_t) i*outs+k] - ex)); }
        for(int i=0;i<grid.getNumLoaded();i++) if (!calls.count(std::vector<double>(pts.begin() + (size_t) i*d, pts.begin() + (size_t)(i+1)*d))) misplaced = true;
    }
    log << "loaded=" << grid.getNumLoaded() << " launched=" << launched << " dup=" << dup << " sameid=" << maxconc_same_id << " badtid=" << bad_tid << " misplaced=" << misplaced
        << " nodal=" << (worst > (grid.isWavelet() ? 1e-7 : 1e-9) * 10 ? "BAD" : "ok") << " constr=" << grid.isUsingConstruction() << " assign=" << assign;
    return log.str();
}

static long field(const std::string &obs, const char *k){ size_t p = obs.find(std::string(k) + "="); if (p == std::string::npos) return -1; return atol(obs.c_str() + p + strlen(k) + 1); }

static int g_nviol = 0;
static void check_exec(int si, const vx::Result &x, const std::vector<int> &prefix, std::map<std::string,long> &outcomes){
    const Scenario &sc = SC[si]; std::string unit = sc.name;
    std::string cs = vf::J().i("scenario", si).s("name", sc.name).raw("choices", vf::jarr(vx::nonzero_prefix(x.pts))).str();
    auto viol = [&](const std::string &sig, const std::string &detail){ g_nviol++; if (g_nviol <= 30) vf::violation(sig, unit, cs, detail); };
    std::string kindn = sc.kind == 0 ? "constructSurrogate" : "loadNeededValues";
    if (x.status != "OK"){
        std::string st = x.status; std::string cls = st.substr(0, st.find(' '));
        outcomes["status:" + st]++;
        viol("C18:" + kindn + ":" + (cls == "SANITIZER" ? "sanitizer:" + st.substr(10) : cls == "DEADLOCK" ? "deadlock" : cls == "LIVELOCK" ? "livelock" : cls == "TIMEOUT" ? "timeout" : cls == "REPLAY-DIVERGED" ? "replay-diverged" : "died:" + st), st + " with schedule [" + vx::choices_str(x.pts) + "] " + x.out.err.substr(0, 800));
        return;
    }
    const std::string &o = x.obs; size_t ap = o.find(" assign=");
    outcomes[o.substr(0, ap) + " #assign=" + vf::digest(o.substr(ap == std::string::npos ? 0 : ap)).substr(0, 6)]++;
    if (field(o, "dup") > 0) viol("C18:" + kindn + ":point-computed-twice", o);
    if (field(o, "sameid") > 1) viol("C18:" + kindn + ":thread-id-used-concurrently", o);
    if (field(o, "badtid") > 0) viol("C18:" + kindn + ":thread-id-out-of-range", o);
    if (field(o, "misplaced") > 0) viol("C18:" + kindn + ":value-not-at-its-point", o);
    if (o.find("nodal=BAD") != std::string::npos) viol("C18:" + kindn + ":surrogate-not-nodal", o);
    if (sc.kind == 0 && field(o, "launched") > sc.budget) viol("C18:constructSurrogate:budget-exceeded" + std::string(sc.budget < sc.workers ? ":budget-below-workers" : ""), "budget " + std::to_string(sc.budget) + ": " + o);
    if (sc.kind == 0 && field(o, "loaded") > sc.budget) viol("C18:constructSurrogate:loaded-exceeds-budget", o);
    if (sc.kind == 1 && field(o, "loaded") != field(o, "launched")) viol("C18:loadNeededValues:not-every-needed-point-computed-once", o);
    (void) prefix;
}

int main(int argc, char **argv){
    vf::Args A(argc, argv); std::string tier = A.get("--tier", "quick"); int bound = (int) A.geti("--bound", tier == "quick" ? 2 : 3);
    double dl = A.getd("--deadline", 0); if (dl > 0) vf::g_deadline = vf::now() + dl;
    vs::choose_waiter = A.has("--choose-waiter") || tier == "thorough";
#ifdef VS_NO_INTERPOSE
    { // free-running pass under TSan: every scenario a few times, races are reported by the sanitizer (exit code 79 -> outcome)
        long ex = 0; std::map<std::string,long> oc;
        for(int si=0; si<NSC; si++) for(int rep=0; rep<(tier == "quick" ? 3 : 20); rep++){
            vf::Outcome o = vf::run_child([&](int fd){ vf::wr(fd, body(si)); }, 120.0); ex++;
            if (o.kind != vf::Outcome::OK){ vf::violation(std::string("C18:") + (SC[si].kind == 0 ? "constructSurrogate" : "loadNeededValues") + ":tsan:" + (o.kind == vf::Outcome::SANITIZER ? o.sanitizer_class() : o.describe()), SC[si].name, vf::J().i("scenario", si).s("mode","tsan-free-run").str(), o.err.substr(0, 1500)); break; }
            oc[o.out.substr(0, o.out.find(" assign="))]++;
        }
        vf::emit(vf::J().s("t","unit").s("unit","tsan-free-run").i("states", 0).i("transitions", 0).i("execs", ex).i("evals", ex).i("distinct", (long long) oc.size()).b("complete", true));
        vf::emit(vf::J().s("t","summary").i("units_total", 1).i("units_done", 1).s("bound", "free-running ThreadSanitizer pass of the same harness bodies (auxiliary)").b("exhaustive", true));
        return 0;
    }
#endif
    if (A.has("--trace")){ // print the operation trace of one schedule: --trace <scenario> [--choices 0,1,...]
        int si = (int) A.geti("--trace", 0); auto ch = vf::jints(A.get("--choices", "")); std::vector<int> pre(ch.begin(), ch.end());
        vx::Result x = vx::run(pre, [&]{ return body(si); }, 120.0, true);
        printf("%s | %s\n", x.status.c_str(), x.obs.c_str()); for(auto &t : x.trace) printf("%s ", t.c_str()); printf("\n"); return 0;
    }
    if (A.has("--replay")){
        std::string v = vf::slurp(A.get("--replay")); std::string cs = vf::jget(v, "case"); int si = atoi(vf::jget(cs, "scenario").c_str()); auto ch = vf::jints(vf::jget(cs, "choices")); std::vector<int> pre(ch.begin(), ch.end());
        // replay twice: identical observations are required before a failure is trusted
        vx::Result a = vx::run(pre, [&]{ return body(si); }, 120.0), b = vx::run(pre, [&]{ return body(si); }, 120.0); std::map<std::string,long> oc;
        if (a.status != b.status || a.obs != b.obs || vx::choices_str(a.pts) != vx::choices_str(b.pts)) vf::emit(vf::J().s("t","error").s("what","replay of the same schedule gives different observations"));
        check_exec(si, a, pre, oc); vf::emit(vf::J().s("t","summary").s("replay", a.status + " " + a.obs)); return 0;
    }
    // work units: (scenario, first-level alternative); unit 0 of each scenario also runs the default schedule
    struct WU { int si; std::vector<int> prefix; bool root; }; std::vector<WU> W;
    int nsc = (tier == "quick") ? NSC : NSC;
    for(int si=0; si<nsc; si++){
        vx::Result x = vx::run(std::vector<int>(), [&]{ return body(si); }, 120.0);
        WU r; r.si = si; r.root = true; W.push_back(r);
        if (bound >= 1) for(size_t i=0;i<x.pts.size();i++) for(int alt=1; alt<x.pts[i].nenabled; alt++){ WU u; u.si = si; u.root = false; for(size_t k=0;k<i;k++) u.prefix.push_back(x.pts[k].chosen); u.prefix.push_back(alt); W.push_back(u); }
    }
    // quick tier: the full bound on the scenarios with the richest protocol behaviour, bound-1 on the others (reported in the summary)
    auto sbound = [&](int si)->int{ if (tier != "quick") return bound; static const int full[] = {0, 1, 2, 3, 9, 12}; for(int f : full) if (f == si) return bound; return std::min(bound, 1); };
    size_t done = vf::parallel_units(W.size(), (int) A.geti("--workers", 8), [&](size_t ui){
        const WU &u = W[ui]; vx::Stats S; std::map<std::string,long> oc; int si = u.si; g_nviol = 0;
        auto on_exec = [&](const vx::Result &x, const std::vector<int> &p){ check_exec(si, x, p, oc); };
        if (u.root){ vx::Result x = vx::run(std::vector<int>(), [&]{ return body(si); }, 120.0); S.execs++; S.points += (long) x.pts.size(); on_exec(x, std::vector<int>()); }
        else vx::explore(u.prefix, 1, sbound(si), [&]{ return body(si); }, on_exec, S, 120.0);
        for(auto &p : oc) vf::emit(vf::J().s("t","outcome").s("key", std::string(SC[si].name) + " | " + p.first).i("n", p.second));
        if (ui % 41 == 0 && !oc.empty()) vf::emit(vf::J().s("t","sample").raw("case", vf::J().s("scenario", SC[si].name).raw("first_level_deviation", vf::jarr(u.prefix)).i("schedules_below", S.execs).s("an_outcome", oc.begin()->first).str()));
        vf::emit(vf::J().s("t","unit").s("unit", std::string(SC[si].name) + (u.root ? ":default" : ":" + vf::jarr(u.prefix))).i("states", S.points).i("transitions", S.points).i("execs", S.execs).i("evals", S.execs).i("distinct", (long long) oc.size()).i("violations", g_nviol).b("complete", !vf::past_deadline()));
    });
    vf::emit(vf::J().s("t","sample").raw("case", vf::J().s("scenario", SC[0].name).s("schedule", "default, then every choice vector with <= " + std::to_string(bound) + " non-default choices").str()));
    vf::emit(vf::J().s("t","summary").i("units_total", (long long) W.size()).i("units_done", (long long) done).s("bound", "all schedules with <= " + std::to_string(bound) + " deviations from the default schedule (quick tier: scenarios 0,1,2,3,9,12 at that bound, the others at bound 1), " + std::to_string(nsc) + " scenarios" + (vs::choose_waiter ? ", notify_one may wake any waiter" : ", FIFO wake-up")).b("exhaustive", done == W.size() && !vf::past_deadline()));
    return 0;
}
