// sched_surrogate - C18: every schedule (up to a deviation bound) of parallel constructSurrogate and of the threaded
// loadNeededValues runs on the real Addons code under the cooperative scheduler of sched.hpp; the oracle is evaluated on
// every execution: termination, exactly-once, exclusive thread ids, budget, values at their coordinates, nodal surrogate.
// With -DVS_NO_INTERPOSE (variant tsan) the same bodies run free under ThreadSanitizer (auxiliary race pass).
#include "surrogate_body.inc"

int main(int argc, char **argv){
    vf::Args A(argc, argv); std::string tier = A.get("--tier", "quick"); int bound = (int) A.geti("--bound", tier == "quick" ? 2 : 3);
    double dl = A.getd("--deadline", 0); if (dl > 0) vf::g_deadline = vf::now() + dl;
    vs::choose_waiter = A.has("--choose-waiter") || tier == "thorough";
#ifdef VS_NO_INTERPOSE
    { // free-running pass under TSan: every scenario a few times, races are reported by the sanitizer (exit code 79 -> outcome)
        long ex = 0; std::map<std::string,long> oc;
        for(int si=0; si<NSC; si++) for(int rep=0; rep<(tier == "quick" ? 3 : 20); rep++){
            vf::Outcome o = vf::run_child([&](int fd){ vf::wr(fd, body(si)); }, 120.0); ex++;
            if (o.kind != vf::Outcome::OK){ vf::violation(std::string("C18:") + (SC[si].kind == 0 ? "constructSurrogate" : "loadNeededValues") + ":tsan:" + (o.kind == vf::Outcome::SANITIZER ? o.sanitizer_class() : o.describe()), SC[si].name, vf::J().i("scenario", si).s("mode","tsan-free-run").str(), o.err.substr(0, 1500)); break; }
            oc[o.out.substr(0, o.out.find(" assign="))]++;
        }
        vf::emit(vf::J().s("t","unit").s("unit","tsan-free-run").i("states", 0).i("transitions", 0).i("execs", ex).i("evals", ex).i("distinct", (long long) oc.size()).b("complete", true));
        vf::emit(vf::J().s("t","summary").i("units_total", 1).i("units_done", 1).s("bound", "free-running ThreadSanitizer pass of the same harness bodies (auxiliary)").b("exhaustive", true));
        return 0;
    }
#endif
    auto set_lat = [&](const std::string &s){ auto v = vf::jints(s); if (v.size() >= 5){ g_lat.p = (int) v[0]; g_lat.tp = (int) v[1]; g_lat.q = (int) v[2]; g_lat.tq = (int) v[3]; g_lat.u = (int) v[4]; } if (v.size() >= 7){ g_lat.k = (int) v[5]; g_lat.tk = (int) v[6]; } };
    if (A.has("--lat")) set_lat(A.get("--lat", ""));
    if (A.has("--trace")){ // print the operation trace of one schedule: --trace <scenario> [--choices 0,1,...] [--lat p,tp,q,tq,u]
        int si = (int) A.geti("--trace", 0); auto ch = vf::jints(A.get("--choices", "")); std::vector<int> pre(ch.begin(), ch.end());
        vx::Result x = vx::run(pre, [&]{ return body(si); }, 120.0, true);
        printf("%s | %s\n", x.status.c_str(), x.obs.c_str()); for(auto &t : x.trace) printf("%s ", t.c_str()); printf("\n"); return 0;
    }
    if (A.has("--replay")){
        std::string v = vf::slurp(A.get("--replay")); std::string cs = vf::jget(v, "case"); int si = atoi(vf::jget(cs, "scenario").c_str()); auto ch = vf::jints(vf::jget(cs, "choices")); std::vector<int> pre(ch.begin(), ch.end()); set_lat(vf::jget(cs, "lat"));
        // replay twice: identical observations are required before a failure is trusted
        vx::Result a = vx::run(pre, [&]{ return body(si); }, 120.0), b = vx::run(pre, [&]{ return body(si); }, 120.0); std::map<std::string,long> oc;
        if (a.status != b.status || a.obs != b.obs || vx::choices_str(a.pts) != vx::choices_str(b.pts)) vf::emit(vf::J().s("t","error").s("what","replay of the same schedule gives different observations"));
        check_exec(si, a, pre, oc); vf::emit(vf::J().s("t","summary").s("replay", a.status + " " + a.obs)); return 0;
    }
    // work units: (scenario, first-level alternative); unit 0 of each scenario also runs the default schedule
    struct WU { int si; std::vector<int> prefix; bool root; bool whole; Lat lat; }; std::vector<WU> W;
    int nsc = (tier == "quick") ? NSC : NSC;
    for(int si=0; si<nsc; si++){
        vx::Result x = vx::run(std::vector<int>(), [&]{ return body(si); }, 120.0);
        WU r; r.si = si; r.root = true; r.whole = false; W.push_back(r);
        if (bound >= 1) for(size_t i=0;i<x.pts.size();i++) for(int alt=1; alt<x.pts[i].nenabled; alt++){ WU u; u.si = si; u.root = false; u.whole = false; for(size_t k=0;k<i;k++) u.prefix.push_back(x.pts[k].chosen); u.prefix.push_back(alt); W.push_back(u); }
    }
    // latency enumeration: every assignment of the families F0 (only the non-initial points are slow), F1 (one slow initial point), F2 (two slow initial points, 1 and 2 ticks)
    // is a work unit, explored from the root with lbound deviations (quick 0 = the default schedule of every assignment, thorough 1)
    int lbound = (int) A.geti("--lbound", tier == "quick" ? 0 : 1); long nlat = 0;
    for(int si=SC_LAT0; si<SC_LAT0+NSC_LAT; si++){
        if (tier == "quick" && (si == SC_LAT0 + 2 || si == SC_LAT0 + 3 || si == SC_LAT0 + 6)) continue;
        const int NI = (SC[si].fam == 5) ? 13 : (SC[si].fam == 6 ? 5 : 21); std::vector<Lat> L;
        for(int k=1;k<=NI;k++) for(int tk : {1, 2}) for(int u : {0, 1}){ Lat l; l.k = k; l.tk = tk; l.u = u; L.push_back(l); } // F3: the k coarsest initial points are slow
        for(int u : {0, 1, 2, 4}){ Lat l; l.u = u; L.push_back(l); }
        for(int p=0;p<NI;p++) for(int tp : {1, 2, 3}) for(int u : {0, 1, 2, 4}){ Lat l; l.p = p; l.tp = tp; l.u = u; L.push_back(l); }
        if (SC[si].fam == 5) for(int p=0;p<NI;p++) for(int q=0;q<NI;q++) if (p != q) for(int u : {0, 2, 4}){ Lat l; l.p = p; l.tp = 1; l.q = q; l.tq = 2; l.u = u; L.push_back(l); }
        for(auto &l : L){ WU u; u.si = si; u.root = false; u.whole = true; u.lat = l; W.push_back(u); nlat++; }
    }
    // quick tier: the full bound on the scenarios with the richest protocol behaviour, bound-1 on the others (reported in the summary)
    auto sbound = [&](int si)->int{ if (tier != "quick") return bound; static const int full[] = {0, 1, 2, 3, 9, 12}; /* scenario 13 (preloaded grid, ~50 ms per execution) stays at bound 1 */ for(int f : full) if (f == si) return bound; return std::min(bound, 1); };
    size_t done = vf::parallel_units(W.size(), (int) A.geti("--workers", 8), [&](size_t ui){
        const WU &u = W[ui]; vx::Stats S; std::map<std::string,long> oc; int si = u.si; g_nviol = 0; g_lat = u.lat;
        auto on_exec = [&](const vx::Result &x, const std::vector<int> &p){ check_exec(si, x, p, oc); };
        if (u.whole) vx::explore(std::vector<int>(), 0, (si >= SC_LAT0 + 2 && si != SC_LAT0 + 4) ? 0 : lbound, [&]{ return body(si); }, on_exec, S, 120.0); // the last two latency scenarios: default schedule only
        else if (u.root){ vx::Result x = vx::run(std::vector<int>(), [&]{ return body(si); }, 120.0); S.execs++; S.points += (long) x.pts.size(); on_exec(x, std::vector<int>()); }
        else vx::explore(u.prefix, 1, sbound(si), [&]{ return body(si); }, on_exec, S, 120.0);
        for(auto &p : oc) vf::emit(vf::J().s("t","outcome").s("key", std::string(SC[si].name) + " | " + p.first).i("n", p.second));
        if (ui % 41 == 0 && !oc.empty()) vf::emit(vf::J().s("t","sample").raw("case", vf::J().s("scenario", SC[si].name).raw("first_level_deviation", vf::jarr(u.prefix)).i("schedules_below", S.execs).s("an_outcome", oc.begin()->first).str()));
        vf::emit(vf::J().s("t","unit").s("unit", std::string(SC[si].name) + (u.whole ? ":lat" + lat_str(u.lat) : u.root ? ":default" : ":" + vf::jarr(u.prefix))).i("states", S.points).i("transitions", S.points).i("execs", S.execs).i("evals", S.execs).i("distinct", (long long) oc.size()).i("violations", g_nviol).b("complete", !vf::past_deadline()));
    });
    vf::emit(vf::J().s("t","sample").raw("case", vf::J().s("scenario", SC[0].name).s("schedule", "default, then every choice vector with <= " + std::to_string(bound) + " non-default choices").str()));
    vf::emit(vf::J().s("t","summary").i("units_total", (long long) W.size()).i("units_done", (long long) done).s("bound", "all schedules with <= " + std::to_string(bound) + " deviations from the default schedule (quick tier: scenarios 0,1,2,3,9,12 at that bound, the others at bound 1), " + std::to_string(nsc) + " scenarios; " + std::to_string(nlat) + " (latency scenario, latency assignment) units in virtual time with <= " + std::to_string(lbound) + " deviations" + (vs::choose_waiter ? ", notify_one may wake any waiter" : ", FIFO wake-up")).b("exhaustive", done == W.size() && !vf::past_deadline()));
    return 0;
}
