/* Promela model of the worker protocol of parallel constructSurrogate() (Addons/tsgConstructSurrogate.hpp, constructCommon).
 * One model step = one scheduling unit of engine E-C (engines/sched/sched.hpp): the chosen thread runs from its current choice point to
 * the next interposed synchronisation operation it reaches; the step is labelled with that operation. With -DHIST every step is recorded in a
 * history variable (paths are never merged) and each complete run prints its history from a c_code block: these are ALL traces of the
 * model, which engine E-C replays on the implementation (thread ids as the schedule, labels compared with the real operation trace).
 * Without -DHIST the model is verified for deadlock freedom, budget and exactly-once over all interleavings with state merging.
 * Parameters: NW workers, BUDGET samples, POOL candidates available in total, batch size 1. */
#ifndef NW
#define NW 2
#endif
#ifndef BUDGET
#define BUDGET 2
#endif
#ifndef POOL
#define POOL 3
#endif
#define DONE 0
#define COMPUTING 1
#define SHUTDOWN 2
/* labels = operation reached at the end of a step */
#define L_CREATE 1
#define L_LOCK 2
#define L_UNLOCK 3
#define L_WAIT 4
#define L_SIGNAL 5
#define L_BCAST 6
#define L_JOIN 7
#define L_EXIT 8
#define L_MB 9
#define L_ME 10

byte flag[NW]; bool created[NW]; bool finished[NW];
byte count_done = 0, launched = 0, running = 0, avail = POOL, computed = 0;
bool locked = false; bool mainWaits = false; bool mainSignalled = false; bool wWaits[NW]; bool wSignalled[NW];
bool inModel[NW]; bool mainDone = false;
#ifdef HIST
byte hist[96]; byte hn = 0;
#define REC(p, l) hist[hn] = (p) * 16 + (l); hn++
#else
#define REC(p, l) skip
#endif

inline assign_or_shutdown(id){
    if
    :: (launched < BUDGET && avail > 0) -> avail--; launched++; running++; flag[id] = COMPUTING
    :: else -> flag[id] = SHUTDOWN
    fi
}

proctype Worker(byte id){
    byte my = COMPUTING;
    /* thread id in E-C = id + 1 */
    do
    :: my == COMPUTING ->
        atomic{ assert(!inModel[id]); inModel[id] = true; computed++; REC(id+1, L_MB) }      /* enters the model callback, reaches yield(model-begin) */
        atomic{ REC(id+1, L_ME) }                                                             /* reaches yield(model-end) */
        atomic{ inModel[id] = false; REC(id+1, L_LOCK) }                                      /* model returned, reaches lock_guard */
        atomic{ !locked -> flag[id] = DONE; count_done++; REC(id+1, L_UNLOCK) }               /* critical section; the unlock takes effect, choice point after it */
        atomic{ if :: mainWaits -> mainWaits = false; mainSignalled = true :: else -> skip fi; REC(id+1, L_SIGNAL) } /* notify_one(until_someone_done) */
        atomic{ REC(id+1, L_LOCK) }                                                           /* reaches unique_lock */
        atomic{ !locked -> locked = true;
                if :: flag[id] == DONE -> locked = false; wWaits[id] = true; REC(id+1, L_WAIT)
                   :: else -> my = flag[id]; locked = false; REC(id+1, L_UNLOCK); goto decided
                fi }
        do
        :: atomic{ wSignalled[id] && !locked -> wSignalled[id] = false; locked = true;
                if :: flag[id] == DONE -> locked = false; wWaits[id] = true; REC(id+1, L_WAIT)
                   :: else -> my = flag[id]; locked = false; REC(id+1, L_UNLOCK); goto decided
                fi }
        od;
decided: skip
    :: else -> break
    od;
    atomic{ finished[id] = true; REC(id+1, L_EXIT) }
}

inline collect(){
    byte k = 0;
    do
    :: k < NW ->
        if :: flag[k] == DONE && created[k] -> running--; assign_or_shutdown(k)
           :: else -> skip
        fi; k++
    :: else -> break
    od
}

active proctype Main(){
    byte i = 0; byte j = 0;
    /* launch loop: every pthread_create is a choice point (after the thread exists) */
    do
    :: i < NW ->
        atomic{ assign_or_shutdown(i);
                if :: flag[i] == COMPUTING -> created[i] = true; run Worker(i); REC(0, L_CREATE) :: else -> skip fi; i++ }
    :: else -> break
    od;
    do
    :: running > 0 ->
        atomic{ REC(0, L_LOCK) }
        atomic{ !locked -> locked = true;
                if :: count_done == 0 -> locked = false; mainWaits = true; REC(0, L_WAIT)
                   :: else -> count_done = 0; collect(); locked = false; REC(0, L_UNLOCK); goto released
                fi }
        do
        :: atomic{ mainSignalled && !locked -> mainSignalled = false; locked = true;
                if :: count_done == 0 -> locked = false; mainWaits = true; REC(0, L_WAIT)
                   :: else -> count_done = 0; collect(); locked = false; REC(0, L_UNLOCK); goto released
                fi }
        od;
released:
        atomic{ j = 0; do :: j < NW -> if :: wWaits[j] -> wWaits[j] = false; wSignalled[j] = true :: else -> skip fi; j++ :: else -> break od; REC(0, L_BCAST) }
    :: else -> break
    od;
    /* join every created worker, in order */
    i = 0;
    do
    :: i < NW ->
        if :: created[i] -> atomic{ REC(0, L_JOIN) }; atomic{ finished[i] -> skip }
           :: else -> skip
        fi; i++
    :: else -> break
    od;
    atomic{ assert(launched <= BUDGET); assert(computed == launched); assert(running == 0); mainDone = true;
#ifdef HIST
            c_code{ int q; for(q = 0; q < now.hn; q++) printf("%d:%d ", now.hist[q] / 16, now.hist[q] % 16); printf("\n"); }
#endif
    }
}
