/* Promela model of the worker protocol of parallel constructSurrogate() (Addons/tsgConstructSurrogate.hpp, constructCommon).
 *
 * Binding to the code: ONE model step = ONE scheduling block of engine E-C (engines/sched/sched.hpp): the chosen thread runs from its
 * current choice point to the next interposed synchronisation operation it reaches; the step is labelled with that operation
 * (the labels are exactly the operation names in the trace that E-C records from the real code: "tid:op").
 *
 *   (default)   verification over ALL interleavings with state merging: deadlock freedom (invalid end states), budget, exactly-once
 *   -DHIST      every step is recorded in a history variable (paths are never merged); each complete run prints its history from a c_code
 *               block: these are ALL traces of the model; E-C replays each on the implementation (thread ids = the schedule, labels
 *               compared with the recorded operations)
 *   -DFOLLOW    (implies HIST) acceptor: only the run given in the file $VERIF_TRACE can be taken; prints ACCEPTED when it is a complete
 *               run of the model: used to check that every execution of the implementation explored by E-C is a behaviour of the model
 *   -DNOYIELD   the model callback has no explicit choice points (fewer interleavings for the all-traces replay)
 * Parameters: NW workers, BUDGET samples, POOL candidates available in total (batch size 1).
 */
#ifndef NW
#define NW 2
#endif
#ifndef BUDGET
#define BUDGET 2
#endif
#ifndef POOL
#define POOL 3
#endif
#define DONE 0
#define COMPUTING 1
#define SHUTDOWN 2
/* labels = operation reached at the end of a step (same numbering as in engines/sched/sched_conform.cpp) */
#define L_CREATE 1
#define L_LOCK 2
#define L_UNLOCK 3
#define L_WAIT 4
#define L_SIGNAL 5
#define L_BCAST 6
#define L_JOIN 7
#define L_EXIT 8
#define L_MB 9
#define L_ME 10

#ifdef FOLLOW
#ifndef HIST
#define HIST
#endif
c_decl {
    \#include <stdio.h>
    \#include <stdlib.h>
    static int f_n = -1; static int f_p[256]; static int f_l[256]; static int f_bad = 0;
    static void f_load(void){ const char *fn = getenv("VERIF_TRACE"); FILE *f = fn ? fopen(fn, "r") : NULL; f_n = 0; if (!f){ f_bad = 1; return; } int p, l; while(f_n < 256 && fscanf(f, "%d:%d", &p, &l) == 2){ f_p[f_n] = p; f_l[f_n] = l; f_n++; } fclose(f); }
}
/* Spin accepts no function calls in c_expr: the trace is loaded by the first statement of Main, the guards are array look-ups.
   The last block of main (after the last join) ends without an operation: it is the step with hn == f_n */
#define TURNW c_expr{ !f_bad && now.hn < f_n && f_p[now.hn] == PWorker->id + 1 }
#define TURNM c_expr{ !f_bad && ((now.hn < f_n && f_p[now.hn] == 0) || now.hn == f_n) }
#else
#define TURNW true
#define TURNM true
#endif

byte flag[NW]; bool created[NW]; bool finished[NW];
byte count_done = 0, launched = 0, running = 0, avail = POOL, computed = 0;
bool locked = false; bool mainWaits = false; bool mainSignalled = false; bool wWaits[NW]; bool wSignalled[NW];
bool inModel[NW];
#ifdef HIST
byte hist[128]; byte hn = 0;
#ifdef FOLLOW
#define REC(p, l) c_code{ if (!(now.hn < f_n && f_l[now.hn] == l)) f_bad = 1; }; hist[hn] = (p) * 16 + (l); hn++
#else
#define REC(p, l) hist[hn] = (p) * 16 + (l); hn++
#endif
#else
#define REC(p, l) skip
#endif

inline assign_or_shutdown(id){
    if
    :: (launched < BUDGET && avail > 0) -> avail--; launched++; running++; flag[id] = COMPUTING
    :: else -> flag[id] = SHUTDOWN
    fi
}
/* entering the model callback: with yields the block ends at model-begin, without it runs through the callback to the lock_guard */
inline enter_model(id){
    assert(!inModel[id]); computed++;
#ifdef NOYIELD
    REC(id+1, L_LOCK); wpc = 3
#else
    inModel[id] = true; REC(id+1, L_MB); wpc = 1
#endif
}
inline wait_or_take(id){ /* body of until_new_job.wait(lock, pred) with the lock held */
    if :: flag[id] == DONE -> locked = false; wWaits[id] = true; REC(id+1, L_WAIT); wpc = 7
       :: else -> my = flag[id]; locked = false; REC(id+1, L_UNLOCK); wpc = 8
    fi
}

proctype Worker(byte id){
    byte my = COMPUTING; byte wpc = 0;   /* thread id in E-C = id + 1 */
    do
    :: atomic{ wpc == 0 && TURNW -> enter_model(id) }
    :: atomic{ wpc == 1 && TURNW -> REC(id+1, L_ME); wpc = 2 }
    :: atomic{ wpc == 2 && TURNW -> inModel[id] = false; REC(id+1, L_LOCK); wpc = 3 }
    :: atomic{ wpc == 3 && !locked && TURNW -> flag[id] = DONE; count_done++; REC(id+1, L_UNLOCK); wpc = 4 }      /* lock_guard section, the unlock has taken effect */
    :: atomic{ wpc == 4 && TURNW -> if :: mainWaits -> mainWaits = false; mainSignalled = true :: else -> skip fi; REC(id+1, L_SIGNAL); wpc = 5 }
    :: atomic{ wpc == 5 && TURNW -> REC(id+1, L_LOCK); wpc = 6 }
    :: atomic{ wpc == 6 && !locked && TURNW -> locked = true; wait_or_take(id) }
    :: atomic{ wpc == 7 && wSignalled[id] && !locked && TURNW -> wSignalled[id] = false; locked = true; wait_or_take(id) }
    :: atomic{ wpc == 8 && TURNW ->
            if :: my == COMPUTING -> enter_model(id)
               :: else -> finished[id] = true; REC(id+1, L_EXIT); wpc = 9
            fi }
    :: wpc == 9 -> break
    od
}

byte mpc = 0; byte li = 0; byte jn = 0; byte jt = 0;
inline collect(){
    byte k = 0;
    do
    :: k < NW ->
        if :: flag[k] == DONE && created[k] -> running--; assign_or_shutdown(k)
           :: else -> skip
        fi; k++
    :: else -> break
    od
}
inline locked_section(){ /* body of until_someone_done.wait(lock, pred) + collect with the lock held */
    if :: count_done == 0 -> locked = false; mainWaits = true; REC(0, L_WAIT); mpc = 3
       :: else -> count_done = 0; collect(); locked = false; REC(0, L_UNLOCK); mpc = 4
    fi
}
inline loop_top_or_join(){ /* while(manager.getNumRunning() > 0) ... ; then join every created worker in order */
    if :: running > 0 -> REC(0, L_LOCK); mpc = 2
       :: else ->
            do :: jn < NW && !created[jn] -> jn++ :: else -> break od;
            if :: jn < NW -> jt = jn; REC(0, L_JOIN); mpc = 5
               :: else -> mpc = 6
            fi
    fi
}

active proctype Main(){
#ifdef FOLLOW
    c_code{ f_load(); };
#endif
    do
    :: atomic{ mpc == 0 && TURNM ->   /* launch loop up to the next pthread_create (its choice point comes after the thread exists) */
            do
            :: li < NW -> assign_or_shutdown(li);
                    if :: flag[li] == COMPUTING -> created[li] = true; run Worker(li); li++; REC(0, L_CREATE); break
                       :: else -> li++
                    fi
            :: else -> loop_top_or_join(); break
            od }
    :: atomic{ mpc == 2 && !locked && TURNM -> locked = true; locked_section() }
    :: atomic{ mpc == 3 && mainSignalled && !locked && TURNM -> mainSignalled = false; locked = true; locked_section() }
    :: atomic{ mpc == 4 && TURNM -> jt = 0; do :: jt < NW -> if :: wWaits[jt] -> wWaits[jt] = false; wSignalled[jt] = true :: else -> skip fi; jt++ :: else -> break od; REC(0, L_BCAST); mpc = 7 }
    :: atomic{ mpc == 7 && TURNM -> loop_top_or_join() }
    :: atomic{ mpc == 5 && finished[jt] && TURNM -> jn = jt + 1; mpc = 8; loop_top_or_join() }
    :: atomic{ mpc == 6 ->
            assert(launched <= BUDGET); assert(computed == launched); assert(running == 0);
#ifdef HIST
#ifdef FOLLOW
            c_code{ if (!f_bad && now.hn == f_n) printf("ACCEPTED\n"); }
#else
            c_code{ int q; for(q = 0; q < now.hn; q++) printf("%d:%d ", now.hist[q] / 16, now.hist[q] % 16); printf("\n"); }
#endif
#endif
            mpc = 9 }
    :: mpc == 9 -> break
    od
}
