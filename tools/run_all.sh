#!/bin/bash
# tools/run_all.sh <quick|thorough> [ID...] - runs the registered checks one after the other on /repo and prints one line per check (exit status, SUMMARY, alarms)
TIER=${1:-quick}; shift; IDS=${@:-C01 C02 C03 C04 C05 C06 C07 C08 C09 C10 C11 C12 C13 C14 C15 C16 C17 C18 C19 C20}
cd /verif
for id in $IDS; do
  t0=$(date +%s); out=$(bin/check $id --tier $TIER 2>&1); rc=$?; t1=$(date +%s)
  echo "$id rc=$rc $((t1-t0))s $(echo "$out" | grep -E '^SUMMARY' | cut -c1-260)"
  echo "$out" | grep -E '^(VIOLATION|HARNESS|BUILD-FAILED|NOTE)' | cut -c1-300 | head -8
done
