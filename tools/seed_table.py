#!/usr/bin/env python3
"""tools/seed_table.py - regenerates the detection table of DESIGN.md (section 7.7) from seeded/*/meta.json (between the markers)."""
import json, os, glob, re
rows = []
for d in sorted(glob.glob('/verif/seeded/*/')):
    n = os.path.basename(d.rstrip('/')); mf = d + 'meta.json'
    if not os.path.exists(mf): rows.append((n, '?', '(meta.json missing)', '', '')); continue
    m = json.load(open(mf))
    def cell(s): return re.sub(r'\s+', ' ', str(s)).replace('|', '\\|')
    rows.append((n, m.get('property', n[:3]), cell(m.get('file', '')), cell(m.get('needs', '')), cell(m.get('detected_by', '')), cell(m.get('history', ''))))
tab = "| seed | change | needs | caught by | history |\n|---|---|---|---|---|\n" + "\n".join("| `%s` | %s | %s | %s | %s |" % (r[0], r[2], r[3], r[4], r[5] if len(r) > 5 else '') for r in rows) + "\n"
p = '/verif/DESIGN.md'; t = open(p).read(); a, b = '<!-- SEED-TABLE-BEGIN -->\n', '<!-- SEED-TABLE-END -->'
if a in t: t = t[:t.index(a) + len(a)] + tab + t[t.index(b):]; open(p, 'w').write(t); print("table updated:", len(rows), "seeds")
else: print(tab)
