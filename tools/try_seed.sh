#!/bin/bash
# tools/try_seed.sh <patch.diff> <ID> [<ID>...]   - applies a seeded change to a scratch worktree of /repo (never /repo itself while
# other work is going on), runs the listed checks against it (VERIF_REPO), prints the VIOLATION / SUMMARY lines, and reverts the worktree.
# The worktree /tmp/seedcheck/repo and its build directory /verif/build/alt/<hash> are kept between calls (incremental rebuilds);
# remove them with:  tools/try_seed.sh --clean
set -u
WT=/tmp/seedcheck/repo
mkdir -p /tmp/seedcheck; exec 9>/tmp/seedcheck/.lock; flock 9   # one caller at a time: the worktree is shared
if [ "$1" = "--clean" ]; then git -C /repo worktree remove --force $WT 2>/dev/null; rm -rf /tmp/seedcheck /verif/build/alt; exit 0; fi
PATCH=$(readlink -f "$1"); shift
if [ ! -d $WT ]; then mkdir -p /tmp/seedcheck; git -C /repo worktree add -q --detach $WT HEAD || exit 2; fi
git -C $WT checkout -q --detach $(git -C /repo rev-parse HEAD) 2>/dev/null
git -C $WT checkout -q -- . ; git -C $WT clean -fdq
git -C $WT apply "$PATCH" || { echo "PATCH-DOES-NOT-APPLY"; exit 2; }
cd /verif
rc=0
for id in "$@"; do
  VERIF_REPO=$WT bin/check $id --tier ${TIER:-quick} 2>&1 | grep -E "^(VIOLATION|KNOWN-FINDING|SUMMARY|BUILD-FAILED|HARNESS)" | cut -c1-400
done
git -C $WT checkout -q -- . ; git -C $WT clean -fdq
