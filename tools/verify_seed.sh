#!/bin/bash
# tools/verify_seed.sh <ID> [name] : confirms a seeded change delivered in /tmp/seed/<ID> (patch applied there, uncommitted):
# builds, runs the 14 tests, runs the demonstration with and without the change, and stores it under /verif/seeded/<name>/.
ID=$1; NAME=${2:-$1}; WT=/tmp/seed/$ID; OUT=/verif/seeded/$NAME
set -u
cd $WT || exit 2
git diff -- . ':!demo' > /tmp/seed/$ID.patch.diff
[ -s /tmp/seed/$ID.patch.diff ] || { echo "EMPTY-PATCH"; exit 2; }
cmake --build _build -j8 2>&1 | tail -1; [ -d _build_omp ] && cmake --build _build_omp -j8 2>&1 | tail -1
T=$(ctest --test-dir _build -j8 --timeout 900 2>&1 | grep -E "tests passed|tests failed" | tail -1); echo "TESTS(with change): $T"
bash demo/run.sh > /tmp/seed/$ID.demo_with.log 2>&1; RW=$?; echo "DEMO(with change) exit=$RW"
git apply -R /tmp/seed/$ID.patch.diff && cmake --build _build -j8 2>&1 | tail -1; [ -d _build_omp ] && cmake --build _build_omp -j8 2>&1 | tail -1
bash demo/run.sh > /tmp/seed/$ID.demo_without.log 2>&1; RO=$?; echo "DEMO(without change) exit=$RO"
git apply /tmp/seed/$ID.patch.diff
mkdir -p $OUT; cp /tmp/seed/$ID.patch.diff $OUT/patch.diff; cp demo/demo.cpp demo/run.sh $OUT/ 2>/dev/null; cp demo/NOTES.md $OUT/NOTES.md 2>/dev/null
cp /tmp/seed/$ID.demo_with.log $OUT/demo_with_change.log; cp /tmp/seed/$ID.demo_without.log $OUT/demo_without_change.log
echo "$T" > $OUT/tests_with_change.txt
echo "RESULT tests='$T' demo_with=$RW demo_without=$RO"
